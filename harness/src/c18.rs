//! C18 — the HTTP service always answers well-formed JSON reflecting the workspace.
//!
//! Three families:
//! * `jsonify` (in-process): `Value::jsonify()` of generated values against the Lean model of
//!   `jsonify`, and the property on the implementation alone: the text is a JSON document
//!   (strict parser below, `serde_json` as a second opinion) that decodes to the value.
//! * `decode` (oracle cross-check): the Lean RFC 8259 decoder against the strict parser of
//!   this file and `serde_json` on generated valid and damaged JSON texts.
//! * `http`: `dmntk_server::start_server` from the working tree in a child process on a
//!   loopback port; request sequences (definitions operations, evaluations, echo decisions,
//!   rejected and malformed requests interleaved) against the handler model
//!   (`Dmn.Server.serve`): byte for byte (the tie), and as JSON documents (the property).

use crate::c17::{model_xml, Alphabet, MDef};
use crate::model::Model;
use crate::report::{Kind, Report};
use crate::rng::Rng;
use crate::sexp::Sexp;
use crate::util::guarded;
use crate::Cfg;
use dmntk_common::Jsonify;
use dmntk_feel::context::FeelContext;
use dmntk_feel::values::{Value, Values};
use dmntk_feel::{FeelNumber, Name, Scope};
use dmntk_model_evaluator::ModelEvaluator;
use serde_json::json;
use std::io::{Read, Write};
use std::net::{TcpListener, TcpStream};
use std::process::{Child, Command, Stdio};
use std::str::FromStr;
use std::sync::Arc;
use std::time::{Duration, Instant};

// ------------------------------------------------------------------------------------------
// the service in a child process
// ------------------------------------------------------------------------------------------

/// `vharness child c18-server <port>`: runs the service until the process is killed.
pub fn server_child(args: &[String], _input: &str) -> i32 {
  let port = args.first().cloned().unwrap_or_else(|| "0".to_string());
  let mut system = actix_rt::System::new("c18");
  match system.block_on(dmntk_server::start_server(Some("127.0.0.1".to_string()), Some(port), None)) {
    Ok(()) => 0,
    Err(_) => 3,
  }
}

pub(crate) struct Server {
  child: Child,
  pub(crate) port: u16,
}

impl Server {
  pub(crate) fn start() -> Result<Server, String> {
    for _attempt in 0..5 {
      let port = {
        let l = TcpListener::bind("127.0.0.1:0").map_err(|e| e.to_string())?;
        l.local_addr().map_err(|e| e.to_string())?.port()
      };
      let exe = std::env::current_exe().map_err(|e| e.to_string())?;
      let child = Command::new(exe)
        .arg("child")
        .arg("c18-server")
        .arg(port.to_string())
        // the service reads HOST/PORT/DIR from the environment as well: keep them out
        .env_remove("HOST")
        .env_remove("PORT")
        .env_remove("DIR")
        .env_remove("DMNTK_HOST")
        .env_remove("DMNTK_PORT")
        .env_remove("DMNTK_DIR")
        .stdin(Stdio::null())
        .stdout(Stdio::null())
        .stderr(Stdio::null())
        .spawn()
        .map_err(|e| e.to_string())?;
      let mut s = Server { child, port };
      let t0 = Instant::now();
      while t0.elapsed() < Duration::from_secs(15) {
        if let Ok(Some(_)) = s.child.try_wait() {
          break; // could not bind: try another port
        }
        if TcpStream::connect(("127.0.0.1", port)).is_ok() {
          return Ok(s);
        }
        std::thread::sleep(Duration::from_millis(20));
      }
      let _ = s.child.kill();
      let _ = s.child.wait();
    }
    Err("the service did not start listening".to_string())
  }
  pub(crate) fn alive(&mut self) -> bool {
    matches!(self.child.try_wait(), Ok(None))
  }
}

impl Drop for Server {
  fn drop(&mut self) {
    // coverage runs (lib/coverage.sh): let the service end by itself so that its profile is written
    if std::env::var("VHARNESS_TERM").is_ok() {
      let _ = Command::new("kill").arg("-TERM").arg(self.child.id().to_string()).status();
      let t0 = Instant::now();
      while t0.elapsed() < Duration::from_secs(5) && self.alive() {
        std::thread::sleep(Duration::from_millis(20));
      }
    }
    let _ = self.child.kill();
    let _ = self.child.wait();
  }
}

#[derive(Debug, Clone)]
pub(crate) struct HttpAnswer {
  pub(crate) status: u16,
  pub(crate) content_type: String,
  pub(crate) body: Vec<u8>,
}

/// One HTTP/1.1 exchange over a fresh connection (`Connection: close`).
pub(crate) fn http(port: u16, method: &str, path: &str, content_type: Option<&str>, body: &[u8]) -> Result<HttpAnswer, String> {
  let mut s = TcpStream::connect(("127.0.0.1", port)).map_err(|e| format!("connect: {}", e))?;
  let _ = s.set_read_timeout(Some(Duration::from_secs(20)));
  let _ = s.set_write_timeout(Some(Duration::from_secs(20)));
  let mut head = format!("{} {} HTTP/1.1\r\nHost: 127.0.0.1:{}\r\nConnection: close\r\nContent-Length: {}\r\n", method, path, port, body.len());
  if let Some(ct) = content_type {
    head.push_str(&format!("Content-Type: {}\r\n", ct));
  }
  head.push_str("\r\n");
  // the service may answer (and close) before it has read a long body: read what it sent anyway
  let wrote = s.write_all(head.as_bytes()).and_then(|_| s.write_all(body));
  let mut raw = vec![];
  let read = s.read_to_end(&mut raw);
  if raw.is_empty() {
    if let Err(e) = wrote {
      return Err(format!("write: {}", e));
    }
    if let Err(e) = read {
      return Err(format!("read: {}", e));
    }
  }
  let split = raw.windows(4).position(|w| w == b"\r\n\r\n").ok_or_else(|| "no header end".to_string())?;
  let head = String::from_utf8_lossy(&raw[..split]).to_string();
  let mut payload = raw[split + 4..].to_vec();
  let mut lines = head.split("\r\n");
  let status_line = lines.next().unwrap_or("");
  let status: u16 = status_line.split(' ').nth(1).and_then(|x| x.parse().ok()).ok_or_else(|| format!("status line: {}", status_line))?;
  let mut content_type = String::new();
  let mut chunked = false;
  let mut content_length: Option<usize> = None;
  for l in lines {
    if let Some((k, v)) = l.split_once(':') {
      let k = k.trim().to_ascii_lowercase();
      let v = v.trim();
      match k.as_str() {
        "content-type" => content_type = v.to_string(),
        "transfer-encoding" => chunked = v.to_ascii_lowercase().contains("chunked"),
        "content-length" => content_length = v.parse().ok(),
        _ => {}
      }
    }
  }
  if chunked {
    let mut out = vec![];
    let mut i = 0;
    loop {
      let e = payload[i..].windows(2).position(|w| w == b"\r\n").ok_or_else(|| "chunk header".to_string())?;
      let size = usize::from_str_radix(String::from_utf8_lossy(&payload[i..i + e]).trim(), 16).map_err(|_| "chunk size".to_string())?;
      i += e + 2;
      if size == 0 {
        break;
      }
      if i + size > payload.len() {
        return Err("chunk truncated".into());
      }
      out.extend_from_slice(&payload[i..i + size]);
      i += size + 2;
    }
    payload = out;
  } else if let Some(n) = content_length {
    if payload.len() < n {
      return Err("body truncated".into());
    }
    payload.truncate(n);
  }
  Ok(HttpAnswer { status, content_type, body: payload })
}

// ------------------------------------------------------------------------------------------
// a strict RFC 8259 parser (independent of the Lean one; numbers keep their lexeme)
// ------------------------------------------------------------------------------------------

#[derive(Debug, Clone, PartialEq)]
enum J {
  Null,
  Bool(bool),
  Num(String),
  Str(String),
  Arr(Vec<J>),
  Obj(Vec<(String, J)>),
}

impl J {
  fn sexp(&self) -> Sexp {
    match self {
      J::Null => Sexp::atom("null"),
      J::Bool(b) => Sexp::tagged("b", vec![Sexp::bool(*b)]),
      J::Num(t) => Sexp::tagged("n", vec![Sexp::str(t)]),
      J::Str(t) => Sexp::tagged("str", vec![Sexp::str(t)]),
      J::Arr(xs) => Sexp::tagged("arr", xs.iter().map(|x| x.sexp()).collect()),
      J::Obj(ms) => Sexp::tagged("obj", ms.iter().map(|(k, v)| Sexp::list(vec![Sexp::str(k), v.sexp()])).collect()),
    }
  }
  fn get<'a>(&'a self, key: &str) -> Option<&'a J> {
    match self {
      J::Obj(ms) => ms.iter().find(|(k, _)| k == key).map(|(_, v)| v),
      _ => None,
    }
  }
}

struct JP<'a> {
  cs: &'a [char],
  i: usize,
  depth: usize,
}

impl<'a> JP<'a> {
  fn ws(&mut self) {
    while self.i < self.cs.len() && matches!(self.cs[self.i], ' ' | '\t' | '\n' | '\r') {
      self.i += 1;
    }
  }
  fn peek(&self) -> Option<char> {
    self.cs.get(self.i).copied()
  }
  fn lit(&mut self, word: &str, v: J) -> Result<J, String> {
    for w in word.chars() {
      if self.peek() != Some(w) {
        return Err(format!("bad literal at {}", self.i));
      }
      self.i += 1;
    }
    Ok(v)
  }
  fn hex4(&mut self) -> Result<u32, String> {
    let mut v = 0u32;
    for _ in 0..4 {
      let c = self.peek().ok_or("eof in \\u")?;
      v = v * 16 + c.to_digit(16).ok_or("bad hex digit")?;
      self.i += 1;
    }
    Ok(v)
  }
  fn string(&mut self) -> Result<String, String> {
    // at the opening quotation mark
    self.i += 1;
    let mut out = String::new();
    loop {
      let c = self.peek().ok_or("eof in string")?;
      self.i += 1;
      match c {
        '"' => return Ok(out),
        '\\' => {
          let e = self.peek().ok_or("eof in escape")?;
          self.i += 1;
          match e {
            '"' => out.push('"'),
            '\\' => out.push('\\'),
            '/' => out.push('/'),
            'b' => out.push('\u{8}'),
            'f' => out.push('\u{c}'),
            'n' => out.push('\n'),
            'r' => out.push('\r'),
            't' => out.push('\t'),
            'u' => {
              let u = self.hex4()?;
              if (0xD800..0xDC00).contains(&u) {
                if self.peek() != Some('\\') {
                  return Err("lone surrogate".into());
                }
                self.i += 1;
                if self.peek() != Some('u') {
                  return Err("lone surrogate".into());
                }
                self.i += 1;
                let lo = self.hex4()?;
                if !(0xDC00..0xE000).contains(&lo) {
                  return Err("lone surrogate".into());
                }
                out.push(char::from_u32(0x10000 + (u - 0xD800) * 0x400 + (lo - 0xDC00)).ok_or("bad pair")?);
              } else if (0xDC00..0xE000).contains(&u) {
                return Err("lone surrogate".into());
              } else {
                out.push(char::from_u32(u).ok_or("bad scalar")?);
              }
            }
            _ => return Err("unknown escape".into()),
          }
        }
        c if (c as u32) < 0x20 => return Err("control character in string".into()),
        c => out.push(c),
      }
    }
  }
  fn number(&mut self) -> Result<J, String> {
    let start = self.i;
    if self.peek() == Some('-') {
      self.i += 1;
    }
    match self.peek() {
      Some('0') => self.i += 1,
      Some(c) if c.is_ascii_digit() => {
        while matches!(self.peek(), Some(c) if c.is_ascii_digit()) {
          self.i += 1;
        }
      }
      _ => return Err(format!("bad number at {}", self.i)),
    }
    if self.peek() == Some('.') {
      self.i += 1;
      if !matches!(self.peek(), Some(c) if c.is_ascii_digit()) {
        return Err("digit expected after '.'".into());
      }
      while matches!(self.peek(), Some(c) if c.is_ascii_digit()) {
        self.i += 1;
      }
    }
    if matches!(self.peek(), Some('e') | Some('E')) {
      self.i += 1;
      if matches!(self.peek(), Some('+') | Some('-')) {
        self.i += 1;
      }
      if !matches!(self.peek(), Some(c) if c.is_ascii_digit()) {
        return Err("digit expected in exponent".into());
      }
      while matches!(self.peek(), Some(c) if c.is_ascii_digit()) {
        self.i += 1;
      }
    }
    Ok(J::Num(self.cs[start..self.i].iter().collect()))
  }
  fn value(&mut self) -> Result<J, String> {
    self.depth += 1;
    if self.depth > 2000 {
      return Err("too deep".into());
    }
    let r = match self.peek() {
      None => Err("eof".to_string()),
      Some('"') => self.string().map(J::Str),
      Some('t') => self.lit("true", J::Bool(true)),
      Some('f') => self.lit("false", J::Bool(false)),
      Some('n') => self.lit("null", J::Null),
      Some('[') => {
        self.i += 1;
        self.ws();
        let mut xs = vec![];
        if self.peek() == Some(']') {
          self.i += 1;
          Ok(J::Arr(xs))
        } else {
          loop {
            self.ws();
            xs.push(self.value()?);
            self.ws();
            match self.peek() {
              Some(',') => self.i += 1,
              Some(']') => {
                self.i += 1;
                break Ok(J::Arr(xs));
              }
              _ => break Err(format!("',' or ']' expected at {}", self.i)),
            }
          }
        }
      }
      Some('{') => {
        self.i += 1;
        self.ws();
        let mut ms = vec![];
        if self.peek() == Some('}') {
          self.i += 1;
          Ok(J::Obj(ms))
        } else {
          loop {
            self.ws();
            if self.peek() != Some('"') {
              break Err(format!("member name expected at {}", self.i));
            }
            let k = self.string()?;
            self.ws();
            if self.peek() != Some(':') {
              break Err(format!("':' expected at {}", self.i));
            }
            self.i += 1;
            self.ws();
            let v = self.value()?;
            ms.push((k, v));
            self.ws();
            match self.peek() {
              Some(',') => self.i += 1,
              Some('}') => {
                self.i += 1;
                break Ok(J::Obj(ms));
              }
              _ => break Err(format!("',' or '}}' expected at {}", self.i)),
            }
          }
        }
      }
      Some(_) => self.number(),
    };
    self.depth -= 1;
    r
  }
}

/// `serde_json`'s verdict, `None` when it has no opinion: it parses numbers into `f64` and
/// rejects those out of range ("number out of range"), which the RFC grammar allows.
fn serde_accepts(text: &str) -> Option<bool> {
  match serde_json::from_str::<serde_json::Value>(text) {
    Ok(_) => Some(true),
    Err(e) if e.to_string().contains("number out of range") => None,
    Err(_) => Some(false),
  }
}

fn strict_parse(text: &str) -> Result<J, String> {
  let cs: Vec<char> = text.chars().collect();
  let mut p = JP { cs: &cs, i: 0, depth: 0 };
  p.ws();
  let v = p.value()?;
  p.ws();
  if p.i != cs.len() {
    return Err(format!("trailing text at {}", p.i));
  }
  Ok(v)
}

// ------------------------------------------------------------------------------------------
// generated values
// ------------------------------------------------------------------------------------------

#[derive(Debug, Clone)]
enum G {
  Null,
  Bool(bool),
  /// plain decimal literal
  Num(String),
  Str(String),
  List(Vec<G>),
  Ctx(Vec<(String, G)>),
  /// a FEEL expression that evaluates to a temporal value / range
  Expr(String),
}

const PLAIN_CHARS: &[char] = &['a', 'b', 'Z', '0', '9', ' ', '_', '-', '/', '.', ':', ',', '{', '}', '[', ']', '\'', 'é', 'ż', 'ß', '€', '中', '語', '안', 'Ａ', '\u{7f}', '\u{a0}', '\u{2028}', '\u{ffff}', '🙏', '\u{10ffff}'];
const ESC_CHARS: &[char] = &['"', '\\', '\n', '\r', '\t', '\u{0}', '\u{1}', '\u{8}', '\u{c}', '\u{1f}', '\u{b}'];

fn gen_string(rng: &mut Rng, escapes: bool) -> String {
  let len = match rng.below(10) {
    0 => 0,
    1..=6 => 1 + rng.below(6),
    7 | 8 => 6 + rng.below(20),
    _ => 30 + rng.below(200),
  } as usize;
  let mut s = String::new();
  for _ in 0..len {
    if escapes && rng.chance(1, 5) {
      s.push(*rng.pick(ESC_CHARS));
    } else {
      s.push(*rng.pick(PLAIN_CHARS));
    }
  }
  s
}

fn gen_digits(rng: &mut Rng, lo: u64, span: u64) -> String {
  let n = lo + rng.below(span);
  let mut s = String::new();
  for i in 0..n {
    let d = if i == 0 { 1 + rng.below(9) } else { rng.below(10) };
    s.push(char::from(b'0' + d as u8));
  }
  s
}

/// Number texts in which zeros stand next to the decimal point on either side: integer parts that are zero or end in
/// zeros, fractions that are all zeros or begin / end with zeros (the scale of a literal is kept by the evaluator, so
/// these are the texts a renderer that "tidies" numbers gets wrong).
const ZERO_INTS: &[&str] = &["0", "5", "10", "20", "100", "120", "1200", "105", "1000000", "90000000000000000000"];
const ZERO_FRACS: &[&str] = &["0", "00", "000", "0000000000", "50", "05", "500", "10", "010", "001", "100"];

fn zero_pattern_numbers() -> Vec<String> {
  let mut out = vec![];
  for sign in ["", "-"] {
    for i in ZERO_INTS {
      // no negative zeros: `-0.0` written in an expression is the negation of zero, which is zero
      let zero = |t: &str| num_norm(t).map(|n| n.1 == "0").unwrap_or(false);
      if !(sign == "-" && zero(i)) {
        out.push(format!("{}{}", sign, i));
      }
      for f in ZERO_FRACS {
        let t = format!("{}.{}", i, f);
        if !(sign == "-" && zero(&t)) {
          out.push(format!("{}{}", sign, t));
        }
      }
    }
  }
  out
}

/// A number text as (negative, coefficient digits without leading / trailing zeros, exponent): two texts denote the
/// same number iff these agree (zero is `(false, "0", 0)`). `None`: not a decimal number text.
fn num_norm(text: &str) -> Option<(bool, String, i64)> {
  let (neg, rest) = match text.strip_prefix('-') {
    Some(r) => (true, r),
    None => (false, text.strip_prefix('+').unwrap_or(text)),
  };
  let (mant, exp) = match rest.find(|c| c == 'e' || c == 'E') {
    Some(p) => (&rest[..p], rest[p + 1..].parse::<i64>().ok()?),
    None => (rest, 0),
  };
  let (ip, fp) = match mant.split_once('.') {
    Some((i, f)) => (i, f),
    None => (mant, ""),
  };
  if (ip.is_empty() && fp.is_empty()) || !ip.chars().chain(fp.chars()).all(|c| c.is_ascii_digit()) {
    return None;
  }
  let mut digits = format!("{}{}", ip, fp);
  let mut exp = exp - fp.len() as i64;
  while digits.len() > 1 && digits.ends_with('0') {
    digits.pop();
    exp += 1;
  }
  let digits = digits.trim_start_matches('0').to_string();
  if digits.is_empty() {
    return Some((false, "0".to_string(), 0));
  }
  Some((neg, digits, exp))
}

/// The numbers of the JSON document are the numbers written into the value (structure walked in parallel; anything
/// that is not a number written out is not looked at).
fn same_numbers(g: &G, j: &J) -> bool {
  match (g, j) {
    (G::Num(t), J::Num(l)) => num_norm(t).is_some() && num_norm(t) == num_norm(l),
    (G::Num(_), _) => false,
    (G::List(xs), J::Arr(ys)) => xs.len() == ys.len() && xs.iter().zip(ys.iter()).all(|(x, y)| same_numbers(x, y)),
    (G::Ctx(es), J::Obj(ms)) => es.iter().all(|(k, v)| match ms.iter().find(|(mk, _)| mk == k) {
      Some((_, mv)) => same_numbers(v, mv),
      None => !matches!(v, G::Num(_)),
    }),
    _ => true,
  }
}

fn gen_number(rng: &mut Rng) -> String {
  let sign = if rng.chance(1, 3) { "-" } else { "" };
  match rng.below(12) {
    0 => "0".to_string(),
    10 | 11 => {
      let i = *rng.pick(ZERO_INTS);
      let t = if rng.chance(1, 5) { i.to_string() } else { format!("{}.{}", i, rng.pick(ZERO_FRACS)) };
      if num_norm(&t).map(|n| n.1 == "0").unwrap_or(true) {
        t
      } else {
        format!("{}{}", sign, t)
      }
    }
    1 | 2 => format!("{}{}", sign, gen_digits(rng, 1, 3)),
    3 => format!("{}{}", sign, gen_digits(rng, 10, 24)),
    4 | 5 => {
      let a = gen_digits(rng, 1, 5);
      let b = gen_digits(rng, 1, 6);
      format!("{}{}.{}", sign, a, b)
    }
    6 => format!("{}0.{}", sign, gen_digits(rng, 1, 5)),
    // small magnitudes: the decimal library prints these in scientific notation and
    // `scientific_to_plain` rewrites them
    7 => {
      let z = 5 + rng.below(6) as usize;
      format!("{}0.{}{}", sign, "0".repeat(z), gen_digits(rng, 1, 3))
    }
    8 => {
      let a = gen_digits(rng, 1, 3);
      let z = rng.below(30) as usize;
      format!("{}{}{}", sign, a, "0".repeat(z))
    }
    _ => {
      let a = gen_digits(rng, 2, 1);
      let b = gen_digits(rng, 2, 1);
      format!("{}{}.{}0", sign, a, b)
    }
  }
}

const TEMPORALS: &[&str] = &[
  "date(\"2021-01-01\")",
  "time(\"10:20:30\")",
  "date and time(\"2021-01-01T10:20:30\")",
  "duration(\"P1Y2M\")",
  "duration(\"P1DT2H\")",
  "[1..10]",
];

fn gen_value(rng: &mut Rng, depth: u32, escapes: bool, temporals: bool) -> G {
  let k = if depth == 0 { rng.below(6) } else { rng.below(10) };
  match k {
    0 => G::Null,
    1 => G::Bool(rng.chance(1, 2)),
    2 => G::Num(gen_number(rng)),
    3 | 4 => G::Str(gen_string(rng, escapes)),
    5 => {
      if temporals && rng.chance(1, 3) {
        G::Expr(rng.pick(TEMPORALS).to_string())
      } else {
        G::Str(gen_string(rng, escapes))
      }
    }
    6 | 7 => {
      let n = rng.below(5);
      G::List((0..n).map(|_| gen_value(rng, depth - 1, escapes, temporals)).collect())
    }
    _ => {
      let n = rng.below(5);
      let mut es: Vec<(String, G)> = vec![];
      for _ in 0..n {
        let mut key = gen_string(rng, escapes).trim().to_string();
        if key.chars().count() > 12 {
          key = key.chars().take(12).collect::<String>().trim().to_string();
        }
        if key.is_empty() {
          key = "k".to_string();
        }
        if es.iter().any(|(k, _)| *k == key) {
          continue;
        }
        es.push((key, gen_value(rng, depth - 1, escapes, temporals)));
      }
      G::Ctx(es)
    }
  }
}

fn eval_feel(text: &str) -> Option<Value> {
  crate::util::note_case(text);
  let s = Scope::default();
  let n = dmntk_feel_parser::parse_expression(&s, text, false).ok()?;
  dmntk_feel_evaluator::evaluate(&s, &n).ok()
}

fn to_value(g: &G) -> Option<Value> {
  Some(match g {
    G::Null => Value::Null(None),
    G::Bool(b) => Value::Boolean(*b),
    G::Num(t) => Value::Number(FeelNumber::from_str(t).ok()?),
    G::Str(s) => Value::String(s.clone()),
    G::List(xs) => Value::List(Values::new(xs.iter().map(to_value).collect::<Option<Vec<_>>>()?)),
    G::Ctx(es) => {
      let mut ctx = FeelContext::default();
      for (k, v) in es {
        ctx.set_entry(&Name::from(k.as_str()), to_value(v)?);
      }
      Value::Context(ctx)
    }
    G::Expr(t) => eval_feel(t)?,
  })
}

fn feel_string_literal(s: &str) -> String {
  let mut out = String::from("\"");
  for c in s.chars() {
    match c {
      '"' => out.push_str("\\\""),
      '\\' => out.push_str("\\\\"),
      c if (c as u32) < 0x20 || (c as u32) >= 0x7f => {
        if (c as u32) <= 0xffff {
          out.push_str(&format!("\\u{:04X}", c as u32));
        } else {
          out.push_str(&format!("\\U{:06X}", c as u32));
        }
      }
      c => out.push(c),
    }
  }
  out.push('"');
  out
}

/// The value as a FEEL literal (the text sent to `/evaluate/...`).
fn to_feel(g: &G) -> String {
  match g {
    G::Null => "null".into(),
    G::Bool(b) => b.to_string(),
    G::Num(t) => {
      if let Some(r) = t.strip_prefix('-') {
        format!("(-{})", r)
      } else {
        t.clone()
      }
    }
    G::Str(s) => feel_string_literal(s),
    G::List(xs) => format!("[{}]", xs.iter().map(to_feel).collect::<Vec<_>>().join(", ")),
    G::Ctx(es) => format!("{{{}}}", es.iter().map(|(k, v)| format!("{}: {}", feel_string_literal(k), to_feel(v))).collect::<Vec<_>>().join(", ")),
    G::Expr(t) => t.clone(),
  }
}

/// The structure of a value as the model's `JV` (the rendering itself is the model's job).
fn to_jv(v: &Value) -> Sexp {
  match v {
    Value::Null(_) => Sexp::list(vec![Sexp::atom("null")]),
    Value::Boolean(b) => Sexp::tagged("b", vec![Sexp::bool(*b)]),
    Value::Number(n) if non_finite_text(&n.to_string()) => Sexp::list(vec![Sexp::atom("nf")]), // c19fix: ±Infinity, NaN
    Value::Number(n) => Sexp::tagged("n", vec![Sexp::str(&n.to_string())]),
    Value::String(s) => Sexp::tagged("str", vec![Sexp::str(s)]),
    Value::List(items) => Sexp::tagged("l", items.as_vec().iter().map(to_jv).collect()),
    Value::Context(ctx) => Sexp::tagged("c", ctx.iter().map(|(k, v)| Sexp::list(vec![Sexp::str(&k.to_string()), to_jv(v)])).collect()),
    other => Sexp::tagged("o", vec![Sexp::str(&other.to_string())]),
  }
}

/// The JSON document the value stands for (computed here, independently of the driver).
fn to_expected(v: &Value) -> J {
  match v {
    Value::Null(_) => J::Null,
    Value::Boolean(b) => J::Bool(*b),
    Value::Number(n) if non_finite_text(&n.to_string()) => J::Null, // c19fix: JSON has no text for ±Infinity / NaN
    Value::Number(n) => J::Num(n.to_string()),
    Value::String(s) => J::Str(s.clone()),
    Value::List(items) => J::Arr(items.as_vec().iter().map(to_expected).collect()),
    Value::Context(ctx) => J::Obj(ctx.iter().map(|(k, v)| (k.to_string(), to_expected(v))).collect()),
    other => J::Str(other.to_string()),
  }
}

#[derive(Default, Clone, Copy)]
struct Traits {
  other_kind: bool,
  needs_escape: bool,
  compound: bool,
  strings: bool,
}

fn traits(v: &Value, t: &mut Traits) {
  let esc = |s: &str| s.chars().any(|c| c == '"' || c == '\\' || (c as u32) < 0x20);
  match v {
    Value::Null(_) | Value::Boolean(_) | Value::Number(_) => {}
    Value::String(s) => {
      t.strings = true;
      if esc(s) {
        t.needs_escape = true;
      }
    }
    Value::List(items) => {
      t.compound = true;
      items.as_vec().iter().for_each(|x| traits(x, t));
    }
    Value::Context(ctx) => {
      t.compound = true;
      for (k, x) in ctx.iter() {
        t.strings = true;
        if esc(&k.to_string()) {
          t.needs_escape = true;
        }
        traits(x, t);
      }
    }
    _ => t.other_kind = true,
  }
}

const SIG_RAW: &str = "jsonify writes a string or context key containing '\"', '\\' or a control character without escaping";
const SIG_OTHER: &str = "jsonify writes a value without JSON form as the bare text 'jsonify not implemented for: ...'";
const SIG_NUM: &str = "jsonify writes a number text that is not a JSON number";
const SIG_DECODE: &str = "jsonify text does not decode to the value";
const SIG_REPLACE: &str = "POST /definitions/replace does not answer as Workspace::replace of the same model";

/// Which known shape a rendering failure has.  A number text that is no JSON number is a
/// sufficient cause by itself (finding F17c); the other two shapes are the repaired defects
/// F17a/F17b and would be regressions (a rendering that differs from the model is reported
/// separately as a broken tie in any case).
fn failure_signature(t: &Traits, numsok: bool) -> &'static str {
  if !numsok {
    SIG_NUM
  } else if t.other_kind {
    SIG_OTHER
  } else if t.needs_escape {
    SIG_RAW
  } else {
    SIG_DECODE
  }
}

fn field<'a>(s: &'a Sexp, tag: &str) -> Option<&'a Sexp> {
  s.as_list()?.iter().find_map(|p| {
    let l = p.as_list()?;
    if l.first()?.as_atom()? == tag {
      l.get(1)
    } else {
      None
    }
  })
}

fn chars_of(s: &Sexp) -> Option<String> {
  let l = s.as_list()?;
  if l.first()?.as_atom()? != "s" {
    return None;
  }
  l[1..].iter().map(|a| a.as_atom()?.parse::<u32>().ok().and_then(char::from_u32)).collect()
}

// ------------------------------------------------------------------------------------------
// family `jsonify`
// ------------------------------------------------------------------------------------------

fn run_jsonify(cfg: &Cfg, rep: &mut Report, model: &mut Model, rng: &mut Rng) {
  let n = if cfg.tier == "thorough" { 60_000 } else { 3_000 };
  let mut cases: Vec<(G, Value)> = vec![];
  // corpus: the witnesses of the former findings F17a/F17b and of F17c
  let corpus = vec![
    G::Str("a\"b\\c\n".into()),
    G::Ctx(vec![("a\"b".into(), G::Null)]),
    G::Expr("date(\"2021-01-01\")".into()),
    G::Num("-0.00000015".into()),
    G::Ctx(vec![("k 1".into(), G::Str("é/🙏".into())), ("n".into(), G::List(vec![G::Num("-1.5".into()), G::Null]))]),
    G::List(vec![]),
    G::Ctx(vec![]),
    // c19fix: numbers that are not finite (C02 F7 seen through jsonify)
    G::Expr("10**6000 * 10**6000".into()),
    G::Expr("-(10**6000 * 10**6000)".into()),
    G::Expr("10**6000 * 10**6000 - 10**6000 * 10**6000".into()),
    G::Expr("[1, 10**6000 * 10**6000, {a: -(10**6000 * 10**6000)}]".into()),
  ];
  for g in corpus {
    if let Some(v) = to_value(&g) {
      cases.push((g, v));
    }
  }
  // every number text with zeros next to the decimal point, alone and inside a list and a context
  for t in zero_pattern_numbers() {
    for g in [G::Num(t.clone()), G::List(vec![G::Num(t.clone()), G::Num("1".into())]), G::Ctx(vec![("n".into(), G::Num(t.clone()))])] {
      if let Some(v) = to_value(&g) {
        cases.push((g, v));
      }
    }
  }
  for i in 0..n {
    let escapes = i % 3 != 0;
    let temporals = i % 5 == 0;
    let depth = 1 + rng.below(4) as u32;
    let g = gen_value(rng, depth, escapes, temporals);
    match guarded(|| to_value(&g)) {
      Ok(Some(v)) => cases.push((g, v)),
      _ => rep.hit("jsonify:value-not-constructible"),
    }
  }
  let reqs: Vec<String> = cases.iter().map(|(_, v)| format!("(c18 jsonify {})", to_jv(v))).collect();
  let answers = model.ask_batch(&reqs);
  for (((g, v), req), ans) in cases.iter().zip(reqs.iter()).zip(answers.iter()) {
    let mut t = Traits::default();
    traits(v, &mut t);
    rep.case(req, t.strings || t.compound);
    rep.hit(if t.other_kind {
      "jsonify:other-kind"
    } else if t.needs_escape {
      "jsonify:needs-escape"
    } else if t.compound {
      "jsonify:compound-plain"
    } else {
      "jsonify:scalar-plain"
    });
    let input = format!("{} ;; value = {}", req, to_feel(g));
    let a = match Sexp::parse(ans) {
      Some(a) if field(&a, "text").is_some() => a,
      _ => {
        rep.disagree(Kind::ImplVsModel, "jsonify", "driver-error", &input, "", ans);
        continue;
      }
    };
    let m_text = field(&a, "text").and_then(chars_of).unwrap_or_default();
    let m_decoded = field(&a, "decoded").map(|s| s.to_string()).unwrap_or_default();
    let m_expected = field(&a, "expected").map(|s| s.to_string()).unwrap_or_default();
    let numsok = field(&a, "numsok").and_then(|s| s.as_atom()) == Some("true");
    // the implementation
    let text = match guarded(|| v.jsonify()) {
      Ok(t) => t,
      Err(p) => {
        rep.disagree(Kind::ImplVsSpec, "jsonify", "jsonify panics", &input, &format!("panic: {}", p), &m_text);
        continue;
      }
    };
    // tie: the model writes the same characters
    if text != m_text {
      rep.disagree(Kind::ImplVsModel, "jsonify", "jsonify text differs from the model", &input, &text, &m_text);
    }
    // the property on the implementation alone
    let expected = to_expected(v);
    let parsed = strict_parse(&text);
    let serde_ok = serde_accepts(&text);
    let good = matches!(&parsed, Ok(j) if *j == expected);
    if !good {
      let sig = failure_signature(&t, numsok);
      let got = match &parsed {
        Ok(j) => format!("{} decodes to {}", text, j.sexp()),
        Err(e) => format!("{} is not a JSON document: {}", text, e),
      };
      rep.disagree(Kind::ImplVsSpec, "jsonify_decodes", sig, &input, &got, &format!("a JSON document decoding to {}", expected.sexp()));
    }
    // the numbers of the document are the numbers written into the value (compared as numbers, against the literal
    // texts the value was made of: independent of every printer of the implementation)
    if let Ok(j) = &parsed {
      if !same_numbers(g, j) {
        rep.disagree(Kind::ImplVsSpec, "jsonify_decodes", "jsonify writes a number that is not the number of the value", &input, &text, &format!("the numbers of {}", to_feel(g)));
      }
    }
    // the oracles agree: Lean decoder, strict parser, serde_json (moderate numbers only)
    let parsed_s = match &parsed {
      Ok(j) => j.sexp().to_string(),
      Err(_) => "none".to_string(),
    };
    if text == m_text && parsed_s != m_decoded {
      rep.disagree(Kind::ImplVsModel, "decode", "Lean decoder and strict parser differ", &input, &parsed_s, &m_decoded);
    }
    if serde_ok.is_some() && Some(parsed.is_ok()) != serde_ok {
      rep.disagree(Kind::ImplVsModel, "decode", "strict parser and serde_json differ on acceptance", &input, &format!("{}", parsed.is_ok()), &format!("{:?}", serde_ok));
    }
    if expected.sexp().to_string() != m_expected {
      rep.disagree(Kind::ImplVsModel, "jsonify", "toJson differs from the harness's reading of the value", &input, &expected.sexp().to_string(), &m_expected);
    }
    // the theorem, observed: with JSON number texts the model's rendering decodes to the value
    if numsok && m_decoded != m_expected {
      rep.disagree(Kind::ImplVsModel, "jsonify", "model violates jsonify_decodes", &input, &m_decoded, &m_expected);
    }
    if t.needs_escape || t.other_kind || t.compound {
      rep.sample(json!({"family": "jsonify", "value": to_feel(g), "implementation": text, "model": m_text, "decodes_to_value": good}));
    }
  }
}

// ------------------------------------------------------------------------------------------
// family `decode`: the specification decoder against two independent parsers
// ------------------------------------------------------------------------------------------

fn gen_json_text(rng: &mut Rng, depth: u32) -> String {
  let ws = |rng: &mut Rng| -> &'static str { *rng.pick(&["", "", "", " ", "\n", "\t ", "\r\n"]) };
  let k = if depth == 0 { rng.below(5) } else { rng.below(8) };
  match k {
    0 => (*rng.pick(&["null", "true", "false"])).to_string(),
    1 | 2 => {
      let int = *rng.pick(&["0", "1", "-0", "-7", "12", "120", "98765432109876543210"]);
      let frac = *rng.pick(&["", "", ".0", ".5", ".125", ".000001"]);
      let exp = *rng.pick(&["", "", "", "e0", "E+2", "e-3", "e12"]);
      format!("{}{}{}", int, frac, exp)
    }
    3 | 4 => {
      let n = rng.below(8);
      let mut s = String::from("\"");
      for _ in 0..n {
        match rng.below(8) {
          0 => s.push_str(*rng.pick(&["\\\"", "\\\\", "\\/", "\\b", "\\f", "\\n", "\\r", "\\t"])),
          1 => s.push_str(*rng.pick(&["\\u0041", "\\u00e9", "\\u20AC", "\\ud83d\\ude4f", "\\uFFFF", "\\u0000"])),
          _ => s.push(*rng.pick(PLAIN_CHARS)),
        }
      }
      s.push('"');
      s
    }
    5 | 6 => {
      let n = rng.below(4);
      let items: Vec<String> = (0..n).map(|_| format!("{}{}{}", ws(rng), gen_json_text(rng, depth - 1), ws(rng))).collect();
      format!("[{}{}]", if n == 0 { ws(rng) } else { "" }, items.join(","))
    }
    _ => {
      let n = rng.below(4);
      let items: Vec<String> = (0..n)
        .map(|i| format!("{}\"k{}{}\"{}:{}{}{}", ws(rng), i, *rng.pick(&["", " x", "\\n", "é"]), ws(rng), ws(rng), gen_json_text(rng, depth - 1), ws(rng)))
        .collect();
      format!("{{{}{}}}", if n == 0 { ws(rng) } else { "" }, items.join(","))
    }
  }
}

fn damage(rng: &mut Rng, text: &str) -> String {
  let mut cs: Vec<char> = text.chars().collect();
  let junk: &[char] = &['"', '\\', ',', ':', '[', ']', '{', '}', '0', '1', '.', 'e', '-', '+', 'u', 'n', 't', ' ', '\n', '\u{1}', 'd', '8', 'D', 'f'];
  for _ in 0..1 + rng.below(2) {
    if cs.is_empty() {
      cs.push(*rng.pick(junk));
      continue;
    }
    let i = rng.below(cs.len() as u64) as usize;
    match rng.below(3) {
      0 => {
        cs.remove(i);
      }
      1 => cs.insert(i, *rng.pick(junk)),
      _ => cs[i] = *rng.pick(junk),
    }
  }
  cs.into_iter().collect()
}

fn run_decode(cfg: &Cfg, rep: &mut Report, model: &mut Model, rng: &mut Rng) {
  let n = if cfg.tier == "thorough" { 40_000 } else { 3_000 };
  let mut texts: Vec<String> = vec![
    "[[[[[[[[[[[[[[[[[[[[]]]]]]]]]]]]]]]]]]]]".into(),
    "[1,[2,[3,[4,[5,[6,{\"a\":{\"b\":{\"c\":[]}}}]]]]]]".into(),
    "01".into(),
    "[1,]".into(),
    "{\"a\":1,}".into(),
    "\"\\ud800\"".into(),
    "\"\\udc00\\ud800\"".into(),
    "-".into(),
    "1.".into(),
    ".5".into(),
    "1e".into(),
    "\"\t\"".into(),
    " \r\n\t1 \r\n\t".into(),
    "".into(),
    "nul".into(),
    "truefalse".into(),
    "{\"a\":1 \"b\":2}".into(),
    "[1 2]".into(),
    "\"\\x\"".into(),
    "{1:2}".into(),
  ];
  for _ in 0..n {
    let depth = rng.below(5) as u32;
    let t = gen_json_text(rng, depth);
    if rng.chance(1, 2) {
      texts.push(damage(rng, &t));
    } else {
      texts.push(t);
    }
  }
  let reqs: Vec<String> = texts.iter().map(|t| format!("(c18 decode {})", Sexp::str(t))).collect();
  let answers = model.ask_batch(&reqs);
  for ((t, req), ans) in texts.iter().zip(reqs.iter()).zip(answers.iter()) {
    let parsed = strict_parse(t);
    let serde_ok = serde_accepts(t);
    rep.case(req, t.len() > 4);
    rep.hit(if parsed.is_ok() { "decode:accepted" } else { "decode:rejected" });
    let parsed_s = match &parsed {
      Ok(j) => j.sexp().to_string(),
      Err(_) => "none".to_string(),
    };
    if &parsed_s != ans {
      rep.disagree(Kind::ImplVsModel, "decode", "Lean decoder and strict parser differ", &format!("{} ;; text = {:?}", req, t), &parsed_s, ans);
    }
    if serde_ok.is_some() && Some(parsed.is_ok()) != serde_ok {
      rep.disagree(Kind::ImplVsModel, "decode", "strict parser and serde_json differ on acceptance", &format!("{} ;; text = {:?}", req, t), &format!("{}", parsed.is_ok()), &format!("{:?}", serde_ok));
    }
  }
}

// ------------------------------------------------------------------------------------------
// family `http`
// ------------------------------------------------------------------------------------------

/// Invocables of every building alphabet model: decision `D` (a literal) and business
/// knowledge model `E` with one untyped parameter `x`, which it returns (echo).
const SERVICE_BODY: &str = r##"
  <decision name="D" id="_d"><variable typeRef="number" name="D"/>
    <literalExpression><text>1 + 1</text></literalExpression></decision>
  <businessKnowledgeModel name="E" id="_e"><variable name="E"/>
    <encapsulatedLogic><formalParameter name="x"/><literalExpression><text>x</text></literalExpression></encapsulatedLogic>
  </businessKnowledgeModel>"##;

#[derive(Debug, Clone)]
enum Content {
  Missing,
  Bad64,
  BadUtf8,
  BadXml(u8),
  /// valid Base64 of valid UTF-8 text that the model parser rejects (not XML, malformed XML, XML that is no DMN model)
  Rejected(String),
  Model(MDef),
}

#[derive(Debug, Clone)]
enum Rq {
  Add(Content),
  Replace(Content),
  Remove(Option<String>, Option<String>),
  Clear,
  Deploy,
  /// `sent`: the value an echo request writes into its body (known outright, whatever the service's reader does)
  Eval { model: String, invocable: String, body: String, sent: Option<G> },
  /// `POST /tck/evaluate` inside a history (the handler model's `Request.tck`)
  Tck { model: Option<String>, invocable: Option<String>, input: TckIn },
  /// rejected before a handler runs (actix-web): not part of the handler model
  Framework(u8),
}

/// The `input` member of a TCK request.
#[derive(Debug, Clone)]
enum TckIn {
  /// no `input` member
  Missing,
  /// an input serde reads and the conversion of dto.rs rejects (index into `TCK_BAD`)
  Bad(usize),
  /// one input node `x` carrying the DTO of the typed value
  Ok(T),
}

/// Values of the one input node `x` that the derived `Deserialize` reads and `WrappedValue::try_from` rejects.
const TCK_BAD: &[&str] = &[
  r#"{"simple":{"type":"xsd:unknown","text":"1","isNil":false},"components":null,"list":null}"#,
  r#"{"simple":{"type":"xsd:decimal","text":"12abc","isNil":false},"components":null,"list":null}"#,
  r#"{"simple":{"type":"xsd:date","text":"2021-13-45","isNil":false}}"#,
  r#"{"simple":null,"components":null,"list":null}"#,
  r#"{}"#,
  r#"{"components":[{"value":{"simple":{"type":"xsd:string","text":"a","isNil":false}},"isNil":false}]}"#,
  r#"{"components":[{"name":"a","isNil":false}]}"#,
  r#"{"simple":{"type":null,"text":"a","isNil":false}}"#,
  r#"{"simple":{"type":"xsd:string","isNil":false}}"#,
  r#"{"list":{"items":[{"simple":{"type":"xsd:string","text":"a","isNil":false}},{"extra":1}],"isNil":false}}"#,
];

struct Wire {
  method: &'static str,
  path: String,
  content_type: Option<&'static str>,
  body: Vec<u8>,
}

struct Service {
  bad_body: Option<&'static str>,
  evaluator: Option<Arc<ModelEvaluator>>,
}

impl Service {
  fn xml(&self, d: &MDef) -> String {
    let body = if d.builds { SERVICE_BODY } else { self.bad_body.unwrap_or(SERVICE_BODY) };
    model_xml(&xml_attr(&d.ns), &xml_attr(&d.name), body)
  }
  fn content_json(&self, c: &Content) -> String {
    match c {
      Content::Missing => "{}".to_string(),
      Content::Bad64 => json!({"content": "%%% this is not Base64 %%%"}).to_string(),
      Content::BadUtf8 => json!({"content": base64::encode([0x3cu8, 0xff, 0xfe, 0x41, 0xc3])}).to_string(),
      Content::BadXml(k) => {
        let text = match k % 4 {
          0 => "<definitions",
          1 => "this is not XML",
          2 => "<a><b></a>",
          _ => "<?xml version=\"1.0\"?><root/>",
        };
        json!({"content": base64::encode(text)}).to_string()
      }
      Content::Rejected(text) => json!({"content": base64::encode(text)}).to_string(),
      Content::Model(d) => json!({"content": base64::encode(self.xml(d))}).to_string(),
    }
  }
  fn wire(&self, r: &Rq) -> Wire {
    let js = Some("application/json");
    match r {
      Rq::Add(c) => Wire { method: "POST", path: "/definitions/add".into(), content_type: js, body: self.content_json(c).into_bytes() },
      Rq::Replace(c) => Wire { method: "POST", path: "/definitions/replace".into(), content_type: js, body: self.content_json(c).into_bytes() },
      Rq::Remove(ns, name) => {
        let mut m = serde_json::Map::new();
        if let Some(ns) = ns {
          m.insert("namespace".into(), json!(ns));
        }
        if let Some(n) = name {
          m.insert("name".into(), json!(n));
        }
        Wire { method: "POST", path: "/definitions/remove".into(), content_type: js, body: serde_json::Value::Object(m).to_string().into_bytes() }
      }
      Rq::Clear => Wire { method: "POST", path: "/definitions/clear".into(), content_type: js, body: vec![] },
      Rq::Deploy => Wire { method: "POST", path: "/definitions/deploy".into(), content_type: js, body: vec![] },
      Rq::Eval { model, invocable, body, .. } => Wire { method: "POST", path: format!("/evaluate/{}/{}", path_segment(model), path_segment(invocable)), content_type: Some("text/plain"), body: body.clone().into_bytes() },
      Rq::Tck { model, invocable, input } => {
        let mut ms: Vec<String> = vec![];
        if let Some(m) = model {
          ms.push(format!("\"model\":{}", json!(m)));
        }
        if let Some(i) = invocable {
          ms.push(format!("\"invocable\":{}", json!(i)));
        }
        match input {
          TckIn::Missing => {}
          TckIn::Bad(k) => ms.push(format!("\"input\":[{{\"name\":\"x\",\"value\":{}}}]", TCK_BAD[k % TCK_BAD.len()])),
          TckIn::Ok(t) => ms.push(format!("\"input\":[{{\"name\":\"x\",\"value\":{}}}]", tv_dto(t))),
        }
        Wire { method: "POST", path: "/tck/evaluate".into(), content_type: js, body: format!("{{{}}}", ms.join(",")).into_bytes() }
      }
      Rq::Framework(k) => match k % 10 {
        0 => Wire { method: "POST", path: "/definitions/add".into(), content_type: js, body: b"{\"content\": ".to_vec() },
        1 => Wire { method: "POST", path: "/definitions/remove".into(), content_type: js, body: b"[1, 2".to_vec() },
        2 => Wire { method: "POST", path: "/definitions/add".into(), content_type: js, body: vec![0x7b, 0x22, 0xff, 0xfe, 0x22, 0x3a, 0x31, 0x7d] },
        3 => Wire { method: "POST", path: "/definitions/replace".into(), content_type: Some("text/plain"), body: b"{\"content\": \"QQ==\"}".to_vec() },
        4 => Wire { method: "POST", path: "/no/such/endpoint".into(), content_type: js, body: b"{}".to_vec() },
        5 => Wire { method: "GET", path: "/definitions/add".into(), content_type: None, body: vec![] },
        // TCK bodies the derived Deserialize rejects: a simple value without isNil, an input that is no list, a value that is a string
        7 => Wire { method: "POST", path: "/tck/evaluate".into(), content_type: js, body: br#"{"model":"n1","invocable":"E","input":[{"name":"x","value":{"simple":{"type":"xsd:string","text":"a"}}}]}"#.to_vec() },
        8 => Wire { method: "POST", path: "/tck/evaluate".into(), content_type: js, body: br#"{"model":"n1","invocable":"E","input":{"name":"x"}}"#.to_vec() },
        9 => Wire { method: "POST", path: "/tck/evaluate".into(), content_type: js, body: br#"{"model":"n1","invocable":"E","input":[{"name":"x","value":"a"}]}"#.to_vec() },
        _ => Wire { method: "POST", path: "/definitions/add".into(), content_type: js, body: b"{\"content\": 5}".to_vec() },
      },
    }
  }
  /// What a deployed (building) model answers: computed in-process on the same model text.
  fn oracle(&self, invocable: &str, body: &str) -> Result<Value, String> {
    let ctx = dmntk_feel_evaluator::evaluate_context(&Scope::default(), body).map_err(|e| e.to_string())?;
    match &self.evaluator {
      Some(me) => Ok(me.evaluate_invocable(invocable, &ctx)),
      None => Err("no evaluator".into()),
    }
  }
}

fn content_sexp(c: &Content) -> String {
  match c {
    Content::Missing => "none".into(),
    Content::Bad64 => "b64".into(),
    Content::BadUtf8 => "utf8".into(),
    Content::BadXml(_) => "xml".into(),
    Content::Rejected(_) => "xml".into(),
    Content::Model(d) => format!("(m {} {} {})", name_sexp(&d.ns), name_sexp(&d.name), d.builds),
  }
}

fn opt_atom(x: &Option<String>) -> String {
  x.as_ref().map(|s| name_sexp(s)).unwrap_or_else(|| "none".to_string())
}

/// A namespace / model name on the line to the driver: an atom when it is one, `(s …)` otherwise (white space, …).
pub(crate) fn name_sexp(s: &str) -> String {
  if !s.is_empty() && s != "none" && s.chars().all(|c| c.is_ascii_alphanumeric() || matches!(c, '_' | '-' | '.' | ':' | '/')) {
    s.to_string()
  } else {
    Sexp::str(s).to_string()
  }
}

/// The text of an XML attribute value that denotes `s` verbatim (literal tabs and line breaks would be normalised to
/// spaces by the XML reader: they are written as character references).
pub(crate) fn xml_attr(s: &str) -> String {
  let mut out = String::new();
  for c in s.chars() {
    match c {
      '&' => out.push_str("&amp;"),
      '<' => out.push_str("&lt;"),
      '"' => out.push_str("&quot;"),
      '\t' => out.push_str("&#9;"),
      '\n' => out.push_str("&#10;"),
      '\r' => out.push_str("&#13;"),
      c => out.push(c),
    }
  }
  out
}

/// A path segment of a request line that denotes `s` (everything but unreserved ASCII is percent-encoded).
pub(crate) fn path_segment(s: &str) -> String {
  let mut out = String::new();
  for b in s.bytes() {
    if b.is_ascii_alphanumeric() || matches!(b, b'_' | b'-' | b'.') {
      out.push(b as char);
    } else {
      out.push_str(&format!("%{:02X}", b));
    }
  }
  out
}

/// A text of at least 260 bytes that the model parser rejects, in which byte offset `off` (≥ 1) is the `j`-th byte
/// (1 ≤ j < width) of a `width`-byte character. `kind`: 0 not XML, 1 malformed XML, 2 well-formed XML that is no DMN
/// model, 3 a `definitions` element without its mandatory name.
fn rejected_text(kind: usize, off: usize, width: usize, j: usize) -> String {
  let ch = match width {
    2 => 'ż',
    3 => '€',
    _ => '🙏',
  };
  let j = j.clamp(1, width - 1).min(off);
  let start = off - j;
  let (head, tail): (&str, &str) = match kind % 4 {
    1 if start >= 3 => ("<a>", "</b>"),
    2 if start >= 7 => ("<model>", "</model>"),
    3 if start >= 24 => ("<definitions namespace=\"", "\"/>"),
    _ => ("", ""),
  };
  let filler = "this is not a decision model ";
  let mut t = String::from(head);
  let mut k = 0;
  while t.len() < start {
    t.push(filler.as_bytes()[k % filler.len()] as char);
    k += 1;
  }
  t.push(ch);
  while t.len() + tail.len() < 260 {
    t.push(filler.as_bytes()[k % filler.len()] as char);
    k += 1;
  }
  t.push_str(tail);
  debug_assert!(!t.is_char_boundary(off));
  t
}

fn run_http(cfg: &Cfg, rep: &mut Report, model: &mut Model, rng: &mut Rng) {
  let alpha = Alphabet::find();
  let has_bad = alpha.bad_body.is_some();
  let evaluator = guarded(|| dmntk_model::parse(&model_xml("nsx", "nx", SERVICE_BODY)).ok().and_then(|d| ModelEvaluator::new(&d).ok())).ok().flatten();
  if evaluator.is_none() {
    let why = match dmntk_model::parse(&model_xml("nsx", "nx", SERVICE_BODY)) {
      Ok(d) => ModelEvaluator::new(&d).err().map(|e| e.to_string()).unwrap_or_default(),
      Err(e) => e.to_string(),
    };
    rep.disagree(Kind::ImplVsModel, "http", "the service alphabet model does not build", "SERVICE_BODY", &why, "a model evaluator");
    return;
  }
  let svc = Service { bad_body: alpha.bad_body, evaluator };
  let mut server = match Server::start() {
    Ok(s) => s,
    Err(e) => {
      rep.disagree(Kind::ImplVsSpec, "http", "the service does not start on a loopback port", "start_server(127.0.0.1, free port)", &e, "a listening service");
      return;
    }
  };
  let d = |ns: &str, n: &str, b: bool| MDef { ns: ns.into(), name: n.into(), builds: b || !has_bad };
  let models = vec![d("ns1", "n1", true), d("ns1", "n2", true), d("ns2", "n1", true), d("ns1", "n1", false), d("ns3", "n3", true), d("ns4", "n4", false), d("ns2", "n2", true)];
  let names = ["n1", "n2", "n3", "n4", "n9"];
  let nss = ["ns1", "ns2", "ns3", "ns9"];
  let thorough = cfg.tier == "thorough";
  let n_seq = if thorough { 20_000 } else { 600 };

  // GET /system/info once: data envelope
  match http(server.port, "GET", "/system/info", None, b"") {
    Ok(a) => {
      let text = String::from_utf8_lossy(&a.body).to_string();
      let ok = a.status == 200 && strict_parse(&text).map(|j| j.get("data").and_then(|d| d.get("name")).is_some()).unwrap_or(false);
      if !ok {
        rep.disagree(Kind::ImplVsSpec, "http", "GET /system/info does not answer a data envelope", "GET /system/info", &text, "{\"data\":{\"name\":...}}");
      }
    }
    Err(e) => rep.disagree(Kind::ImplVsSpec, "http", "the service stopped answering", "GET /system/info", &e, "an answer"),
  }

  let mut sequences: Vec<Vec<Rq>> = vec![];
  // corpus: the witnesses of the former findings F18 (replace of a stored model) and F17a/F17b (echo)
  let echo_of = |model: &str, g: &G| Rq::Eval { model: model.to_string(), invocable: "E".into(), body: format!("{{x: {}}}", to_feel(g)), sent: Some(g.clone()) };
  let echo = |g: &G| echo_of("n1", g);
  sequences.push(vec![
    Rq::Add(Content::Model(models[0].clone())),
    Rq::Deploy,
    Rq::Eval { model: "n1".into(), invocable: "D".into(), body: "{}".into(), sent: None },
    Rq::Replace(Content::Model(models[0].clone())),
    Rq::Deploy,
    Rq::Eval { model: "n1".into(), invocable: "D".into(), body: "{}".into(), sent: None },
  ]);
  sequences.push(vec![
    Rq::Add(Content::Model(models[0].clone())),
    Rq::Deploy,
    echo(&G::Str("Hello John Doe".into())),
    echo(&G::Str("a\"b\\c\n".into())),
    echo(&G::Ctx(vec![("a\"b".into(), G::Num("1".into()))])),
    echo(&G::Expr("date(\"2021-01-01\")".into())),
    echo(&G::List(vec![G::Num("1".into()), G::Str("é🙏".into()), G::Null, G::Bool(true)])),
    Rq::Eval { model: "n1".into(), invocable: "E".into(), body: "{x: ".into(), sent: None },
    Rq::Eval { model: "n1".into(), invocable: "Z".into(), body: "{}".into(), sent: None },
    Rq::Eval { model: "n9".into(), invocable: "D".into(), body: "{}".into(), sent: None },
  ]);
  {
    // TCK requests between the definitions operations of a directed history
    let tck = |m: &str, i: &str, t: T| Rq::Tck { model: Some(m.into()), invocable: Some(i.into()), input: TckIn::Ok(t) };
    let nested = T::Ctx(vec![("a".into(), T::List(vec![T::Scalar("number", "1.50".into()), T::Str("q\"\\\n".into()), T::Null])), ("b".into(), T::Ctx(vec![]))]);
    sequences.push(vec![
      tck("n1", "E", T::Str("before anything".into())),
      Rq::Add(Content::Model(models[0].clone())),
      tck("n1", "E", T::Null),
      Rq::Deploy,
      tck("n1", "E", nested.clone()),
      tck("n1", "D", T::Null),
      tck("n1", "Z", T::Bool(true)),
      Rq::Tck { model: None, invocable: Some("E".into()), input: TckIn::Missing },
      Rq::Tck { model: Some("n1".into()), invocable: None, input: TckIn::Missing },
      Rq::Tck { model: Some("n1".into()), invocable: Some("E".into()), input: TckIn::Missing },
      Rq::Tck { model: Some("n1".into()), invocable: Some("E".into()), input: TckIn::Bad(0) },
      Rq::Tck { model: Some("n9".into()), invocable: Some("E".into()), input: TckIn::Bad(3) },
      Rq::Replace(Content::Model(models[0].clone())),
      tck("n1", "E", nested.clone()),
      Rq::Deploy,
      tck("n1", "E", nested.clone()),
      Rq::Remove(Some("ns1".into()), Some("n1".into())),
      tck("n1", "E", nested),
    ]);
    for k in 0..TCK_BAD.len() {
      sequences.push(vec![
        Rq::Add(Content::Model(models[0].clone())),
        Rq::Deploy,
        Rq::Tck { model: Some("n1".into()), invocable: Some("E".into()), input: TckIn::Bad(k) },
        Rq::Tck { model: Some("n1".into()), invocable: Some("E".into()), input: TckIn::Ok(T::Str("after a rejected input".into())) },
      ]);
    }
  }
  for _ in 0..n_seq {
    let len = 1 + rng.below(12) as usize;
    let mut seq = vec![];
    // a rough picture of the workspace, used only to aim evaluations at deployed models
    let mut stored: Vec<String> = vec![];
    let mut deployed = false;
    // most sequences start by storing and deploying something, so that evaluations matter
    if rng.chance(2, 3) {
      let m = rng.pick(&models).clone();
      stored.push(m.name.clone());
      seq.push(Rq::Add(Content::Model(m)));
      if rng.chance(2, 3) {
        seq.push(Rq::Deploy);
        deployed = true;
      }
    }
    for _ in 0..len {
      let content = |rng: &mut Rng, stored: &mut Vec<String>, deployed: &mut bool| match rng.below(12) {
        0 => Content::Missing,
        1 => Content::Bad64,
        2 => Content::BadUtf8,
        3 => Content::BadXml(rng.below(4) as u8),
        _ => {
          let m = rng.pick(&models).clone();
          stored.push(m.name.clone());
          *deployed = false;
          Content::Model(m)
        }
      };
      let target = |rng: &mut Rng, stored: &Vec<String>, deployed: bool| -> String {
        if deployed && !stored.is_empty() && rng.chance(4, 5) {
          rng.pick(stored).clone()
        } else {
          rng.pick(&names).to_string()
        }
      };
      let r = match rng.below(25) {
        0..=2 => Rq::Add(content(rng, &mut stored, &mut deployed)),
        3..=5 => Rq::Replace(content(rng, &mut stored, &mut deployed)),
        6 | 7 => {
          let ns = if rng.chance(1, 8) { None } else { Some(rng.pick(&nss).to_string()) };
          let name = if rng.chance(1, 8) { None } else { Some(rng.pick(&names).to_string()) };
          if ns.is_some() && name.is_some() {
            deployed = false;
          }
          Rq::Remove(ns, name)
        }
        8 => {
          stored.clear();
          deployed = false;
          Rq::Clear
        }
        9..=11 => {
          deployed = true;
          Rq::Deploy
        }
        12 | 13 => Rq::Eval { model: target(rng, &stored, deployed), invocable: (*rng.pick(&["D", "D", "Z"])).to_string(), body: "{}".into(), sent: None },
        14..=17 => {
          let (depth, e, t) = (rng.below(3) as u32, rng.chance(1, 2), rng.chance(1, 4));
          let g = gen_value(rng, depth, e, t);
          Rq::Eval { model: target(rng, &stored, deployed), invocable: "E".into(), body: format!("{{x: {}}}", to_feel(&g)), sent: Some(g.clone()) }
        }
        18 => Rq::Eval { model: target(rng, &stored, deployed), invocable: "E".into(), body: (*rng.pick(&["{x: ", "x", "{x: 1", "\u{1}", "{\"x\": [1, 2}"])).to_string(), sent: None },
        19 => Rq::Framework(rng.below(10) as u8),
        // TCK requests inside the history: aimed as the evaluations are, with the parameter and conversion failures
        _ => {
          let model = if rng.chance(1, 10) { None } else { Some(target(rng, &stored, deployed)) };
          let invocable = if rng.chance(1, 10) { None } else { Some((*rng.pick(&["E", "E", "E", "D", "Z"])).to_string()) };
          let input = match rng.below(8) {
            0 => TckIn::Missing,
            1 => TckIn::Bad(rng.below(TCK_BAD.len() as u64) as usize),
            _ => {
              let depth = rng.below(3) as u32;
              TckIn::Ok(gen_tv(rng, depth))
            }
          };
          Rq::Tck { model, invocable, input }
        }
      };
      seq.push(r);
    }
    sequences.push(seq);
  }
  let n_random_sequences = sequences.len();

  // ---- rejected contents with multi-byte characters at every byte offset: a content the model parser rejects is
  // answered in the errors member whatever its bytes are, and the ordinary requests that follow are answered as the
  // handler specification says (the workspace is unchanged and goes on serving)
  {
    let mut contents: Vec<String> = vec![];
    for off in 1..=200usize {
      for width in [2usize, 3, 4] {
        let j = 1 + (off / 4 + width) % (width - 1);
        contents.push(rejected_text(off + width, off, width, j));
      }
    }
    // nothing but multi-byte characters, after 0..width-1 bytes of ASCII: whatever offset is looked at, it is inside
    // a character for all but one of the shifts
    for (ch, width) in [("ż", 2usize), ("€", 3), ("🙏", 4)] {
      for shift in 0..width {
        contents.push(format!("{}{}", "x".repeat(shift), ch.repeat(3000 / width)));
        contents.push(format!("<model>{}{}</model>", "x".repeat(shift), ch.repeat(900 / width)));
      }
    }
    rep.extra.insert("rejected_contents_with_multibyte_characters".into(), json!(contents.len()));
    let (a, b) = (models[0].clone(), models[4].clone());
    for (gi, group) in contents.chunks(8).enumerate() {
      let mut seq = vec![Rq::Add(Content::Model(a.clone())), Rq::Deploy, Rq::Eval { model: a.name.clone(), invocable: "D".into(), body: "{}".into(), sent: None }];
      for (ci, text) in group.iter().enumerate() {
        let c = Content::Rejected(text.clone());
        seq.push(if (gi + ci) % 2 == 0 { Rq::Add(c) } else { Rq::Replace(c) });
        // an ordinary request after every rejected one
        seq.push(match (gi + ci) % 8 {
          0 | 4 => Rq::Eval { model: a.name.clone(), invocable: "D".into(), body: "{}".into(), sent: None },
          1 => Rq::Add(Content::Model(b.clone())),
          2 => Rq::Deploy,
          3 => echo_of(&a.name, &G::Str(format!("after rejected content #{} ż€🙏", gi * 8 + ci))),
          5 => Rq::Remove(Some(b.ns.clone()), Some(b.name.clone())),
          6 => Rq::Replace(Content::Model(a.clone())),
          _ => Rq::Deploy,
        });
      }
      seq.push(Rq::Deploy);
      seq.push(Rq::Eval { model: a.name.clone(), invocable: "D".into(), body: "{}".into(), sent: None });
      sequences.push(seq);
    }
  }
  let n_rejected_sequences = sequences.len() - n_random_sequences;

  // ---- namespaces and names with white space (leading, trailing, doubled inside, tabs, no-break and ideographic
  // spaces): the handlers pass them to the workspace verbatim, the workspace compares them verbatim — add reports what
  // it stored, remove with exactly that pair removes, a pair that differs in white space only is another pair
  {
    let ws_names = ["n1", " n1", "n1 ", " n1 ", "n  1", "n 1", "n\t1", "\tn1", "n1\u{a0}", "\u{3000}n1", "n1\t"];
    let ws_nss = ["ns1", " ns1", "ns1 ", " ns1 ", "ns  1", "ns 1", "ns1\t", "\u{a0}ns1", "ns1\u{2003}"];
    let n_ws = if thorough { 4_000 } else { 260 };
    for si in 0..n_ws {
      let mut seq = vec![];
      let mut added: Vec<(String, String)> = vec![];
      let len = 3 + rng.below(10) as usize;
      // a few pairs per sequence, so that they meet again
      let pool: Vec<(String, String)> = (0..(2 + rng.below(3))).map(|_| (rng.pick(&ws_nss).to_string(), rng.pick(&ws_names).to_string())).collect();
      // every second sequence: at least one name or namespace with white space at an end is stored first
      if si % 2 == 0 {
        let ns = rng.pick(&[" ns1", "ns1 ", " ns1 ", "ns1\t", "\u{a0}ns1"]).to_string();
        let name = rng.pick(&[" n1", "n1 ", " n1 ", "\tn1", "n1\u{a0}"]).to_string();
        added.push((ns.clone(), name.clone()));
        seq.push(Rq::Add(Content::Model(MDef { ns, name, builds: true })));
        if rng.chance(1, 2) {
          seq.push(Rq::Deploy);
        }
      }
      for _ in 0..len {
        let pair = |rng: &mut Rng, added: &Vec<(String, String)>| -> (String, String) {
          if !added.is_empty() && rng.chance(1, 2) {
            rng.pick(added).clone()
          } else {
            rng.pick(&pool).clone()
          }
        };
        let r = match rng.below(14) {
          0..=2 => {
            let (ns, name) = pair(rng, &added);
            added.push((ns.clone(), name.clone()));
            Rq::Add(Content::Model(MDef { ns, name, builds: true }))
          }
          3 => {
            let (ns, name) = pair(rng, &added);
            added.push((ns.clone(), name.clone()));
            Rq::Replace(Content::Model(MDef { ns, name, builds: true }))
          }
          4..=6 => {
            // exactly a pair that add reported, or one that differs from it in white space / in one key
            let (ns, name) = pair(rng, &added);
            match rng.below(6) {
              0 => Rq::Remove(Some(ns.trim().to_string()), Some(name.trim().to_string())),
              1 => Rq::Remove(Some(ns), Some("n9".into())),
              2 => Rq::Remove(Some("ns9".into()), Some(name)),
              _ => Rq::Remove(Some(ns), Some(name)),
            }
          }
          7 | 8 => Rq::Deploy,
          9 => Rq::Clear,
          10..=12 => {
            let (_, name) = pair(rng, &added);
            let name = if rng.chance(1, 4) { name.trim().to_string() } else { name };
            Rq::Eval { model: name, invocable: "D".into(), body: "{}".into(), sent: None }
          }
          _ => {
            let (_, name) = pair(rng, &added);
            echo_of(&name, &G::Str(name.clone()))
          }
        };
        seq.push(r);
      }
      sequences.push(seq);
    }
  }
  // ---- repeated requests: the same evaluation requests, byte for byte, after every operation of a history — the
  // answer to a request depends on the workspace as it is when the request arrives (stored models *and* deployment
  // state), never on an answer given before. Directed: every single operation between two identical rounds of
  // evaluations, from every kind of state; random histories with the fixed round after every operation.
  let n_before_repeat = sequences.len();
  {
    let (a, b, bad) = (models[0].clone(), models[4].clone(), models[3].clone());
    let round = |seq: &mut Vec<Rq>| {
      seq.push(Rq::Eval { model: a.name.clone(), invocable: "D".into(), body: "{}".into(), sent: None });
      seq.push(echo_of(&a.name, &G::Num("10.0".into())));
      seq.push(Rq::Eval { model: b.name.clone(), invocable: "D".into(), body: "{}".into(), sent: None });
      seq.push(Rq::Eval { model: "n9".into(), invocable: "D".into(), body: "{}".into(), sent: None });
    };
    let ops: Vec<Rq> = vec![
      Rq::Add(Content::Model(a.clone())),
      Rq::Add(Content::Model(b.clone())),
      Rq::Replace(Content::Model(a.clone())),
      Rq::Replace(Content::Model(bad.clone())),
      Rq::Replace(Content::Model(b.clone())),
      Rq::Remove(Some(a.ns.clone()), Some(a.name.clone())),
      Rq::Remove(Some(b.ns.clone()), Some(b.name.clone())),
      Rq::Clear,
      Rq::Deploy,
      Rq::Add(Content::BadXml(0)),
      Rq::Replace(Content::Missing),
    ];
    let pres: Vec<Vec<Rq>> = vec![
      vec![],
      vec![Rq::Add(Content::Model(a.clone()))],
      vec![Rq::Add(Content::Model(a.clone())), Rq::Deploy],
      vec![Rq::Add(Content::Model(a.clone())), Rq::Add(Content::Model(b.clone())), Rq::Deploy],
      vec![Rq::Add(Content::Model(bad.clone())), Rq::Add(Content::Model(b.clone())), Rq::Deploy],
    ];
    for pre in &pres {
      for op in &ops {
        let mut seq = pre.clone();
        round(&mut seq);
        seq.push(op.clone());
        round(&mut seq);
        seq.push(Rq::Deploy);
        round(&mut seq);
        sequences.push(seq);
      }
    }
    let n_rep = if thorough { 2_000 } else { 60 };
    for _ in 0..n_rep {
      let mut seq = vec![];
      for _ in 0..(2 + rng.below(6)) {
        seq.push(if rng.chance(1, 3) { Rq::Deploy } else { rng.pick(&ops).clone() });
        round(&mut seq);
      }
      sequences.push(seq);
    }
    // every number text with zeros next to the decimal point, echoed by the running service
    let mut seq = vec![Rq::Add(Content::Model(a.clone())), Rq::Deploy];
    for (i, t) in zero_pattern_numbers().into_iter().enumerate() {
      seq.push(echo_of(&a.name, &if i % 3 == 0 { G::List(vec![G::Num(t)]) } else { G::Num(t) }));
      if seq.len() >= 40 {
        sequences.push(std::mem::replace(&mut seq, vec![Rq::Add(Content::Model(a.clone())), Rq::Deploy]));
      }
    }
    sequences.push(seq);
  }
  rep.extra.insert("http_sequences_repeated_requests".into(), json!(sequences.len() - n_before_repeat));
  rep.extra.insert("http_sequences_rejected_content".into(), json!(n_rejected_sequences));
  rep.extra.insert("http_sequences_white_space_names".into(), json!(n_before_repeat - n_random_sequences - n_rejected_sequences));

  // model requests
  let mut reqs = vec![];
  let mut oracles: Vec<Vec<Option<Result<Value, String>>>> = vec![];
  for seq in &sequences {
    let mut parts = vec![];
    let mut os = vec![];
    for r in seq {
      let mut o = None;
      match r {
        Rq::Add(c) => parts.push(format!("(add {})", content_sexp(c))),
        Rq::Replace(c) => parts.push(format!("(replace {})", content_sexp(c))),
        Rq::Remove(ns, n) => parts.push(format!("(remove {} {})", opt_atom(ns), opt_atom(n))),
        Rq::Clear => parts.push("clear".into()),
        Rq::Deploy => parts.push("deploy".into()),
        Rq::Eval { model, invocable, body, sent } => {
          let v = match guarded(|| svc.oracle(invocable, body)) {
            Ok(v) => v,
            Err(p) => Err(format!("panic: {}", p)),
          };
          // an echo request: what the body denotes is the value that was written into it
          if let (Some(g), Ok(got)) = (sent, &v) {
            if let Some(want) = to_value(g) {
              rep.hit("evaluate:echo-input-checked");
              if to_jv(got).to_string() != to_jv(&want).to_string() {
                rep.disagree(
                  Kind::ImplVsSpec,
                  "evaluate_input",
                  "the body of an evaluate request does not denote the value written into it",
                  &format!("POST /evaluate/{}/{} {}", model, invocable, body.chars().take(300).collect::<String>()),
                  &to_jv(got).to_string(),
                  &to_jv(&want).to_string(),
                );
              }
            }
          }
          match &v {
            Ok(v) => parts.push(format!("(eval {} {} ok {})", name_sexp(model), invocable, to_jv(v))),
            Err(_) => parts.push(format!("(eval {} {} bad (null))", name_sexp(model), invocable)),
          }
          o = Some(v);
        }
        Rq::Tck { model, invocable, input } => {
          let head = format!("tck {} {}", opt_atom(model), opt_atom(invocable));
          match input {
            TckIn::Missing => parts.push(format!("({} none)", head)),
            TckIn::Bad(_) => parts.push(format!("({} bad)", head)),
            TckIn::Ok(t) => {
              // the readers' answers (in-process) for the texts of the value and the name of the node
              let mut rows = vec![];
              reader_rows(&T::Ctx(vec![("x".into(), t.clone())]), &mut rows);
              // what the deployed invocable answers, written out: E echoes x, D is the literal 1 + 1, an unknown name is null
              let ans = match invocable.as_deref() {
                Some("E") => "echo".to_string(),
                Some("D") => tv_sexp(&T::Scalar("number", "2".into())).to_string(),
                _ => tv_sexp(&T::Null).to_string(),
              };
              parts.push(format!("({} (ok {} {}) {})", head, tv_sexp(t), ans, rows.join(" ")));
            }
          }
        }
        Rq::Framework(_) => {}
      }
      os.push(o);
    }
    reqs.push(format!("(c18 serve {})", parts.join(" ")));
    oracles.push(os);
  }
  let answers = model.ask_batch(&reqs);

  let mut n_requests = 0u64;
  let mut unanswered = 0u32;
  'seqs: for (((seq, req), ans), os) in sequences.iter().zip(reqs.iter()).zip(answers.iter()).zip(oracles.iter()) {
    let parsed = Sexp::parse(ans);
    let m_list: Vec<Sexp> = parsed.as_ref().and_then(|a| field_list(a, "model")).unwrap_or_default();
    let n_model = seq.iter().filter(|r| !matches!(r, Rq::Framework(_))).count();
    if m_list.len() != n_model {
      rep.disagree(Kind::ImplVsModel, "http", "driver-error", req, "", ans);
      continue;
    }
    // every sequence starts from an empty workspace
    if let Err(e) = http(server.port, "POST", "/definitions/clear", Some("application/json"), b"") {
      rep.disagree(Kind::ImplVsSpec, "http", "the service stopped answering", "POST /definitions/clear", &e, "an answer");
      break 'seqs;
    }
    let mut k = 0usize;
    let mut spec_live = true;
    let mut stored = false;
    let mut nontrivial = false;
    let mut transcript: Vec<String> = vec![];
    for (r, o) in seq.iter().zip(os.iter()) {
      let w = svc.wire(r);
      n_requests += 1;
      let note = match r {
        Rq::Add(Content::Rejected(t)) | Rq::Replace(Content::Rejected(t)) => format!(" (the content is the Base64 text of {:?})", t.chars().take(300).collect::<String>()),
        _ => String::new(),
      };
      let shown = format!("{} {} {}{}", w.method, w.path, String::from_utf8_lossy(&w.body).chars().take(200).collect::<String>(), note);
      let input = format!("{} ;; request #{} = {} ;; after: {}", req, transcript.len() + 1, shown, transcript.join(" | "));
      let a = match http(server.port, w.method, &w.path, w.content_type, &w.body) {
        Ok(a) => a,
        Err(e) => {
          let alive = server.alive();
          if alive && unanswered < 12 && !matches!(r, Rq::Framework(_)) {
            // the service runs on but this request got no response: the requests that follow are still looked at
            unanswered += 1;
            rep.disagree(Kind::ImplVsSpec, "http", "a request is not answered: the connection ends without a response", &input, &e, "a JSON answer");
            transcript.push(format!("{} {} (no answer)", w.method, w.path));
            k += 1;
            continue;
          }
          rep.disagree(Kind::ImplVsSpec, "http", "the service stopped answering", &input, &format!("{} (process alive: {})", e, alive), "an answer");
          break 'seqs;
        }
      };
      transcript.push(format!("{} {}", w.method, w.path));
      let text = match String::from_utf8(a.body.clone()) {
        Ok(t) => t,
        Err(_) => {
          rep.disagree(Kind::ImplVsSpec, "response_wellformed", "response body is not UTF-8", &input, &format!("{:?}", a.body), "UTF-8 JSON text");
          continue;
        }
      };
      let body_json = strict_parse(&text);
      let serde_ok = serde_accepts(&text);
      if serde_ok.is_some() && Some(body_json.is_ok()) != serde_ok {
        rep.disagree(Kind::ImplVsModel, "decode", "strict parser and serde_json differ on acceptance", &input, &format!("{}", body_json.is_ok()), &format!("{:?}", serde_ok));
      }
      if !a.content_type.to_ascii_lowercase().starts_with("application/json") {
        rep.disagree(Kind::ImplVsSpec, "response_wellformed", "response content type is not application/json", &input, &a.content_type, "application/json");
      }
      if let Rq::Framework(kind) = r {
        rep.hit(&format!("http:framework-rejected:{}", kind % 10));
        // answered by actix-web's error handler (400) or by the default service (`not_found`
        // answers 200): in both cases a well-formed `errors` envelope
        let shape = matches!(&body_json, Ok(j) if matches!(j.get("errors"), Some(J::Arr(xs)) if xs.len() == 1 && matches!(xs[0].get("details"), Some(J::Str(_)))));
        if !shape || !(a.status == 200 || (400..500).contains(&a.status)) {
          rep.disagree(
            Kind::ImplVsSpec,
            "response_wellformed",
            &format!("request rejected before a handler runs (kind {}) is not answered with an errors envelope", kind % 10),
            &input,
            &format!("{} {}", a.status, text),
            "{\"errors\":[{\"details\":...}]}",
          );
        }
        continue;
      }
      let m = &m_list[k];
      k += 1;
      let ml = m.as_list().unwrap_or(&[]);
      let m_kind = ml.first().map(|x| x.to_string()).unwrap_or_default();
      let m_body = ml.get(1).and_then(chars_of).unwrap_or_default();
      let m_wf = ml.get(3).and_then(|x| x.as_atom()) == Some("true");
      // the JSON document the response stands for (`Resp.json`): the specification of the body
      let s_json = ml.get(2).map(|x| x.to_string()).unwrap_or_default();
      rep.hit(&format!("http:{}:{}", endpoint(r), m_kind));
      if m_kind == "added" {
        stored = true;
      } else if stored && !matches!(r, Rq::Clear) {
        nontrivial = true;
      }
      if a.status != 200 {
        rep.disagree(Kind::ImplVsSpec, "http", "handler answer does not have status 200", &input, &format!("{} {}", a.status, text), "200");
      }
      // -------- well-formedness (the property, on the implementation alone)
      let mut t = Traits::default();
      let mut numsok = true;
      if let Some(Ok(v)) = o {
        traits(v, &mut t);
        numsok = number_texts_ok(v);
      }
      if let Err(e) = &body_json {
        let sig = if m_kind == "value" { failure_signature(&t, numsok) } else { "response body is not well-formed JSON" };
        rep.disagree(Kind::ImplVsSpec, "response_wellformed", sig, &input, &format!("{} is not a JSON document: {}", text, e), "a JSON document");
      }
      // -------- tie: the handler model answers the same body
      let free_text = m_kind == "(error parse)" || m_kind == "(error input)";
      if free_text {
        let shape = matches!(&body_json, Ok(j) if matches!(j.get("errors"), Some(J::Arr(xs)) if xs.len() == 1 && matches!(xs[0].get("details"), Some(J::Str(_)))));
        if !shape {
          rep.disagree(Kind::ImplVsModel, "http", &format!("answer differs from the handler model ({})", endpoint(r)), &input, &text, &format!("{} with the parser's message", m_kind));
        }
      } else if text != m_body {
        rep.disagree(Kind::ImplVsModel, "http", &format!("answer differs from the handler model ({})", endpoint(r)), &input, &text, &m_body);
      } else if body_json.is_ok() != m_wf {
        rep.disagree(Kind::ImplVsModel, "decode", "Lean decoder and strict parser differ", &input, &format!("{}", body_json.is_ok()), &format!("{}", m_wf));
      }
      // -------- the property: the body is the JSON document the response stands for
      if spec_live {
        if let Ok(j) = &body_json {
          let same = if free_text { j.get("errors").is_some() } else { j.sexp().to_string() == s_json };
          if !same {
            let sig = if matches!(r, Rq::Replace(_)) {
              SIG_REPLACE.to_string()
            } else if m_kind == "value" {
              failure_signature(&t, numsok).to_string()
            } else {
              format!("answer differs from the specification ({})", endpoint(r))
            };
            rep.disagree(Kind::ImplVsSpec, "handlers_refine_workspace", &sig, &input, &text, &s_json);
            // the states have diverged: the rest of this sequence is compared with the model only
            spec_live = false;
          }
        }
      }
      if rep.samples.len() < 12 && (m_kind == "value" || matches!(r, Rq::Replace(_))) && rng.chance(1, 20) {
        rep.sample(json!({"family": "http", "request": shown, "status": a.status, "body": text, "model_body": m_body}));
      }
    }
    rep.case(req, nontrivial);
    rep.hit(&format!("http:sequence-length:{}", if seq.len() > 8 { ">8".to_string() } else { seq.len().to_string() }));
  }
  run_tck(cfg, rep, model, rng, &svc, &mut server, &models[0]);
  {
    let mut r = rng.fork();
    run_wire(cfg, rep, model, &mut r, &mut server, &models[0]);
  }
  run_limits(cfg, rep, &svc, &mut server, &models[0]);
  run_parallel_clients(cfg, rep, rng, &svc, &mut server, &models);
  run_unreadable_bodies(rep, &svc, &mut server, &models[0]); // c19fix: unreadable bodies, non-finite results
  {
    let mut r = rng.fork();
    run_printed_forms(cfg, rep, &mut r, &svc, &mut server, &models[0]);
  }
  {
    let mut r = rng.fork();
    run_spellings(cfg, rep, &mut r, &svc, &mut server, &models[0]); // m18: JSON and FEEL spellings of the same body
  }
  run_endpoints(rep, &svc, &mut server, &models);
  // the service survived everything
  if !server.alive() {
    rep.disagree(Kind::ImplVsSpec, "http", "the service process ended during the run", "(whole run)", "process ended", "a running service");
  }
  rep.extra.insert("http_requests".into(), json!(n_requests));
  rep.extra.insert("http_sequences".into(), json!(sequences.len()));
}


// ------------------------------------------------------------------------------------------
// family `wire`: ValueDto documents as a client may write them (members absent, null, of the wrong kind, of
// other names, written twice, in any order; `simple` next to `list`) through POST /tck/evaluate, against the model
// of the derived Deserialize (`Dto.readValue`), of the conversion (`fromDto`) and of the answer (`tckBody`)
// ------------------------------------------------------------------------------------------

const SIG_WIRE_ERRORS: &str = "wire: a TCK value document that cannot be read or converted is not answered with a JSON document that has the errors member";
const SIG_WIRE_MODEL: &str = "wire: the answer to a TCK value document differs from the model of the DTO layer";

fn j_text(j: &J, out: &mut String) {
  match j {
    J::Null => out.push_str("null"),
    J::Bool(b) => out.push_str(if *b { "true" } else { "false" }),
    J::Num(t) => out.push_str(t),
    J::Str(t) => out.push_str(&serde_json::to_string(t).unwrap_or_default()),
    J::Arr(xs) => {
      out.push('[');
      for (i, x) in xs.iter().enumerate() {
        if i > 0 {
          out.push(',');
        }
        j_text(x, out);
      }
      out.push(']');
    }
    J::Obj(ms) => {
      out.push('{');
      for (i, (k, v)) in ms.iter().enumerate() {
        if i > 0 {
          out.push(',');
        }
        out.push_str(&serde_json::to_string(k).unwrap_or_default());
        out.push(':');
        j_text(v, out);
      }
      out.push('}');
    }
  }
}

fn shuffle<X>(rng: &mut Rng, xs: &mut Vec<X>) {
  for i in (1..xs.len()).rev() {
    let j = rng.below(i as u64 + 1) as usize;
    xs.swap(i, j);
  }
}

/// something of the wrong JSON kind (or, rarely, of any kind) for a field
fn gen_junk(rng: &mut Rng) -> J {
  match rng.below(6) {
    0 => J::Num("1".into()),
    1 => J::Str("a".into()),
    2 => J::Bool(false),
    3 => J::Arr(vec![]),
    4 => J::Obj(vec![]),
    _ => J::Arr(vec![J::Null, J::Num("2".into())]),
  }
}

fn gen_wire_simple(rng: &mut Rng) -> J {
  if rng.chance(1, 6) {
    return J::Null;
  }
  if rng.chance(1, 25) {
    return gen_junk(rng);
  }
  let mut ms: Vec<(String, J)> = vec![];
  let (typ, text): (&str, String) = match rng.below(12) {
    0 => ("xsd:string", gen_string(rng, true)),
    1 => ("xsd:boolean", (*rng.pick(&["true", "false", "1", "0", "TRUE", ""])).to_string()),
    2 => ("xsd:decimal", gen_number(rng)),
    3 => ("xsd:integer", (*rng.pick(&["7", "007", "-3", "1e2", "x"])).to_string()),
    4 => ("xsd:double", (*rng.pick(&["1.5", "1E3", "NaN", ".5"])).to_string()),
    5 => ("xsd:date", (*rng.pick(&["2021-02-03", "2021-13-45", "999999999-01-01"])).to_string()),
    6 => ("xsd:time", (*rng.pick(&["10:11:12", "10:11:12Z", "25:00:00"])).to_string()),
    7 => ("xsd:dateTime", (*rng.pick(&["2021-02-03T10:11:12", "2021-02-03T10:11:12+02:00", "2021-02-03"])).to_string()),
    8 => ("xsd:duration", (*rng.pick(&["P1Y2M", "P1DT2H", "-PT0.5S", "P", "PT36H"])).to_string()),
    9 => ("xsd:unknown", "1".to_string()),
    10 => ("", "".to_string()),
    _ => ("xsd:string", "plain".to_string()),
  };
  if !rng.chance(1, 12) {
    ms.push(("type".into(), if rng.chance(1, 15) { J::Null } else if rng.chance(1, 40) { gen_junk(rng) } else { J::Str(typ.into()) }));
  }
  if !rng.chance(1, 12) {
    ms.push(("text".into(), if rng.chance(1, 15) { J::Null } else if rng.chance(1, 40) { gen_junk(rng) } else { J::Str(text) }));
  }
  if !rng.chance(1, 12) {
    ms.push(("isNil".into(), if rng.chance(1, 30) { gen_junk(rng) } else { J::Bool(rng.chance(1, 6)) }));
  }
  if rng.chance(1, 10) {
    ms.push(("extra".into(), gen_junk(rng)));
  }
  if rng.chance(1, 25) && !ms.is_empty() {
    let d = rng.pick(&ms).clone();
    ms.push(d);
  }
  shuffle(rng, &mut ms);
  J::Obj(ms)
}

fn gen_wire_value(rng: &mut Rng, depth: u32) -> J {
  if rng.chance(1, 40) {
    return gen_junk(rng);
  }
  let mut ms: Vec<(String, J)> = vec![];
  // which attribute carries the value; the others are absent, null or (rarely) present too
  let main = if depth == 0 { 0 } else { rng.below(3) };
  let other = |rng: &mut Rng, ms: &mut Vec<(String, J)>, name: &str, depth: u32| match rng.below(10) {
    0..=3 => {}
    4..=7 => ms.push((name.to_string(), J::Null)),
    8 => ms.push((name.to_string(), match name {
      "simple" => gen_wire_simple(rng),
      "components" => gen_wire_components(rng, depth.saturating_sub(1)),
      _ => gen_wire_list(rng, depth.saturating_sub(1)),
    })),
    _ => ms.push((name.to_string(), gen_junk(rng))),
  };
  match main {
    0 => {
      ms.push(("simple".into(), gen_wire_simple(rng)));
      other(rng, &mut ms, "components", depth);
      other(rng, &mut ms, "list", depth);
    }
    1 => {
      other(rng, &mut ms, "simple", depth);
      ms.push(("components".into(), gen_wire_components(rng, depth - 1)));
      other(rng, &mut ms, "list", depth);
    }
    _ => {
      other(rng, &mut ms, "simple", depth);
      other(rng, &mut ms, "components", depth);
      ms.push(("list".into(), gen_wire_list(rng, depth - 1)));
    }
  }
  if rng.chance(1, 10) {
    ms.push(((*rng.pick(&["extra", "Simple", "value", "items"])).to_string(), gen_junk(rng)));
  }
  if rng.chance(1, 30) {
    let d = rng.pick(&ms).clone();
    ms.push(d);
  }
  if rng.chance(1, 2) {
    shuffle(rng, &mut ms);
  }
  J::Obj(ms)
}

fn gen_wire_components(rng: &mut Rng, depth: u32) -> J {
  if rng.chance(1, 25) {
    return gen_junk(rng);
  }
  let mut cs = vec![];
  for _ in 0..rng.below(4) {
    let mut ms: Vec<(String, J)> = vec![];
    if !rng.chance(1, 12) {
      ms.push(("name".into(), if rng.chance(1, 15) { J::Null } else { J::Str((*rng.pick(&["a", "b", "a", "Full Name", "k1", "x y z", "", "+"])).to_string()) }));
    }
    if !rng.chance(1, 10) {
      ms.push(("value".into(), if rng.chance(1, 8) { J::Null } else { gen_wire_value(rng, depth) }));
    }
    if !rng.chance(1, 15) {
      ms.push(("isNil".into(), J::Bool(rng.chance(1, 6))));
    }
    if rng.chance(1, 12) {
      ms.push(("extra".into(), gen_junk(rng)));
    }
    if rng.chance(1, 3) {
      shuffle(rng, &mut ms);
    }
    cs.push(J::Obj(ms));
  }
  J::Arr(cs)
}

fn gen_wire_list(rng: &mut Rng, depth: u32) -> J {
  if rng.chance(1, 25) {
    return gen_junk(rng);
  }
  let mut ms: Vec<(String, J)> = vec![];
  if !rng.chance(1, 15) {
    let items = if rng.chance(1, 25) { gen_junk(rng) } else { J::Arr((0..rng.below(4)).map(|_| gen_wire_value(rng, depth)).collect()) };
    ms.push(("items".into(), items));
  }
  if !rng.chance(1, 15) {
    ms.push(("isNil".into(), J::Bool(rng.chance(1, 8))));
  }
  if rng.chance(1, 12) {
    ms.push(("extra".into(), gen_junk(rng)));
  }
  if rng.chance(1, 3) {
    shuffle(rng, &mut ms);
  }
  J::Obj(ms)
}

/// The readers' answers for every (type, text) pair and every component name of the document.
fn wire_rows(j: &J, rows: &mut Vec<String>) {
  match j {
    J::Arr(xs) => xs.iter().for_each(|x| wire_rows(x, rows)),
    J::Obj(ms) => {
      let str_of = |key: &str| ms.iter().find(|(k, _)| k == key).and_then(|(_, v)| if let J::Str(t) = v { Some(t.clone()) } else { None });
      if let (Some(typ), Some(text)) = (str_of("type"), str_of("text")) {
        let kind: Option<&'static str> = match typ.as_str() {
          "xsd:integer" | "xsd:decimal" | "xsd:double" => Some("number"),
          "xsd:date" => Some("date"),
          "xsd:time" => Some("time"),
          "xsd:dateTime" => Some("dateTime"),
          "xsd:duration" => Some("dtDuration"),
          _ => None,
        };
        if let Some(kind) = kind {
          reader_rows(&T::Scalar(kind, text), rows);
        }
      }
      if let Some(name) = str_of("name") {
        reader_rows(&T::Ctx(vec![(name, T::Null)]), rows);
      }
      ms.iter().for_each(|(_, v)| wire_rows(v, rows));
    }
    _ => {}
  }
}

fn run_wire(cfg: &Cfg, rep: &mut Report, model: &mut Model, rng: &mut Rng, server: &mut Server, m: &MDef) {
  let n = if cfg.tier == "thorough" { 20_000 } else { 700 };
  let js = Some("application/json");
  let mut docs: Vec<J> = vec![];
  for _ in 0..n {
    let depth = rng.below(3) as u32;
    docs.push(gen_wire_value(rng, depth));
  }
  let reqs: Vec<String> = docs
    .iter()
    .map(|d| {
      let mut rows = vec![];
      reader_rows(&T::Ctx(vec![("x".into(), T::Null)]), &mut rows);
      wire_rows(d, &mut rows);
      format!("(c18 wire {} {})", d.sexp(), rows.join(" "))
    })
    .collect();
  let answers = model.ask_batch(&reqs);
  for ((d, req), ans) in docs.iter().zip(reqs.iter()).zip(answers.iter()) {
    let mut doc = String::new();
    j_text(d, &mut doc);
    let body = format!("{{\"model\":{},\"invocable\":\"E\",\"input\":[{{\"name\":\"x\",\"value\":{}}}]}}", json!(m.name), doc);
    let input = format!("POST /tck/evaluate {} ;; {}", body.chars().take(600).collect::<String>(), req.chars().take(300).collect::<String>());
    let a = match http(server.port, "POST", "/tck/evaluate", js, body.as_bytes()) {
      Ok(a) => a,
      Err(e) => {
        rep.disagree(Kind::ImplVsSpec, "http", "the service stopped answering", &input, &e, "an answer");
        return;
      }
    };
    let text = String::from_utf8_lossy(&a.body).to_string();
    let parsed = match strict_parse(&text) {
      Ok(j) => j,
      Err(e) => {
        rep.disagree(Kind::ImplVsSpec, "response_wellformed", "response body is not well-formed JSON", &input, &format!("{}: {}", text, e), "a JSON document");
        continue;
      }
    };
    let am = Sexp::parse(ans);
    let read = am.as_ref().and_then(|x| field(x, "read")).map(|x| x.to_string());
    let back = am.as_ref().and_then(|x| field(x, "back")).map(|x| x.to_string()).unwrap_or_default();
    let m_answer = am.as_ref().and_then(|x| field(x, "answer")).map(|x| x.to_string()).unwrap_or_default();
    let m_body = am.as_ref().and_then(|x| field(x, "body")).and_then(chars_of);
    let read = match read {
      Some(r) => r,
      None => {
        rep.disagree(Kind::ImplVsModel, "wire", "driver-error", &input, &text, ans);
        continue;
      }
    };
    let class = if read != "ok" { "unreadable" } else if back == "none" { "rejected" } else { "value" };
    rep.case(req, class != "unreadable");
    rep.hit(&format!("wire:{}:{}", class, if read == "ok" { "ok".to_string() } else { read.split(' ').next().unwrap_or("").trim_matches('(').to_string() }));
    let errors_shape = matches!(parsed.get("errors"), Some(J::Arr(xs)) if xs.len() == 1 && matches!(xs[0].get("details"), Some(J::Str(_))));
    match class {
      "unreadable" | "rejected" => {
        // failures are reported in the errors member (the property); which of the two layers rejects shows in the status
        if !errors_shape {
          let kind = if parsed.get("data").is_some() { Kind::ImplVsModel } else { Kind::ImplVsSpec };
          let sig = if parsed.get("data").is_some() { SIG_WIRE_MODEL } else { SIG_WIRE_ERRORS };
          rep.disagree(kind, "wire", sig, &input, &format!("{} {}", a.status, text), &format!("an errors answer (model: read {} back {})", read, back));
        } else if (class == "unreadable") != (a.status == 400) {
          rep.disagree(Kind::ImplVsModel, "wire", "wire: the layer that rejects a TCK value document (Deserialize: 400, conversion: 200) differs from the model", &input, &format!("{} {}", a.status, text), &format!("read {} back {}", read, back));
        }
      }
      _ => {
        // both sides as documents with members sorted by name and the entries of every context sorted by name
        let canon = |text: &str| strict_parse(text).ok().map(|j| components_by_name(&sorted_j(&j)).sexp().to_string());
        let same = m_body.as_deref().and_then(canon).is_some() && m_body.as_deref().and_then(canon) == canon(&text) && !m_answer.is_empty();
        if !same {
          rep.disagree(Kind::ImplVsModel, "wire", SIG_WIRE_MODEL, &input, &text, &m_answer);
        } else if !text.contains("\"components\":[{") && m_body.as_deref() != Some(text.as_str()) {
          // without a component in it (the order of the entries of a context is the map's) the body is the model's, byte for byte
          rep.disagree(Kind::ImplVsModel, "wire", "wire: the text of the answer differs from serde_json's writer as modelled", &input, &text, &m_body.unwrap_or_default());
        }
      }
    }
    if rep.samples.len() < 16 && rng.chance(1, 100) {
      rep.sample(json!({"family": "wire", "sent": doc, "answer": text, "model": class}));
    }
  }
}

// ------------------------------------------------------------------------------------------
// family `tck`: typed values in TCK format through POST /tck/evaluate and back
// ------------------------------------------------------------------------------------------

#[derive(Debug, Clone)]
enum T {
  Null,
  Bool(bool),
  Str(String),
  /// kind, text as sent
  Scalar(&'static str, String),
  List(Vec<T>),
  Ctx(Vec<(String, T)>),
}

fn gen_tv(rng: &mut Rng, depth: u32) -> T {
  let k = if depth == 0 { rng.below(7) } else { rng.below(10) };
  match k {
    0 => T::Null,
    1 => T::Bool(rng.chance(1, 2)),
    2 | 3 => T::Str(gen_string(rng, true)),
    4 => {
      // plain decimals; small negative magnitudes are left to the jsonify family (finding F17c)
      let mut t = gen_number(rng);
      if t.starts_with("-0.0000") {
        t = t[1..].to_string();
      }
      T::Scalar("number", t)
    }
    5 => match rng.below(5) {
      0 => T::Scalar("date", format!("{}-{:02}-{:02}", 1000 + rng.below(2000), 1 + rng.below(12), 1 + rng.below(28))),
      1 => T::Scalar("time", format!("{:02}:{:02}:{:02}", rng.below(24), rng.below(60), rng.below(60))),
      2 => T::Scalar("dateTime", format!("{}-{:02}-{:02}T{:02}:{:02}:{:02}", 1000 + rng.below(2000), 1 + rng.below(12), 1 + rng.below(28), rng.below(24), rng.below(60), rng.below(60))),
      3 => T::Scalar("ymDuration", (*rng.pick(&["P1Y", "P1Y2M", "P11M", "-P3Y", "P0M", "P14M"])).to_string()),
      _ => T::Scalar("dtDuration", (*rng.pick(&["P1D", "PT2H", "P1DT2H3M4S", "-PT5M", "PT0S", "PT36H"])).to_string()),
    },
    6 => T::Scalar("number", (*rng.pick(&["1.50", "007", "1e3", "+5", "0.10", "100"])).to_string()),
    7 | 8 => T::List((0..rng.below(4)).map(|_| gen_tv(rng, depth - 1)).collect()),
    _ => {
      let mut es: Vec<(String, T)> = vec![];
      for _ in 0..rng.below(4) {
        let key = (*rng.pick(&["a", "b", "key", "Full Name", "k1", "k2", "x y z", "n"])).to_string();
        if es.iter().any(|(k, _)| *k == key) {
          continue;
        }
        es.push((key, gen_tv(rng, depth - 1)));
      }
      es.sort_by(|a, b| a.0.cmp(&b.0));
      T::Ctx(es)
    }
  }
}

fn xsd_of(kind: &str) -> &'static str {
  match kind {
    "number" => "xsd:decimal",
    "date" => "xsd:date",
    "time" => "xsd:time",
    "dateTime" => "xsd:dateTime",
    _ => "xsd:duration",
  }
}

/// `ValueDto` JSON as the TCK runner sends it (and as serde writes it back).
fn tv_dto(t: &T) -> serde_json::Value {
  match t {
    T::Null => json!({"simple": {"type": null, "text": null, "isNil": true}, "components": null, "list": null}),
    T::Bool(b) => json!({"simple": {"type": "xsd:boolean", "text": b.to_string(), "isNil": false}, "components": null, "list": null}),
    T::Str(s) => json!({"simple": {"type": "xsd:string", "text": s, "isNil": false}, "components": null, "list": null}),
    T::Scalar(k, text) => json!({"simple": {"type": xsd_of(k), "text": text, "isNil": false}, "components": null, "list": null}),
    T::List(xs) => json!({"simple": null, "components": null, "list": {"items": xs.iter().map(tv_dto).collect::<Vec<_>>(), "isNil": false}}),
    T::Ctx(es) => json!({"simple": null, "list": null, "components": es.iter().map(|(k, v)| json!({"name": k, "value": tv_dto(v), "isNil": false})).collect::<Vec<_>>()}),
  }
}

fn tv_sexp(t: &T) -> Sexp {
  match t {
    T::Null => Sexp::list(vec![Sexp::atom("null")]),
    T::Bool(b) => Sexp::tagged("b", vec![Sexp::bool(*b)]),
    T::Str(s) => Sexp::tagged("str", vec![Sexp::str(s)]),
    T::Scalar(k, text) => Sexp::tagged("k", vec![Sexp::atom(*k), Sexp::str(text)]),
    T::List(xs) => Sexp::tagged("l", xs.iter().map(tv_sexp).collect()),
    T::Ctx(es) => Sexp::tagged("c", es.iter().map(|(k, v)| Sexp::list(vec![Sexp::str(k), tv_sexp(v)])).collect()),
  }
}

/// What the text readers of the implementation answer (in-process), as rows for the driver.
fn reader_rows(t: &T, rows: &mut Vec<String>) {
  fn push_row(rows: &mut Vec<String>, kind: &str, text: &str, canon: Option<String>) {
    let c = match canon {
      Some(c) => Sexp::str(&c).to_string(),
      None => "none".to_string(),
    };
    let r = format!("({} {} {})", kind, Sexp::str(text), c);
    if !rows.contains(&r) {
      rows.push(r);
    }
  }
  match t {
    T::Scalar(kind, text) => {
      let show = |r: dmntk_common::Result<Value>| r.ok().map(|v| v.to_string());
      match *kind {
        "number" => push_row(rows, "number", text, guarded(|| show(Value::try_from_xsd_decimal(text))).ok().flatten()),
        "date" => push_row(rows, "date", text, guarded(|| show(Value::try_from_xsd_date(text))).ok().flatten()),
        "time" => push_row(rows, "time", text, guarded(|| show(Value::try_from_xsd_time(text))).ok().flatten()),
        "dateTime" => push_row(rows, "dateTime", text, guarded(|| show(Value::try_from_xsd_date_time(text))).ok().flatten()),
        _ => {
          // `try_from_xsd_duration` tries years-and-months first
          let v = guarded(|| Value::try_from_xsd_duration(text).ok()).ok().flatten();
          let (ym, dt) = match &v {
            Some(Value::YearsAndMonthsDuration(_)) => (v.as_ref().map(|x| x.to_string()), None),
            Some(Value::DaysAndTimeDuration(_)) => (None, v.as_ref().map(|x| x.to_string())),
            _ => (None, None),
          };
          push_row(rows, "ymDuration", text, ym);
          push_row(rows, "dtDuration", text, dt);
        }
      }
    }
    T::List(xs) => xs.iter().for_each(|x| reader_rows(x, rows)),
    T::Ctx(es) => {
      for (k, v) in es {
        push_row(rows, "name", k, guarded(|| dmntk_feel_parser::parse_longest_name(k).ok().map(|n| n.to_string())).ok().flatten());
        reader_rows(v, rows);
      }
    }
    _ => {}
  }
}

fn serde_to_j(v: &serde_json::Value) -> J {
  match v {
    serde_json::Value::Null => J::Null,
    serde_json::Value::Bool(b) => J::Bool(*b),
    serde_json::Value::Number(n) => J::Num(n.to_string()),
    serde_json::Value::String(s) => J::Str(s.clone()),
    serde_json::Value::Array(xs) => J::Arr(xs.iter().map(serde_to_j).collect()),
    serde_json::Value::Object(m) => J::Obj(m.iter().map(|(k, v)| (k.clone(), serde_to_j(v))).collect()),
  }
}

/// Object members sorted by name (serde_json's map and the service's structs order differently).
fn sorted_j(j: &J) -> J {
  match j {
    J::Arr(xs) => J::Arr(xs.iter().map(sorted_j).collect()),
    J::Obj(ms) => {
      let mut ms: Vec<(String, J)> = ms.iter().map(|(k, v)| (k.clone(), sorted_j(v))).collect();
      ms.sort_by(|a, b| a.0.cmp(&b.0));
      J::Obj(ms)
    }
    other => other.clone(),
  }
}

fn run_tck(cfg: &Cfg, rep: &mut Report, model: &mut Model, rng: &mut Rng, svc: &Service, server: &mut Server, m: &MDef) {
  let n = if cfg.tier == "thorough" { 20_000 } else { 600 };
  let js = Some("application/json");
  let setup = [
    ("/definitions/clear", String::new()),
    ("/definitions/add", svc.content_json(&Content::Model(m.clone()))),
    ("/definitions/deploy", String::new()),
  ];
  for (path, body) in setup {
    if let Err(e) = http(server.port, "POST", path, js, body.as_bytes()) {
      rep.disagree(Kind::ImplVsSpec, "http", "the service stopped answering", path, &e, "an answer");
      return;
    }
  }
  let mut cases = vec![];
  for _ in 0..n {
    let depth = rng.below(3) as u32;
    cases.push(gen_tv(rng, depth));
  }
  let reqs: Vec<String> = cases
    .iter()
    .map(|t| {
      let mut rows = vec![];
      reader_rows(t, &mut rows);
      format!("(c18 dto {} {})", tv_sexp(t), rows.join(" "))
    })
    .collect();
  let answers = model.ask_batch(&reqs);
  // requests the handler (or the JSON extractor) must reject: an `errors` answer each, and the
  // valid requests in between are answered as usual
  let simple = |typ: &str, text: &str| json!({"simple": {"type": typ, "text": text, "isNil": false}, "components": null, "list": null});
  let rejected: Vec<(&str, serde_json::Value)> = vec![
    ("missing model", json!({"invocable": "E", "input": []})),
    ("missing invocable", json!({"model": m.name, "input": []})),
    ("missing input", json!({"model": m.name, "invocable": "E"})),
    ("unknown model", json!({"model": "nope", "invocable": "E", "input": []})),
    ("unknown type", json!({"model": m.name, "invocable": "E", "input": [{"name": "x", "value": simple("xsd:unknown", "1")}]})),
    ("bad decimal", json!({"model": m.name, "invocable": "E", "input": [{"name": "x", "value": simple("xsd:decimal", "12abc")}]})),
    ("bad date", json!({"model": m.name, "invocable": "E", "input": [{"name": "x", "value": simple("xsd:date", "2021-13-45")}]})),
    ("no attribute", json!({"model": m.name, "invocable": "E", "input": [{"name": "x", "value": {"simple": null, "components": null, "list": null}}]})),
    ("no value", json!({"model": m.name, "invocable": "E", "input": [{"name": "x"}]})),
    ("component without name", json!({"model": m.name, "invocable": "E", "input": [{"name": "x", "value": {"simple": null, "list": null, "components": [{"value": simple("xsd:string", "a"), "isNil": false}]}}]})),
    ("component without value", json!({"model": m.name, "invocable": "E", "input": [{"name": "x", "value": {"simple": null, "list": null, "components": [{"name": "a", "isNil": false}]}}]})),
    ("missing isNil", json!({"model": m.name, "invocable": "E", "input": [{"name": "x", "value": {"simple": {"type": "xsd:string", "text": "a"}}}]})),
    ("input not a list", json!({"model": m.name, "invocable": "E", "input": {"name": "x"}})),
    // a value that cannot be converted is reported wherever it sits: inside a list, a nested list, a component
    ("bad decimal in a list", json!({"model": m.name, "invocable": "E", "input": [{"name": "x", "value": {"simple": null, "components": null, "list": {"items": [simple("xsd:decimal", "1"), simple("xsd:decimal", "12abc"), simple("xsd:decimal", "3")], "isNil": false}}}]})),
    ("unknown type in a list", json!({"model": m.name, "invocable": "E", "input": [{"name": "x", "value": {"simple": null, "components": null, "list": {"items": [simple("xsd:string", "a"), simple("xsd:unknown", "1")], "isNil": false}}}]})),
    ("bad date in a nested list", json!({"model": m.name, "invocable": "E", "input": [{"name": "x", "value": {"simple": null, "components": null, "list": {"items": [{"simple": null, "components": null, "list": {"items": [simple("xsd:date", "2021-13-45")], "isNil": false}}], "isNil": false}}}]})),
    ("empty value in a list", json!({"model": m.name, "invocable": "E", "input": [{"name": "x", "value": {"simple": null, "components": null, "list": {"items": [simple("xsd:string", "a"), {"simple": null, "components": null, "list": null}], "isNil": false}}}]})),
    ("bad decimal in a component", json!({"model": m.name, "invocable": "E", "input": [{"name": "x", "value": {"simple": null, "list": null, "components": [{"name": "a", "value": simple("xsd:decimal", "x1"), "isNil": false}]}}]})),
    ("bad decimal in a list in a component", json!({"model": m.name, "invocable": "E", "input": [{"name": "x", "value": {"simple": null, "list": null, "components": [{"name": "a", "value": {"simple": null, "components": null, "list": {"items": [simple("xsd:decimal", "x1")], "isNil": false}}, "isNil": false}]}}]})),
  ];
  {
    let good = json!({"model": m.name, "invocable": "E", "input": [{"name": "x", "value": {"simple": null, "components": null, "list": {"items": [simple("xsd:decimal", "1"), simple("xsd:decimal", "3")], "isNil": false}}}]}).to_string();
    if let Ok(a) = http(server.port, "POST", "/tck/evaluate", js, good.as_bytes()) {
      let text = String::from_utf8_lossy(&a.body).to_string();
      rep.hit("tck:well-formed list shape");
      if !matches!(strict_parse(&text), Ok(j) if j.get("data").is_some()) {
        rep.disagree(Kind::ImplVsSpec, "dto", "a well-formed TCK list is not answered in the data member", &format!("POST /tck/evaluate {}", good), &text, "{\"data\":…}");
      }
    }
  }
  // `isNil` on a list or on a component denotes null: the answer must be the answer to the same request with the
  // null written as a simple value (which is compared with the DTO model below, `T::Null` is among the cases)
  {
    let nil_simple = json!({"simple": {"type": null, "text": null, "isNil": true}, "components": null, "list": null});
    let pairs = vec![
      (
        "nil list",
        json!({"simple": null, "components": null, "list": {"items": [], "isNil": true}}),
        nil_simple.clone(),
      ),
      (
        "nil list with items",
        json!({"simple": null, "components": null, "list": {"items": [simple("xsd:decimal", "1")], "isNil": true}}),
        nil_simple.clone(),
      ),
      (
        "nil component",
        json!({"simple": null, "list": null, "components": [{"name": "a", "value": null, "isNil": true}, {"name": "b", "value": simple("xsd:decimal", "2"), "isNil": false}]}),
        json!({"simple": null, "list": null, "components": [{"name": "a", "value": nil_simple.clone(), "isNil": false}, {"name": "b", "value": simple("xsd:decimal", "2"), "isNil": false}]}),
      ),
      (
        "nil list inside a list",
        json!({"simple": null, "components": null, "list": {"items": [{"simple": null, "components": null, "list": {"items": [], "isNil": true}}, simple("xsd:string", "z")], "isNil": false}}),
        json!({"simple": null, "components": null, "list": {"items": [nil_simple.clone(), simple("xsd:string", "z")], "isNil": false}}),
      ),
    ];
    for (what, written, plain) in pairs {
      let b1 = json!({"model": m.name, "invocable": "E", "input": [{"name": "x", "value": written}]}).to_string();
      let b2 = json!({"model": m.name, "invocable": "E", "input": [{"name": "x", "value": plain}]}).to_string();
      let (a1, a2) = match (http(server.port, "POST", "/tck/evaluate", js, b1.as_bytes()), http(server.port, "POST", "/tck/evaluate", js, b2.as_bytes())) {
        (Ok(a1), Ok(a2)) => (a1, a2),
        _ => {
          rep.disagree(Kind::ImplVsSpec, "http", "the service stopped answering", &format!("POST /tck/evaluate {}", b1), "", "an answer");
          return;
        }
      };
      let (t1, t2) = (String::from_utf8_lossy(&a1.body).to_string(), String::from_utf8_lossy(&a2.body).to_string());
      rep.case(&format!("tck:{}", what), true);
      rep.hit(&format!("tck:nil:{}", what));
      let data_ok = matches!(strict_parse(&t2), Ok(j) if j.get("data").is_some());
      if t1 != t2 || !data_ok {
        rep.disagree(Kind::ImplVsSpec, "dto", "a TCK value marked isNil is not treated as null", &format!("{}: POST /tck/evaluate {}", what, b1), &t1, &t2);
      }
    }
  }
  for (ci, ((t, req), ans)) in cases.iter().zip(reqs.iter()).zip(answers.iter()).enumerate() {
    if ci % 23 == 0 {
      let (what, body) = &rejected[(ci / 23) % rejected.len()];
      let body = body.to_string();
      match http(server.port, "POST", "/tck/evaluate", js, body.as_bytes()) {
        Ok(a) => {
          let text = String::from_utf8_lossy(&a.body).to_string();
          let shape = matches!(strict_parse(&text), Ok(j) if matches!(j.get("errors"), Some(J::Arr(xs)) if xs.len() == 1 && matches!(xs[0].get("details"), Some(J::Str(_)))));
          rep.hit(&format!("tck:rejected:{}", what));
          if !shape {
            rep.disagree(Kind::ImplVsSpec, "bad_request_no_state_change", &format!("malformed TCK request ({}) is not answered in the errors member", what), &format!("POST /tck/evaluate {}", body), &format!("{} {}", a.status, text), "{\"errors\":[{\"details\":...}]}");
          }
        }
        Err(e) => {
          rep.disagree(Kind::ImplVsSpec, "http", "the service stopped answering", &format!("POST /tck/evaluate {}", body), &e, "an answer");
          return;
        }
      }
    }
    let sent = tv_dto(t);
    let body = json!({"model": m.name, "invocable": "E", "input": [{"name": "x", "value": sent}]}).to_string();
    let input = format!("{} ;; POST /tck/evaluate {}", req, body.chars().take(400).collect::<String>());
    rep.case(req, !matches!(t, T::Null | T::Bool(_)));
    let a = match http(server.port, "POST", "/tck/evaluate", js, body.as_bytes()) {
      Ok(a) => a,
      Err(e) => {
        rep.disagree(Kind::ImplVsSpec, "http", "the service stopped answering", &input, &e, "an answer");
        return;
      }
    };
    let text = String::from_utf8_lossy(&a.body).to_string();
    let parsed = match strict_parse(&text) {
      Ok(j) => j,
      Err(e) => {
        rep.disagree(Kind::ImplVsSpec, "response_wellformed", "response body is not well-formed JSON", &input, &format!("{}: {}", text, e), "a JSON document");
        continue;
      }
    };
    let am = Sexp::parse(ans);
    let m_dto = am.as_ref().and_then(|x| field(x, "dto")).map(|x| x.to_string());
    let m_back = am.as_ref().and_then(|x| field(x, "back")).map(|x| x.to_string()).unwrap_or_default();
    let canonical = am.as_ref().and_then(|x| field(x, "canonical")).and_then(|x| x.as_atom().map(|a| a == "true")).unwrap_or(false);
    let m_dto = match m_dto {
      Some(d) => d,
      None => {
        rep.disagree(Kind::ImplVsModel, "dto", "driver-error", &input, &text, ans);
        continue;
      }
    };
    let got_value = parsed.get("data").and_then(|d| d.get("value")).cloned();
    rep.hit(&format!(
      "tck:{}:{}",
      if canonical { "canonical" } else { "non-canonical" },
      if got_value.is_some() { "value" } else if parsed.get("errors").is_some() { "errors" } else { "other" }
    ));
    if m_back == "none" {
      // the model's reader rejects the DTO: an `errors` answer is expected
      if parsed.get("errors").is_none() {
        rep.disagree(Kind::ImplVsModel, "dto", "tck answer differs from the DTO model (model rejects the input)", &input, &text, "an errors answer");
      }
      continue;
    }
    let got = match got_value {
      Some(g) => g,
      None => {
        rep.disagree(Kind::ImplVsModel, "dto", "tck answer differs from the DTO model (no data.value)", &input, &text, &m_dto);
        continue;
      }
    };
    // the property: a canonical typed value comes back as it was sent
    if canonical {
      let sent_j = sorted_j(&serde_to_j(&sent));
      if sorted_j(&got) != sent_j {
        rep.disagree(Kind::ImplVsSpec, "dto_roundtrip", "a typed value sent in TCK format does not come back unchanged", &input, &got.sexp().to_string(), &sent_j.sexp().to_string());
      }
    }
    // tie: the DTO written for the value read is the model's (readers as observed in-process);
    // (for non-canonical input the value read differs from the one sent)
    let m_backdto = am.as_ref().and_then(|x| field(x, "backdto")).map(|x| x.to_string()).unwrap_or_default();
    if sorted_j(&got).sexp().to_string() != sorted_by_text(&m_backdto) {
      rep.disagree(Kind::ImplVsModel, "dto", "tck answer differs from the DTO model", &input, &sorted_j(&got).sexp().to_string(), &sorted_by_text(&m_backdto));
    }
    if canonical && m_backdto != m_dto {
      rep.disagree(Kind::ImplVsModel, "dto", "model violates dto_roundtrip", &input, &m_backdto, &m_dto);
    }
    if rng.chance(1, 200) {
      rep.sample(json!({"family": "tck", "sent": sent, "answer": text}));
    }
  }
}

/// The driver's JSON S-expression with object members sorted by name.
fn sorted_by_text(json_sexp: &str) -> String {
  fn conv(s: &Sexp) -> J {
    match s {
      Sexp::Atom(a) if a == "null" => J::Null,
      Sexp::List(l) => match l.first().and_then(|x| x.as_atom()) {
        Some("b") => J::Bool(l.get(1).and_then(|x| x.as_atom()) == Some("true")),
        Some("n") => J::Num(l.get(1).and_then(chars_of).unwrap_or_default()),
        Some("str") => J::Str(l.get(1).and_then(chars_of).unwrap_or_default()),
        Some("arr") => J::Arr(l[1..].iter().map(conv).collect()),
        Some("obj") => J::Obj(
          l[1..]
            .iter()
            .filter_map(|m| {
              let p = m.as_list()?;
              Some((chars_of(p.first()?)?, conv(p.get(1)?)))
            })
            .collect(),
        ),
        _ => J::Null,
      },
      _ => J::Null,
    }
  }
  match Sexp::parse(json_sexp) {
    Some(s) => sorted_j(&conv(&s)).sexp().to_string(),
    None => String::new(),
  }
}

/// The entries of a context come out of a map (ordered by name), the model keeps them in the order of insertion:
/// every `components` array sorted by the text of its `name` member.
fn components_by_name(j: &J) -> J {
  match j {
    J::Arr(xs) => J::Arr(xs.iter().map(components_by_name).collect()),
    J::Obj(ms) => J::Obj(
      ms.iter()
        .map(|(k, v)| {
          let v = components_by_name(v);
          match (k.as_str(), v) {
            ("components", J::Arr(mut cs)) => {
              cs.sort_by_key(|c| c.get("name").map(|n| n.sexp().to_string()).unwrap_or_default());
              (k.clone(), J::Arr(cs))
            }
            (_, v) => (k.clone(), v),
          }
        })
        .collect(),
    ),
    other => other.clone(),
  }
}

// ------------------------------------------------------------------------------------------
// family `parallel`: several clients at once — only well-formedness and survival are checked
// (answers depend on the order in which the service takes the workspace lock)
// ------------------------------------------------------------------------------------------

fn run_parallel_clients(cfg: &Cfg, rep: &mut Report, rng: &mut Rng, svc: &Service, server: &mut Server, models: &[MDef]) {
  let clients = 6usize;
  let per_client = if cfg.tier == "thorough" { 3000 } else { 150 };
  // an over-long body first: the JSON extractor's 4 MiB limit answers an errors envelope
  let big = format!("{{\"content\": \"{}\"}}", "QUJD".repeat(1_200_000));
  match http(server.port, "POST", "/definitions/add", Some("application/json"), big.as_bytes()) {
    Ok(a) => {
      let text = String::from_utf8_lossy(&a.body).to_string();
      rep.hit("parallel:over-limit-body");
      if !matches!(strict_parse(&text), Ok(j) if j.get("errors").is_some()) {
        rep.disagree(Kind::ImplVsSpec, "response_wellformed", "a body over the 4 MiB limit is not answered with an errors envelope", "POST /definitions/add with a 4.8 MB body", &format!("{} {}", a.status, text.chars().take(300).collect::<String>()), "{\"errors\":[...]}");
      }
    }
    Err(e) => {
      // the service may close the connection while the client is still sending: not a JSON answer,
      // but the service must go on answering
      rep.hit("parallel:over-limit-body-connection-closed");
      rep.notes.push(format!("over-limit body: connection ended without an answer ({})", e));
    }
  }
  let port = server.port;
  let mut wires: Vec<Vec<(String, Wire, Option<&'static str>)>> = vec![];
  for _ in 0..clients {
    let mut ws = vec![];
    for _ in 0..per_client {
      // the finding a non-JSON answer to this request would be an instance of, if any
      let mut issue: Option<&'static str> = None;
      let r = match rng.below(12) {
        0 => Rq::Add(Content::Model(rng.pick(models).clone())),
        1 => Rq::Replace(Content::Model(rng.pick(models).clone())),
        2 => Rq::Remove(Some("ns1".into()), Some("n1".into())),
        3 => Rq::Clear,
        4 | 5 => Rq::Deploy,
        6 => Rq::Add(Content::BadUtf8),
        7 => Rq::Framework(rng.below(7) as u8),
        8 => Rq::Eval { model: "n1".into(), invocable: "D".into(), body: "{}".into(), sent: None },
        _ => {
          let g = gen_value(rng, 2, false, false);
          if let Ok(Some(v)) = guarded(|| to_value(&g)) {
            let mut t = Traits::default();
            traits(&v, &mut t);
            let numsok = number_texts_ok(&v);
            if t.other_kind || t.needs_escape || !numsok {
              issue = Some(failure_signature(&t, numsok));
            }
          }
          Rq::Eval { model: (*rng.pick(&["n1", "n2", "n3"])).to_string(), invocable: "E".into(), body: format!("{{x: {}}}", to_feel(&g)), sent: Some(g.clone()) }
        }
      };
      ws.push((endpoint(&r).to_string(), svc.wire(&r), issue));
    }
    wires.push(ws);
  }
  let handles: Vec<_> = wires
    .into_iter()
    .map(|ws| {
      std::thread::spawn(move || {
        let mut bad: Vec<(String, String, Option<&'static str>)> = vec![];
        let mut n = 0u64;
        for (what, w, issue) in ws {
          n += 1;
          match http(port, w.method, &w.path, w.content_type, &w.body) {
            Ok(a) => {
              let text = String::from_utf8_lossy(&a.body).to_string();
              let ok = matches!(strict_parse(&text), Ok(j) if j.get("data").is_some() || j.get("errors").is_some());
              if !ok {
                bad.push((format!("{} {} {} {}", w.method, w.path, what, String::from_utf8_lossy(&w.body).chars().take(300).collect::<String>()), format!("{} {}", a.status, text.chars().take(300).collect::<String>()), issue));
              }
            }
            Err(e) => bad.push((format!("{} {} {}", w.method, w.path, what), format!("no answer: {}", e), None)),
          }
        }
        (n, bad)
      })
    })
    .collect();
  let mut total = 0u64;
  for h in handles {
    if let Ok((n, bad)) = h.join() {
      total += n;
      for (req, got, issue) in bad {
        let sig = issue.unwrap_or("under parallel clients a request is not answered with a well-formed data/errors envelope");
        rep.disagree(Kind::ImplVsSpec, "response_wellformed", sig, &req, &got, "{\"data\":...} or {\"errors\":[...]}");
      }
    }
  }
  rep.hit("parallel:clients-finished");
  rep.extra.insert("parallel_requests".into(), json!(total));
  // and the service still answers sequentially
  match http(port, "GET", "/system/info", None, b"") {
    Ok(a) if a.status == 200 => {}
    other => rep.disagree(Kind::ImplVsSpec, "http", "the service stopped answering", "GET /system/info after the parallel clients", &format!("{:?}", other.map(|a| a.status)), "200"),
  }
}

fn field_list(a: &Sexp, tag: &str) -> Option<Vec<Sexp>> {
  a.as_list()?.iter().find_map(|p| {
    let l = p.as_list()?;
    if l.first()?.as_atom()? == tag {
      Some(l[1..].to_vec())
    } else {
      None
    }
  })
}

fn endpoint(r: &Rq) -> &'static str {
  match r {
    Rq::Add(_) => "add",
    Rq::Replace(_) => "replace",
    Rq::Remove(_, _) => "remove",
    Rq::Clear => "clear",
    Rq::Deploy => "deploy",
    Rq::Eval { .. } => "evaluate",
    Rq::Tck { .. } => "tck",
    Rq::Framework(_) => "framework",
  }
}

/// Every number text inside the value is a number of the JSON grammar (harness's own check).
fn number_texts_ok(v: &Value) -> bool {
  match v {
    Value::Number(n) => matches!(strict_parse(&n.to_string()), Ok(J::Num(_))),
    Value::List(items) => items.as_vec().iter().all(number_texts_ok),
    Value::Context(ctx) => ctx.iter().all(|(_, x)| number_texts_ok(x)),
    _ => true,
  }
}

pub fn run(cfg: &Cfg) -> Report {
  let mut rep = Report::new(
    "C18",
    "jsonify: generated values (strings and keys over an alphabet with quotes, backslashes, control and non-ASCII characters; numbers; lists; contexts; temporal values), non-trivial when the value contains a string, a key or a compound; decode: generated and damaged JSON texts longer than 4 characters; http: request sequences against the running service, non-trivial when a successful add is followed by another operation or evaluation; distinct by request line.",
  );
  let mut model = Model::start(&cfg.driver);
  let mut rng = Rng::new(cfg.seed);
  let only: Option<&str> = cfg.extra.iter().find_map(|x| x.strip_prefix("--only="));
  if only.is_none() || only == Some("jsonify") {
    let mut r = rng.fork();
    run_jsonify(cfg, &mut rep, &mut model, &mut r);
  }
  if only.is_none() || only == Some("decode") {
    let mut r = rng.fork();
    run_decode(cfg, &mut rep, &mut model, &mut r);
  }
  if only.is_none() || only == Some("http") {
    let mut r = rng.fork();
    run_http(cfg, &mut rep, &mut model, &mut r);
  }
  if only == Some("spellings") {
    // m18: the family alone, against its own service process
    let mut r = rng.fork();
    let svc = Service { bad_body: None, evaluator: None };
    match Server::start() {
      Ok(mut server) => run_spellings(cfg, &mut rep, &mut r, &svc, &mut server, &MDef { ns: "ns1".into(), name: "n1".into(), builds: true }),
      Err(e) => rep.disagree(Kind::ImplVsSpec, "http", "the service does not start on a loopback port", "start_server(127.0.0.1, free port)", &e, "a listening service"),
    }
  }
  rep.notes.push("oracles consulted: strict RFC 8259 parser of the harness and serde_json (second opinions on the Lean decoder); in-process ModelEvaluator for the value a deployed model answers".into());
  rep.model_requests = model.requests;
  rep
}

// ================================================================================================
// c19fix BEGIN — family `unreadable`: bodies the evaluate endpoint cannot read as text, and
// results that are not finite numbers.  C18: "Every response of the HTTP service is a well-formed
// JSON document … failures are reported in the errors member … no request (malformed body, invalid
// base64, UTF-8 or XML …) stops the service".  Expectations are written out here (the extractors of
// actix-web are not part of the handler model).

const SIG_UNREADABLE: &str = "a body the evaluate endpoint cannot read as text is not answered with a JSON document that has the errors member";
const SIG_NON_FINITE: &str = "a result that is not a finite number is not answered with a JSON document";

fn run_unreadable_bodies(rep: &mut Report, svc: &Service, server: &mut Server, m: &MDef) {
  let js = Some("application/json");
  for (path, body) in [("/definitions/clear", String::new()), ("/definitions/add", svc.content_json(&Content::Model(m.clone()))), ("/definitions/deploy", String::new())] {
    if let Err(e) = http(server.port, "POST", path, js, body.as_bytes()) {
      rep.disagree(Kind::ImplVsSpec, "http", "the service stopped answering", path, &e, "an answer");
      return;
    }
  }
  let path = format!("/evaluate/{}/E", path_segment(&m.name));
  let spaces = |n: usize| -> Vec<u8> {
    let mut v = vec![b' '; n];
    v[0] = b'{';
    v[n - 1] = b'}';
    v
  };
  // (what, content type, body, the service may close the connection before it answers)
  let unreadable: Vec<(&str, &str, Vec<u8>, bool)> = vec![
    ("invalid UTF-8", "text/plain", vec![b'{', 0xff, 0xfe, b'}'], false),
    ("invalid UTF-8 (truncated sequence)", "text/plain", vec![b'{', b'x', b':', b' ', b'"', 0xc5, b'"', b'}'], false),
    ("invalid UTF-8 (application/json)", "application/json", vec![b'{', 0xff, 0xfe, b'}'], false),
    ("body of 300 KiB", "text/plain", spaces(300 * 1024), true),
    ("body of 257 KiB", "text/plain", spaces(257 * 1024), true),
    ("unknown charset", "text/plain; charset=latin2x", b"{}".to_vec(), false),
    ("unknown charset (no-such-encoding)", "application/json; charset=no-such-encoding", b"{x: 1}".to_vec(), false),
  ];
  for (what, ct, body, may_close) in &unreadable {
    let shown = format!("POST {} ({}; {}, {} bytes)", path, what, ct, body.len());
    rep.case(&shown, true);
    rep.hit(&format!("unreadable:{}", what));
    match http(server.port, "POST", &path, Some(ct), body) {
      Ok(a) => {
        let text = String::from_utf8_lossy(&a.body).to_string();
        if !matches!(strict_parse(&text), Ok(j) if j.get("errors").is_some()) {
          rep.disagree(Kind::ImplVsSpec, "response_wellformed", SIG_UNREADABLE, &shown, &format!("{} {} {}", a.status, a.content_type, text.chars().take(200).collect::<String>()), "{\"errors\":[...]}");
        } else {
          rep.hit("unreadable:answered-with-errors");
        }
      }
      Err(e) if *may_close => {
        rep.hit("unreadable:connection-closed");
        rep.notes.push(format!("{}: connection ended without an answer ({})", what, e));
      }
      Err(e) => rep.disagree(Kind::ImplVsSpec, "http", "the service stopped answering", &shown, &e, "an answer"),
    }
    // the service goes on answering
    match http(server.port, "POST", &path, Some("text/plain"), b"{x: 1}") {
      Ok(a) if String::from_utf8_lossy(&a.body) == "{\"data\":1}" => rep.hit("unreadable:next-request-answered"),
      Ok(a) => rep.disagree(Kind::ImplVsSpec, "http", "the request after an unreadable body is not answered as usual", &shown, &String::from_utf8_lossy(&a.body), "{\"data\":1}"),
      Err(e) => rep.disagree(Kind::ImplVsSpec, "http", "the service stopped answering", &shown, &e, "an answer"),
    }
  }
  // a body just under the limit is read (control: the family does not only see rejections)
  match http(server.port, "POST", &path, Some("text/plain"), &{
    let mut v = spaces(200 * 1024);
    v.splice(1..1, b"x: 7".iter().cloned());
    v
  }) {
    Ok(a) if String::from_utf8_lossy(&a.body) == "{\"data\":7}" => rep.hit("unreadable:control-200KiB-read"),
    Ok(a) => rep.disagree(Kind::ImplVsSpec, "http", "a body of 200 KiB is not evaluated", "POST /evaluate/../E with {x: 7} padded to 200 KiB", &String::from_utf8_lossy(&a.body).chars().take(200).collect::<String>(), "{\"data\":7}"),
    Err(e) => rep.disagree(Kind::ImplVsSpec, "http", "the service stopped answering", "200 KiB body", &e, "an answer"),
  }
  // results that are not finite numbers (C02 F7 seen through the service): the answer is still JSON
  for body in [
    "{x: 10**6000 * 10**6000}",
    "{x: -(10**6000 * 10**6000)}",
    "{x: 10**6000 * 10**6000 - 10**6000 * 10**6000}",
    "{x: [1, 10**6000 * 10**6000, \"a\"]}",
    "{x: {a: 10**6144 + 10**6144, b: 2}}",
  ] {
    let shown = format!("POST {} {}", path, body);
    rep.case(&shown, true);
    rep.hit("non-finite:request");
    match http(server.port, "POST", &path, Some("text/plain"), body.as_bytes()) {
      Ok(a) => {
        let text = String::from_utf8_lossy(&a.body).to_string();
        match strict_parse(&text) {
          Ok(j) if j.get("data").is_some() || j.get("errors").is_some() => rep.hit("non-finite:answered-with-json"),
          _ => rep.disagree(Kind::ImplVsSpec, "response_wellformed", SIG_NON_FINITE, &shown, &format!("{} {}", a.status, text.chars().take(200).collect::<String>()), "a JSON document with the data or the errors member"),
        }
      }
      Err(e) => rep.disagree(Kind::ImplVsSpec, "http", "the service stopped answering", &shown, &e, "an answer"),
    }
  }
}
/// The `Display` text of a number that is not finite.
fn non_finite_text(t: &str) -> bool {
  matches!(t, "Infinity" | "-Infinity" | "NaN" | "-NaN" | "sNaN" | "-sNaN")
}
// c19fix END
// ================================================================================================


// ------------------------------------------------------------------------------------------
// family `limits`: typed TCK input values at and beyond the machine limits, for every xsd type the input
// conversion of server/src/dto.rs reads
// ------------------------------------------------------------------------------------------

#[derive(Clone, Debug, PartialEq)]
enum LimitWant {
  /// the value comes back with exactly this type and text
  Text(&'static str, String),
  /// the value comes back as an `xsd:decimal` denoting the same number
  Number,
  /// an answer with `data` or with `errors`: the value is outside what the property promises (or outside FEEL)
  Answer,
}

/// The decimal text of ±(2^bits + delta).
fn pow2_text(bits: u32, delta: i32, neg: bool) -> String {
  // schoolbook doubling on decimal digits (least significant first): no machine integer is involved
  let mut d: Vec<u8> = vec![1];
  for _ in 0..bits {
    let mut carry = 0;
    for x in d.iter_mut() {
      let v = *x * 2 + carry;
      *x = v % 10;
      carry = v / 10;
    }
    if carry > 0 {
      d.push(carry);
    }
  }
  // add delta ∈ {-1, 0, 1}
  if delta > 0 {
    let mut i = 0;
    loop {
      if i == d.len() {
        d.push(0);
      }
      if d[i] == 9 {
        d[i] = 0;
        i += 1;
      } else {
        d[i] += 1;
        break;
      }
    }
  } else if delta < 0 {
    let mut i = 0;
    loop {
      if d[i] == 0 {
        d[i] = 9;
        i += 1;
      } else {
        d[i] -= 1;
        break;
      }
    }
    while d.len() > 1 && *d.last().unwrap() == 0 {
      d.pop();
    }
  }
  let t: String = d.iter().rev().map(|x| char::from(b'0' + *x)).collect();
  if neg && t != "0" {
    format!("-{}", t)
  } else {
    t
  }
}

fn limit_cases() -> Vec<(&'static str, String, LimitWant)> {
  let mut out: Vec<(&'static str, String, LimitWant)> = vec![];
  let numeric = ["xsd:integer", "xsd:decimal", "xsd:double"];
  // integers around every power of two a machine integer ends at, and around the powers of ten: at most 34 digits
  // come back digit for digit (whatever the numeric type they were sent as); longer ones are outside FEEL's numbers
  let mut ints: Vec<String> = vec!["0".into(), "1".into(), "-1".into()];
  for bits in [7u32, 8, 15, 16, 23, 24, 31, 32, 52, 53, 62, 63, 64, 65, 95, 96, 111, 112, 127, 128, 255, 256] {
    for delta in [-1, 0, 1] {
      for neg in [false, true] {
        ints.push(pow2_text(bits, delta, neg));
      }
    }
  }
  for k in [9usize, 10, 15, 16, 17, 18, 19, 20, 21, 33, 34, 35, 38, 39, 40] {
    ints.push(format!("1{}", "0".repeat(k - 1))); // 10^(k-1): k digits
    ints.push("9".repeat(k));
    ints.push(format!("-{}", "9".repeat(k)));
  }
  ints.sort();
  ints.dedup();
  for t in &ints {
    let digits = t.trim_start_matches('-').len();
    for typ in numeric {
      let want = if digits <= 34 { LimitWant::Text("xsd:decimal", t.clone()) } else { LimitWant::Answer };
      out.push((typ, t.clone(), want));
    }
  }
  // decimals and doubles: the limits of f64 and of decimal128, written as xsd:decimal / xsd:double texts
  for t in [
    "0.1", "0.5", "-0.25", "1.5", "12.50", "3.141592653589793", "1.7976931348623157E308", "-1.7976931348623157E308", "2.2250738585072014E-308", "4.9E-324", "9007199254740993", "0.1000000000000000055511151231257827",
    "9.999999999999999999999999999999999E6144", "1E6144", "1E-6143", "1E-6176", "9.999999999999999999999999999999999E-6143", "1.000000000000000000000000000000001", "0.000000000000000000000000000000001",
  ] {
    for typ in ["xsd:decimal", "xsd:double"] {
      out.push((typ, t.to_string(), LimitWant::Number));
    }
  }
  for t in ["1E6145", "1E-6177", "1E999999999", "1E-999999999", "1E9999999999999999999", "12345678901234567890123456789012345.5", "0.10000000000000000000000000000000000001", "INF", "-INF", "NaN", "+INF", "Infinity", "-0", "+1", "1.", ".5", "1e3", "1E+3", "0x10", "1_000", "１２"] {
    for typ in numeric {
      out.push((typ, t.to_string(), LimitWant::Answer));
    }
  }
  for t in ["1.5", "1e3", "-0.0", "2.0"] {
    out.push(("xsd:integer", t.to_string(), LimitWant::Answer));
  }
  // booleans
  out.push(("xsd:boolean", "true".into(), LimitWant::Text("xsd:boolean", "true".into())));
  out.push(("xsd:boolean", "false".into(), LimitWant::Text("xsd:boolean", "false".into())));
  for t in ["1", "0", "TRUE", "True", " true", "yes", ""] {
    out.push(("xsd:boolean", t.to_string(), LimitWant::Answer));
  }
  // strings: empty, long, the ends of the planes
  for t in ["".to_string(), " ".to_string(), "\u{0}".to_string(), "\u{7f}\u{80}\u{7ff}\u{800}\u{ffff}\u{10000}\u{10ffff}".to_string(), "a".repeat(70_000), "\u{10ffff}".repeat(20_000), "\"\\".repeat(3_000)] {
    out.push(("xsd:string", t.clone(), LimitWant::Text("xsd:string", t)));
  }
  // dates: four-digit years come back unchanged; the ends of FEEL's range, of chrono's range and beyond are answered
  for t in ["1000-01-01", "9999-12-31", "2000-02-29", "2400-02-29", "1970-01-01", "2038-01-19", "2038-01-20", "1901-12-13"] {
    out.push(("xsd:date", t.to_string(), LimitWant::Text("xsd:date", t.to_string())));
  }
  for t in [
    "0001-01-01", "0000-01-01", "-0001-01-01", "10000-01-01", "262143-12-31", "262144-01-01", "-262144-01-01", "-262145-12-31", "999999999-12-31", "-999999999-01-01", "1000000000-01-01", "-1000000000-01-01", "99999999999999999999-01-01", "1900-02-29",
    "2021-02-30", "2021-13-01", "2021-00-10", "2021-01-00", "2021-01-32", "2021-01-01Z", "2021-01-01+14:00", "2021-1-1", "4294967296-01-01", "2147483648-01-01", "-2147483649-01-01",
  ] {
    out.push(("xsd:date", t.to_string(), LimitWant::Answer));
  }
  // times
  for t in ["00:00:00", "23:59:59", "12:00:00", "00:00:01"] {
    out.push(("xsd:time", t.to_string(), LimitWant::Text("xsd:time", t.to_string())));
  }
  for t in [
    "24:00:00", "23:59:60", "23:60:00", "25:00:00", "99:99:99", "23:59:59.999999999", "23:59:59.9999999999", "23:59:59.99999999999999999999", "00:00:00.000000001", "12:00:00Z", "12:00:00+14:00", "12:00:00-14:00", "12:00:00+14:01", "12:00:00+18:00", "12:00:00+99:99",
    "12:00:00@Europe/Warsaw", "12:00:00@Nowhere/Nowhere", "4294967296:00:00", "12:00", "",
  ] {
    out.push(("xsd:time", t.to_string(), LimitWant::Answer));
  }
  // date-times
  for t in ["1000-01-01T00:00:00", "9999-12-31T23:59:59", "2000-02-29T12:00:00", "2038-01-19T03:14:07", "2038-01-19T03:14:08", "1970-01-01T00:00:00"] {
    out.push(("xsd:dateTime", t.to_string(), LimitWant::Text("xsd:dateTime", t.to_string())));
  }
  for t in [
    "0001-01-01T00:00:00", "-0001-12-31T23:59:59", "10000-01-01T00:00:00", "262143-12-31T23:59:59", "262144-01-01T00:00:00", "-262144-01-01T00:00:00", "999999999-12-31T23:59:59", "-999999999-01-01T00:00:00", "1000000000-01-01T00:00:00", "9999-12-31T24:00:00",
    "9999-12-31T23:59:60", "9999-12-31T23:59:59.999999999", "9999-12-31T23:59:59+14:00", "9999-12-31T23:59:59-14:00", "262143-12-31T23:59:59-14:00", "-262144-01-01T00:00:00+14:00", "999999999-12-31T23:59:59-14:00", "-999999999-01-01T00:00:00+14:00", "2021-02-30T00:00:00",
    "2021-01-01T00:00:00Z", "2021-01-01T00:00:00@Europe/Warsaw", "2021-01-01", "2021-01-01T", "T00:00:00",
  ] {
    out.push(("xsd:dateTime", t.to_string(), LimitWant::Answer));
  }
  // durations: canonical small ones come back unchanged; the ends of the counters (months in i64, nanoseconds in i64)
  for t in ["P1Y", "P1Y2M", "P11M", "-P3Y", "P1D", "PT2H", "P1DT2H3M4S", "-PT5M", "PT1S"] {
    out.push(("xsd:duration", t.to_string(), LimitWant::Text("xsd:duration", t.to_string())));
  }
  for t in [
    "P0Y", "P0M", "PT0S", "P0D", "P12M", "PT60S", "PT24H", "P999999999Y", "-P999999999Y", "P999999999Y11M", "P1000000000Y", "P11999999999M", "P768614336404564650Y", "P768614336404564651Y", "P9223372036854775807M", "P9223372036854775808M", "-P9223372036854775808M",
    "P99999999999999999999Y", "P99999999999999999999M", "P106751D", "P106752D", "P106751DT23H47M16S", "P106751DT23H47M16.854775807S", "P106751DT23H47M16.854775808S", "-P106751DT23H47M16.854775808S", "PT9223372036S", "PT9223372037S", "PT9223372036.854775807S",
    "PT9223372036.854775808S", "PT153722867M", "PT153722868M", "PT2562047H", "PT2562048H", "P99999999999999999999D", "PT99999999999999999999H", "PT99999999999999999999M", "PT99999999999999999999S", "PT0.000000001S", "PT0.0000000001S", "PT0.99999999999999999999S",
    "P1Y1D", "P1M1D", "P", "PT", "-P", "P1", "P-1Y", "PT1.S",
  ] {
    out.push(("xsd:duration", t.to_string(), LimitWant::Answer));
  }
  out
}

const SIG_LIMITS_ANSWER: &str = "limits: a typed TCK value at a machine limit is not answered with a JSON document that has the data or the errors member";
const SIG_LIMITS_TEXT: &str = "limits: a typed TCK value does not come back unchanged";
const SIG_LIMITS_NUMBER: &str = "limits: a typed TCK number does not come back as the same number";

/// Typed input values at and beyond the machine limits, for every xsd simple type `TryFrom<&SimpleDto>` reads
/// (`xsd:string / integer / decimal / double / boolean / date / time / dateTime / duration`): integers around 2^7 …
/// 2^256 and around the powers of ten to 40 digits under all three numeric types, the limits of f64 and decimal128,
/// the ends of the ranges of years, offsets, fractions of seconds, of the month and nanosecond counters of durations.
/// Each is sent alone, as an item of a list and as a component. Expected (written out above, nothing is taken from
/// the implementation): values inside what FEEL represents come back unchanged (numbers: as `xsd:decimal`, digit for
/// digit when they are integers of at most 34 digits, as the same number otherwise); every other text is answered with
/// `data` or `errors`; the request that follows is answered as usual.
fn run_limits(cfg: &Cfg, rep: &mut Report, svc: &Service, server: &mut Server, m: &MDef) {
  let _ = cfg;
  let js = Some("application/json");
  let setup = [("/definitions/clear", String::new()), ("/definitions/add", svc.content_json(&Content::Model(m.clone()))), ("/definitions/deploy", String::new())];
  for (path, body) in setup {
    if let Err(e) = http(server.port, "POST", path, js, body.as_bytes()) {
      rep.disagree(Kind::ImplVsSpec, "http", "the service stopped answering", path, &e, "an answer");
      return;
    }
  }
  let simple = |typ: &str, text: &str| json!({"simple": {"type": typ, "text": text, "isNil": false}, "components": null, "list": null});
  let cases = limit_cases();
  rep.extra.insert("limits_cases".into(), json!(cases.len()));
  // what the value looks like in the answer, for each of the three places it is sent in
  let dig = |j: &J, place: usize| -> Option<J> {
    let v = j.get("data")?.get("value")?.clone();
    match place {
      0 => Some(v),
      1 => match v.get("list")?.get("items")? {
        J::Arr(xs) if xs.len() == 1 => Some(xs[0].clone()),
        _ => None,
      },
      _ => match v.get("components")? {
        J::Arr(xs) if xs.len() == 1 => xs[0].get("value").cloned(),
        _ => None,
      },
    }
  };
  for (typ, text, want) in &cases {
    for place in 0..3usize {
      if place > 0 && text.len() > 1000 {
        continue;
      }
      let value = match place {
        0 => simple(typ, text),
        1 => json!({"simple": null, "components": null, "list": {"items": [simple(typ, text)], "isNil": false}}),
        _ => json!({"simple": null, "list": null, "components": [{"name": "a", "value": simple(typ, text), "isNil": false}]}),
      };
      let body = json!({"model": m.name, "invocable": "E", "input": [{"name": "x", "value": value}]}).to_string();
      let shown: String = text.chars().take(120).collect();
      let input = format!("typed value {} {:?}{} sent {} ;; POST /tck/evaluate {}", typ, shown, if text.len() > 120 { format!(" … ({} bytes)", text.len()) } else { String::new() }, ["alone", "as the item of a list", "as a component"][place], body.chars().take(300).collect::<String>());
      rep.case(&format!("limits|{}|{}|{}", typ, shown, place), true);
      rep.hit(&format!("limits:{}:{}", typ, match want { LimitWant::Text(..) => "unchanged", LimitWant::Number => "same number", LimitWant::Answer => "answered" }));
      let a = match http(server.port, "POST", "/tck/evaluate", js, body.as_bytes()) {
        Ok(a) => a,
        Err(e) => {
          rep.disagree(Kind::ImplVsSpec, "limits", SIG_LIMITS_ANSWER, &input, &format!("{} (process alive: {})", e, server.alive()), "a JSON answer");
          // the requests that follow must be answered all the same
          let probe = json!({"model": m.name, "invocable": "E", "input": [{"name": "x", "value": simple("xsd:string", "after")}]}).to_string();
          match http(server.port, "POST", "/tck/evaluate", js, probe.as_bytes()) {
            Ok(p) if strict_parse(&String::from_utf8_lossy(&p.body)).map(|j| j.get("data").is_some()).unwrap_or(false) => continue,
            other => {
              rep.disagree(Kind::ImplVsSpec, "limits", "limits: after a typed TCK value at a machine limit the service no longer answers the requests that follow", &input, &format!("{:?}", other.map(|p| String::from_utf8_lossy(&p.body).to_string())), "{\"data\":…}");
              return;
            }
          }
        }
      };
      let answer = String::from_utf8_lossy(&a.body).to_string();
      let j = match strict_parse(&answer) {
        Ok(j) if j.get("data").is_some() || matches!(j.get("errors"), Some(J::Arr(xs)) if !xs.is_empty()) => j,
        _ => {
          rep.disagree(Kind::ImplVsSpec, "limits", SIG_LIMITS_ANSWER, &input, &format!("{} {}", a.status, answer.chars().take(300).collect::<String>()), "{\"data\":…} or {\"errors\":[…]}");
          continue;
        }
      };
      let got = dig(&j, place).and_then(|v| {
        let s = v.get("simple")?;
        match (s.get("type"), s.get("text")) {
          (Some(J::Str(t)), Some(J::Str(x))) => Some((t.clone(), x.clone())),
          _ => None,
        }
      });
      let show_got = match &got {
        Some((t, x)) => format!("{} {:?}", t, x.chars().take(200).collect::<String>()),
        None => answer.chars().take(300).collect::<String>(),
      };
      match want {
        LimitWant::Answer => {}
        LimitWant::Text(wt, wx) => {
          if got.as_ref().map(|(t, x)| t == wt && x == wx) != Some(true) {
            rep.disagree(Kind::ImplVsSpec, "limits", SIG_LIMITS_TEXT, &input, &show_got, &format!("{} {:?}", wt, wx.chars().take(200).collect::<String>()));
          }
        }
        LimitWant::Number => {
          let same = matches!(&got, Some((t, x)) if t == "xsd:decimal" && num_norm(x).is_some() && num_norm(x) == num_norm(text));
          if !same {
            rep.disagree(Kind::ImplVsSpec, "limits", SIG_LIMITS_NUMBER, &input, &show_got, &format!("xsd:decimal, the number {}", text));
          }
        }
      }
    }
  }
}

// ------------------------------------------------------------------------------------------
// family `printed-forms`: typed temporal values whose *printed form* has a degenerate component
// (a sign carried by a fraction alone, a fraction without whole seconds, a zero of either duration
// kind, a negative zero, every subset of absent components, year ends, offsets of seconds), through
// the service on both routes: as TCK input (alone, in a list, in a component) and as FEEL text in
// the body of /evaluate. The expectation is the value written into the request: a text in the
// normal form (written by `dt_text` / `ym_text` / `time_text` below from the components the
// generator chose — nothing is taken from the implementation) comes back character for character,
// any other spelling comes back as a text denoting the same value (judged by the readers
// `dur_norm` / `time_norm` / `datetime_norm` of this file, written from the XSD lexical forms).
// ------------------------------------------------------------------------------------------

#[derive(Clone, Debug, PartialEq)]
enum PfWant {
  /// the printed text that must come back, character for character
  Text(String),
  /// a text of the same type denoting the same value as the one sent
  Same,
}

#[derive(Clone, Debug)]
struct Pf {
  /// xsd type of the TCK route (None: FEEL route only)
  typ: Option<&'static str>,
  /// the text sent on the TCK route / the kind of value for the normaliser ("xsd:duration", …)
  kind: &'static str,
  text: String,
  /// FEEL expressions denoting the value (route /evaluate)
  feel: Vec<String>,
  want: PfWant,
  /// the TCK reader may refuse the text (a form FEEL has and XML Schema has not): an `errors` answer is accepted there
  tck_may_refuse: bool,
  /// a computed value: FEEL's temporal arithmetic is the subject of C15 — where the evaluator has no value for the
  /// operation (null) nothing is claimed here; a value that does come back must be the written one
  may_be_null: bool,
}

/// The fraction of a second in the normal form: nine digits without the trailing zeros (empty for 0).
fn pf_frac(ns: u32) -> String {
  if ns == 0 {
    return String::new();
  }
  let mut t = format!("{:09}", ns);
  while t.ends_with('0') {
    t.pop();
  }
  format!(".{}", t)
}

/// Normal form of a days-and-time duration (XML Schema 1.1 canonical dayTimeDuration, as FEEL's `string()`).
fn dt_text(neg: bool, d: u64, h: u32, m: u32, s: u32, ns: u32) -> String {
  if d == 0 && h == 0 && m == 0 && s == 0 && ns == 0 {
    return "PT0S".into();
  }
  let mut t = String::new();
  if neg {
    t.push('-');
  }
  t.push('P');
  if d > 0 {
    t.push_str(&format!("{}D", d));
  }
  if h > 0 || m > 0 || s > 0 || ns > 0 {
    t.push('T');
    if h > 0 {
      t.push_str(&format!("{}H", h));
    }
    if m > 0 {
      t.push_str(&format!("{}M", m));
    }
    if s > 0 || ns > 0 {
      t.push_str(&format!("{}{}S", s, pf_frac(ns)));
    }
  }
  t
}

/// Normal form of a years-and-months duration.
fn ym_text(neg: bool, y: u64, m: u32) -> String {
  match (y > 0, m > 0) {
    (false, false) => "P0M".into(),
    (true, false) => format!("{}P{}Y", if neg { "-" } else { "" }, y),
    (false, true) => format!("{}P{}M", if neg { "-" } else { "" }, m),
    (true, true) => format!("{}P{}Y{}M", if neg { "-" } else { "" }, y, m),
  }
}

fn time_text(h: u32, m: u32, s: u32, ns: u32, zone: &str) -> String {
  format!("{:02}:{:02}:{:02}{}{}", h, m, s, pf_frac(ns), zone)
}

fn pf_digits(cs: &[char], i: &mut usize) -> Option<String> {
  let st = *i;
  while *i < cs.len() && cs[*i].is_ascii_digit() {
    *i += 1;
  }
  if *i > st {
    Some(cs[st..*i].iter().collect())
  } else {
    None
  }
}

/// (years-and-months?, amount in months / nanoseconds) of an `xsd:duration` text of one of FEEL's two kinds.
fn dur_norm(text: &str) -> Option<(bool, i128)> {
  let cs: Vec<char> = text.chars().collect();
  let mut i = 0;
  let neg = cs.first() == Some(&'-');
  if neg {
    i += 1;
  }
  if cs.get(i) != Some(&'P') {
    return None;
  }
  i += 1;
  let (mut months, mut nanos): (i128, i128) = (0, 0);
  let (mut has_ym, mut has_dt) = (false, false);
  let mut stage = 0; // Y < M < D in the date part
  while i < cs.len() && cs[i] != 'T' {
    let n: i128 = pf_digits(&cs, &mut i)?.parse().ok()?;
    let (st, is_ym, unit): (u32, bool, i128) = match cs.get(i)? {
      'Y' => (1, true, 12),
      'M' => (2, true, 1),
      'D' => (3, false, 86_400_000_000_000),
      _ => return None,
    };
    if st <= stage {
      return None;
    }
    stage = st;
    i += 1;
    if is_ym {
      has_ym = true;
      months += n * unit;
    } else {
      has_dt = true;
      nanos += n * unit;
    }
  }
  if i < cs.len() {
    i += 1; // 'T'
    if i >= cs.len() {
      return None;
    }
    stage = 0;
    while i < cs.len() {
      let whole: i128 = pf_digits(&cs, &mut i)?.parse().ok()?;
      let mut frac: i128 = 0;
      let mut had_frac = false;
      if cs.get(i) == Some(&'.') {
        i += 1;
        let f = pf_digits(&cs, &mut i)?;
        if f.len() > 9 {
          return None; // finer than a nanosecond: outside the values of the claim
        }
        frac = format!("{:0<9}", f).parse().ok()?;
        had_frac = true;
      }
      let (st, unit): (u32, i128) = match cs.get(i)? {
        'H' => (1, 3_600_000_000_000),
        'M' => (2, 60_000_000_000),
        'S' => (3, 1_000_000_000),
        _ => return None,
      };
      if st <= stage || (had_frac && st != 3) {
        return None;
      }
      stage = st;
      i += 1;
      has_dt = true;
      nanos += whole * unit + frac;
    }
  }
  match (has_ym, has_dt) {
    (true, false) => Some((true, if neg { -months } else { months })),
    (false, true) => Some((false, if neg { -nanos } else { nanos })),
    _ => None,
  }
}

#[derive(Clone, Debug, PartialEq)]
enum PfZone {
  Local,
  Offset(i32),
  Named(String),
}

/// `hh:mm:ss[.f]` followed by nothing, `Z`, `±hh:mm[:ss]` or `@Area/Location`.
fn time_norm(text: &str) -> Option<(u32, u32, u32, u32, PfZone)> {
  let cs: Vec<char> = text.chars().collect();
  let two = |i: usize| -> Option<u32> {
    if cs.len() >= i + 2 && cs[i].is_ascii_digit() && cs[i + 1].is_ascii_digit() {
      Some(cs[i].to_digit(10)? * 10 + cs[i + 1].to_digit(10)?)
    } else {
      None
    }
  };
  let (h, m, s) = (two(0)?, two(3)?, two(6)?);
  if cs.get(2) != Some(&':') || cs.get(5) != Some(&':') {
    return None;
  }
  let mut i = 8;
  let mut ns = 0;
  if cs.get(i) == Some(&'.') {
    i += 1;
    let f = pf_digits(&cs, &mut i)?;
    if f.len() > 9 {
      return None;
    }
    ns = format!("{:0<9}", f).parse().ok()?;
  }
  let rest: String = cs[i..].iter().collect();
  let zone = if rest.is_empty() {
    PfZone::Local
  } else if rest == "Z" {
    PfZone::Offset(0)
  } else if let Some(name) = rest.strip_prefix('@') {
    PfZone::Named(name.to_string())
  } else {
    let sign = match cs[i] {
      '+' => 1,
      '-' => -1,
      _ => return None,
    };
    let (oh, om) = (two(i + 1)?, two(i + 4)?);
    if cs.get(i + 3) != Some(&':') {
      return None;
    }
    let os = match cs.len() - i {
      6 => 0,
      9 if cs[i + 6] == ':' => two(i + 7)?,
      _ => return None,
    };
    PfZone::Offset(sign * (oh * 3600 + om * 60 + os) as i32)
  };
  Some((h, m, s, ns, zone))
}

fn datetime_norm(text: &str) -> Option<(String, (u32, u32, u32, u32, PfZone))> {
  let (d, t) = text.split_once('T')?;
  let ok = d.len() == 10 && d.chars().enumerate().all(|(i, c)| if i == 4 || i == 7 { c == '-' } else { c.is_ascii_digit() });
  if !ok {
    return None;
  }
  Some((d.to_string(), time_norm(t)?))
}

/// Is `got` a text of kind `kind` denoting the value `sent` denotes?
fn pf_same(kind: &str, sent: &str, got: &str) -> bool {
  match kind {
    "xsd:duration" => dur_norm(sent).is_some() && dur_norm(sent) == dur_norm(got),
    "xsd:time" => time_norm(sent).is_some() && time_norm(sent) == time_norm(got),
    "xsd:dateTime" => datetime_norm(sent).is_some() && datetime_norm(sent) == datetime_norm(got),
    _ => sent == got,
  }
}

fn pf_feel(kind: &str, text: &str) -> Vec<String> {
  match kind {
    "xsd:duration" => vec![format!("duration(\"{}\")", text), format!("@\"{}\"", text)],
    "xsd:time" => vec![format!("time(\"{}\")", text), format!("@\"{}\"", text)],
    "xsd:dateTime" => vec![format!("date and time(\"{}\")", text), format!("@\"{}\"", text)],
    _ => vec![format!("date(\"{}\")", text), format!("@\"{}\"", text)],
  }
}

const PF_FRACS: &[u32] = &[500_000_000, 50_000_000, 250_000_000, 1, 10, 123_456_789, 999_999_999, 100_000_000, 100_000_001, 1_000, 999_999_990];

fn printed_form_cases(rng: &mut Rng, random: usize) -> Vec<Pf> {
  let mut out: Vec<Pf> = vec![];
  let mut canon = |kind: &'static str, text: String, tck: bool, refuse: bool| {
    out.push(Pf { typ: if tck { Some(kind) } else { None }, kind, feel: pf_feel(kind, &text), want: PfWant::Text(text.clone()), text, tck_may_refuse: refuse, may_be_null: false });
  };
  // days-and-time durations: every subset of present components, both signs; the fraction alone with every fraction
  for mask in 1u32..32 {
    for neg in [false, true] {
      let fracs: Vec<u32> = if mask & 1 == 0 {
        vec![0]
      } else if mask == 1 {
        PF_FRACS.to_vec()
      } else {
        vec![*rng.pick(PF_FRACS), 500_000_000]
      };
      for ns in fracs {
        let d = if mask & 16 != 0 { *rng.pick(&[1u64, 2, 30, 365, 100_000]) } else { 0 };
        let h = if mask & 8 != 0 { 1 + rng.below(23) as u32 } else { 0 };
        let m = if mask & 4 != 0 { 1 + rng.below(59) as u32 } else { 0 };
        let s = if mask & 2 != 0 { 1 + rng.below(59) as u32 } else { 0 };
        canon("xsd:duration", dt_text(neg, d, h, m, s, ns), true, false);
      }
    }
  }
  canon("xsd:duration", "PT0S".into(), true, false);
  // years-and-months durations: every subset, both signs, the zero
  for (y, m) in [(0u64, 0u32), (1, 0), (0, 1), (0, 11), (1, 1), (1, 11), (100, 0), (999_999, 11)] {
    for neg in [false, true] {
      if neg && y == 0 && m == 0 {
        continue;
      }
      canon("xsd:duration", ym_text(neg, y, m), true, false);
    }
  }
  // random durations of both kinds
  for _ in 0..random {
    let neg = rng.chance(1, 2);
    if rng.chance(1, 4) {
      canon("xsd:duration", ym_text(neg, rng.below(3) * rng.below(1000), rng.below(12) as u32), true, false);
    } else {
      let z = |rng: &mut Rng, n: u64| if rng.chance(1, 2) { 0 } else { rng.below(n) };
      let ns = if rng.chance(1, 2) { 0 } else if rng.chance(1, 2) { *rng.pick(PF_FRACS) } else { rng.below(1_000_000_000) as u32 };
      canon("xsd:duration", dt_text(neg, z(rng, 1000), z(rng, 24) as u32, z(rng, 60) as u32, z(rng, 60) as u32, ns), true, false);
    }
  }
  // times: every subset of zero components, fractions alone, every kind of zone (offsets of seconds included)
  let zones: &[(&str, bool)] = &[("", false), ("Z", false), ("+01:00", false), ("-01:00", false), ("+05:30", false), ("-00:30", false), ("+14:00", false), ("-14:00", false), ("+01:00:30", true), ("-00:00:01", true), ("+00:00:59", true), ("-13:59:59", true)];
  for (h, m, s) in [(0u32, 0u32, 0u32), (0, 0, 1), (0, 1, 0), (1, 0, 0), (23, 59, 59), (12, 0, 0), (10, 20, 30), (0, 59, 0)] {
    for ns in [0u32, 500_000_000, 1, 999_999_999, 120_000_000] {
      for (zone, refuse) in zones {
        if !(ns == 0 || zone.is_empty() || *zone == "Z" || h == 0) {
          continue;
        }
        canon("xsd:time", time_text(h, m, s, ns, zone), true, *refuse);
      }
    }
  }
  for zone in ["@Europe/Warsaw", "@Etc/UTC", "@America/New_York", "@Asia/Kolkata"] {
    for ns in [0u32, 500_000_000] {
      canon("xsd:time", time_text(0, 0, 0, ns, zone), false, true);
    }
  }
  // date-times at the two ends of a year (local date and UTC date in different years with the offsets)
  for y in [1000u32, 1582, 1999, 2000, 2021, 2024, 9998] {
    for (md, h, m, s, nss) in [("12-31", 23u32, 59u32, 59u32, &[0u32, 999_999_999, 500_000_000][..]), ("01-01", 0, 0, 0, &[0u32, 1, 500_000_000][..]), ("02-28", 23, 59, 59, &[0u32][..]), ("03-01", 0, 0, 0, &[0u32][..])] {
      for ns in nss {
        for (zone, refuse) in zones {
          if y != 2021 && !(zone.is_empty() || *zone == "Z" || *zone == "-14:00" || *zone == "+14:00") {
            continue;
          }
          canon("xsd:dateTime", format!("{:04}-{}T{}", y, md, time_text(h, m, s, *ns, zone)), true, *refuse);
        }
      }
    }
  }
  canon("xsd:dateTime", "9999-12-31T23:59:59.999999999".into(), true, false);
  canon("xsd:dateTime", "1000-01-01T00:00:00.000000001".into(), true, false);
  for t in ["2021-12-31", "2022-01-01", "2020-02-29", "2000-12-31", "1000-01-01", "9999-12-31"] {
    canon("xsd:date", t.to_string(), true, false);
  }
  // other spellings of the same values: the value comes back, in whatever spelling
  for t in [
    "-PT0S", "-P0D", "P0D", "PT0H", "PT0M", "PT0.0S", "-PT0.0S", "PT0.000000000S", "P0DT0H0M0S", "-P0DT0H0M0.5S", "-PT0.50S", "-PT0.500000000S", "PT0.5000S", "-PT0M0.5S", "-PT0H0.25S", "-P0DT0.000000001S", "PT30M0.5S", "PT90S", "PT3600S", "PT86400S",
    "PT24H", "PT60M", "-PT60S", "-PT0.999999999S", "PT59.999999999S", "-PT1.000000001S", "P1DT0H", "P1DT0S", "PT1M0S", "PT01S", "PT1.50S", "P0Y", "-P0M", "-P0Y", "P0Y0M", "P12M", "P13M", "P1Y12M", "P0Y5M", "P1Y0M", "-P0Y11M", "P01Y",
  ] {
    out.push(Pf { typ: Some("xsd:duration"), kind: "xsd:duration", text: t.to_string(), feel: pf_feel("xsd:duration", t), want: PfWant::Same, tck_may_refuse: false, may_be_null: false });
  }
  for t in ["12:00:00.500", "12:00:00.0", "00:00:00.000000000", "00:00:00.50Z", "12:00:00+00:00", "12:00:00-00:00", "00:00:00.5+00:00", "23:59:59.9990"] {
    out.push(Pf { typ: Some("xsd:time"), kind: "xsd:time", text: t.to_string(), feel: pf_feel("xsd:time", t), want: PfWant::Same, tck_may_refuse: false, may_be_null: false });
  }
  for t in ["2021-12-31T23:59:59.500", "2022-01-01T00:00:00.0", "2021-12-31T23:59:59+00:00", "2021-12-31T23:59:59.50-00:00", "2022-01-01T00:00:00.000000000Z"] {
    out.push(Pf { typ: Some("xsd:dateTime"), kind: "xsd:dateTime", text: t.to_string(), feel: pf_feel("xsd:dateTime", t), want: PfWant::Same, tck_may_refuse: false, may_be_null: false });
  }
  // values that are computed: the expectation is the arithmetic of the written operands
  for (feel, kind, text) in [
    ("time(\"10:00:00\") - time(\"10:00:00.5\")", "xsd:duration", "-PT0.5S"),
    ("time(\"10:00:00.5\") - time(\"10:00:00\")", "xsd:duration", "PT0.5S"),
    ("date and time(\"2021-12-31T23:59:59.75\") - date and time(\"2022-01-01T00:00:00\")", "xsd:duration", "-PT0.25S"),
    ("date and time(\"2022-01-01T00:00:00\") - date and time(\"2021-12-31T23:59:59.999999999\")", "xsd:duration", "PT0.000000001S"),
    ("date and time(\"2021-12-31T23:59:59.999999999\") - date and time(\"2022-01-01T00:00:00\")", "xsd:duration", "-PT0.000000001S"),
    ("-duration(\"PT0.5S\")", "xsd:duration", "-PT0.5S"),
    ("-duration(\"-PT0.5S\")", "xsd:duration", "PT0.5S"),
    ("duration(\"PT0.5S\") - duration(\"PT1S\")", "xsd:duration", "-PT0.5S"),
    ("duration(\"-PT1S\") + duration(\"PT0.75S\")", "xsd:duration", "-PT0.25S"),
    ("duration(\"-PT1S\") / 4", "xsd:duration", "-PT0.25S"),
    ("duration(\"PT1S\") * -0.5", "xsd:duration", "-PT0.5S"),
    ("abs(duration(\"-PT0.5S\"))", "xsd:duration", "PT0.5S"),
    ("duration(\"PT0.5S\") - duration(\"PT0.5S\")", "xsd:duration", "PT0S"),
    ("duration(\"-PT0.5S\") * 0", "xsd:duration", "PT0S"),
    ("duration(\"P1M\") - duration(\"P1M\")", "xsd:duration", "P0M"),
    ("duration(\"P1Y\") - duration(\"P13M\")", "xsd:duration", "-P1M"),
    ("-duration(\"P0M\")", "xsd:duration", "P0M"),
    ("date and time(\"2021-12-31T23:59:59.999999999\") + duration(\"PT0.000000001S\")", "xsd:dateTime", "2022-01-01T00:00:00"),
    ("date and time(\"2022-01-01T00:00:00\") - duration(\"PT0.000000001S\")", "xsd:dateTime", "2021-12-31T23:59:59.999999999"),
    ("date and time(\"2022-01-01T00:00:00\") + duration(\"-PT0.5S\")", "xsd:dateTime", "2021-12-31T23:59:59.5"),
    ("time(\"00:00:00\") - duration(\"PT0.5S\")", "xsd:time", "23:59:59.5"),
    ("time(\"23:59:59.5\") + duration(\"PT0.5S\")", "xsd:time", "00:00:00"),
    ("time(\"00:00:00\") + duration(\"-PT0.000000001S\")", "xsd:time", "23:59:59.999999999"),
  ] {
    out.push(Pf { typ: None, kind, text: text.to_string(), feel: vec![feel.to_string()], want: PfWant::Text(text.to_string()), tck_may_refuse: false, may_be_null: true });
  }
  out
}

const SIG_PF_JSONIFY: &str = "printed-forms: jsonify of a temporal value is not the JSON string of the value as written";
const SIG_PF_TCK: &str = "printed-forms: a typed temporal TCK value does not come back as the value that was sent";
const SIG_PF_FEEL: &str = "printed-forms: a temporal value written in FEEL does not come back in the data member as written";
const SIG_PF_ANSWER: &str = "printed-forms: a temporal value is not answered with a JSON document that has the data or the errors member";

fn run_printed_forms(cfg: &Cfg, rep: &mut Report, rng: &mut Rng, svc: &Service, server: &mut Server, m: &MDef) {
  let js = Some("application/json");
  let cases = printed_form_cases(rng, if cfg.tier == "thorough" { 4000 } else { 150 });
  rep.extra.insert("printed_forms_cases".into(), json!(cases.len()));
  let fits = |c: &Pf, got: &str| match &c.want {
    PfWant::Text(t) => got == t,
    PfWant::Same => pf_same(c.kind, &c.text, got),
  };
  let wanted = |c: &Pf| match &c.want {
    PfWant::Text(t) => format!("{:?}", t),
    PfWant::Same => format!("a text denoting the same {} as {:?}", c.kind, c.text),
  };
  // in-process: jsonify of the evaluated FEEL text
  for c in &cases {
    for fe in &c.feel {
      rep.case(&format!("printed|jsonify|{}", fe), true);
      rep.hit(&format!("printed:jsonify:{}", c.kind));
      let got = guarded(|| eval_feel(fe).map(|v| v.jsonify())).ok().flatten();
      if c.may_be_null && got.as_deref() == Some("null") {
        rep.hit("printed:computed value is null (the evaluator has no value for the operation: C15's subject)");
        rep.notes.push(format!("printed-forms: {} evaluates to null (nothing claimed here; written expectation {})", fe, wanted(c)));
        continue;
      }
      let ok = match &got {
        Some(t) => matches!(strict_parse(t), Ok(J::Str(s)) if fits(c, &s)),
        None => false,
      };
      if !ok {
        rep.disagree(Kind::ImplVsSpec, "printed-forms", SIG_PF_JSONIFY, &format!("jsonify of the value of {}", fe), &format!("{:?}", got), &wanted(c));
      }
    }
  }
  // through the service
  let setup = [("/definitions/clear", String::new()), ("/definitions/add", svc.content_json(&Content::Model(m.clone()))), ("/definitions/deploy", String::new())];
  for (path, body) in setup {
    if let Err(e) = http(server.port, "POST", path, js, body.as_bytes()) {
      rep.disagree(Kind::ImplVsSpec, "http", "the service stopped answering", path, &e, "an answer");
      return;
    }
  }
  let simple = |typ: &str, text: &str| json!({"simple": {"type": typ, "text": text, "isNil": false}, "components": null, "list": null});
  let places = ["alone", "as the item of a list", "as a component"];
  let eval_path = format!("/evaluate/{}/E", path_segment(&m.name));
  for c in &cases {
    // route 1: TCK input
    if let Some(typ) = c.typ {
      for place in 0..3usize {
        let value = match place {
          0 => simple(typ, &c.text),
          1 => json!({"simple": null, "components": null, "list": {"items": [simple(typ, &c.text)], "isNil": false}}),
          _ => json!({"simple": null, "list": null, "components": [{"name": "a", "value": simple(typ, &c.text), "isNil": false}]}),
        };
        let body = json!({"model": m.name, "invocable": "E", "input": [{"name": "x", "value": value}]}).to_string();
        let input = format!("typed value {} {:?} sent {} ;; POST /tck/evaluate {}", typ, c.text, places[place], body);
        rep.case(&format!("printed|tck|{}|{}|{}", typ, c.text, place), true);
        rep.hit(&format!("printed:tck:{}:{}", typ, if matches!(c.want, PfWant::Text(_)) { "normal form" } else { "other spelling" }));
        let a = match http(server.port, "POST", "/tck/evaluate", js, body.as_bytes()) {
          Ok(a) => a,
          Err(e) => {
            rep.disagree(Kind::ImplVsSpec, "printed-forms", SIG_PF_ANSWER, &input, &format!("{} (process alive: {})", e, server.alive()), "a JSON answer");
            if !server.alive() {
              return;
            }
            continue;
          }
        };
        let answer = String::from_utf8_lossy(&a.body).to_string();
        let j = match strict_parse(&answer) {
          Ok(j) if j.get("data").is_some() || matches!(j.get("errors"), Some(J::Arr(xs)) if !xs.is_empty()) => j,
          _ => {
            rep.disagree(Kind::ImplVsSpec, "printed-forms", SIG_PF_ANSWER, &input, &format!("{} {}", a.status, answer.chars().take(300).collect::<String>()), "{\"data\":…} or {\"errors\":[…]}");
            continue;
          }
        };
        if c.tck_may_refuse && j.get("errors").is_some() {
          rep.hit("printed:tck:refused (a form XML Schema does not have)");
          continue;
        }
        let v = j.get("data").and_then(|d| d.get("value")).and_then(|v| match place {
          0 => Some(v.clone()),
          1 => match v.get("list")?.get("items")? {
            J::Arr(xs) if xs.len() == 1 => Some(xs[0].clone()),
            _ => None,
          },
          _ => match v.get("components")? {
            J::Arr(xs) if xs.len() == 1 && xs[0].get("name") == Some(&J::Str("a".into())) => xs[0].get("value").cloned(),
            _ => None,
          },
        });
        let got = v.as_ref().and_then(|v| v.get("simple")).and_then(|s| match (s.get("type"), s.get("text")) {
          (Some(J::Str(t)), Some(J::Str(x))) => Some((t.clone(), x.clone())),
          _ => None,
        });
        if !matches!(&got, Some((t, x)) if t == typ && fits(c, x)) {
          let shown = match &got {
            Some((t, x)) => format!("{} {:?}", t, x),
            None => answer.chars().take(300).collect(),
          };
          rep.disagree(Kind::ImplVsSpec, "printed-forms", SIG_PF_TCK, &input, &shown, &format!("{} {}", typ, wanted(c)));
        }
      }
    }
    // route 2: FEEL text in the body of /evaluate
    for (fi, fe) in c.feel.iter().enumerate() {
      for place in 0..3usize {
        if fi > 0 && place > 0 {
          continue;
        }
        let body = match place {
          0 => format!("{{x: {}}}", fe),
          1 => format!("{{x: [{}]}}", fe),
          _ => format!("{{x: {{a: {}}}}}", fe),
        };
        let input = format!("POST {} {}", eval_path, body);
        rep.case(&format!("printed|feel|{}|{}", fe, place), true);
        rep.hit(&format!("printed:evaluate:{}:{}", c.kind, places[place]));
        let a = match http(server.port, "POST", &eval_path, Some("text/plain"), body.as_bytes()) {
          Ok(a) => a,
          Err(e) => {
            rep.disagree(Kind::ImplVsSpec, "printed-forms", SIG_PF_ANSWER, &input, &format!("{} (process alive: {})", e, server.alive()), "a JSON answer");
            if !server.alive() {
              return;
            }
            continue;
          }
        };
        let answer = String::from_utf8_lossy(&a.body).to_string();
        let got = strict_parse(&answer).ok().and_then(|j| {
          let d = j.get("data")?.clone();
          match place {
            0 => Some(d),
            1 => match d {
              J::Arr(xs) if xs.len() == 1 => Some(xs[0].clone()),
              _ => None,
            },
            _ => match &d {
              J::Obj(ms) if ms.len() == 1 => d.get("a").cloned(),
              _ => None,
            },
          }
        });
        if c.may_be_null && got == Some(J::Null) {
          continue;
        }
        if !matches!(&got, Some(J::Str(s)) if fits(c, s)) {
          rep.disagree(Kind::ImplVsSpec, "printed-forms", SIG_PF_FEEL, &input, &answer.chars().take(300).collect::<String>(), &format!("data: {} ({})", wanted(c), places[place]));
        }
      }
    }
  }
}

// ------------------------------------------------------------------------------------------
// family `endpoints`: the two evaluation endpoints (`POST /evaluate/{model}/{invocable}` and
// `POST /tck/evaluate`) side by side along a directed history. After every definitions operation
// both endpoints are asked about both models. Expectation (written out per step below, from the
// property text: evaluation is possible exactly for the models present at the last deploy, no
// modification having happened since — a rejected request is no modification): `data` with the
// value sent where evaluation is possible, the `errors` member otherwise. The details of the error
// (which of the handler's tests failed: `Dmn.Server.do_evaluate`, `do_evaluate_tck`; theorems
// `evaluate_error_cases`, `tck_evaluate_refines`) are the tie.
// ------------------------------------------------------------------------------------------

const SIG_EP_VALUE: &str = "endpoints: an evaluation endpoint does not answer the value for a model present at the last deploy with no modification since";
const SIG_EP_ERRORS: &str = "endpoints: an evaluation endpoint does not answer in the errors member for a model that cannot be evaluated";
const SIG_EP_PARAMS: &str = "endpoints: an evaluation request without a parameter is not answered in the errors member";

fn run_endpoints(rep: &mut Report, svc: &Service, server: &mut Server, models: &[MDef]) {
  let js = Some("application/json");
  let (m1, m3) = (&models[0], &models[4]);
  let simple = |typ: &str, text: &str| json!({"simple": {"type": typ, "text": text, "isNil": false}, "components": null, "list": null});
  let add = |m: &MDef| ("/definitions/add", svc.content_json(&Content::Model(m.clone())));
  let remove = |m: &MDef| ("/definitions/remove", json!({"namespace": m.ns, "name": m.name}).to_string());
  // (operation, body, the operation is answered with data?, n1 can be evaluated afterwards, n3 can)
  let steps: Vec<(&str, (&str, String), bool, bool, bool)> = vec![
    ("clear", ("/definitions/clear", String::new()), true, false, false),
    ("add n1", add(m1), true, false, false),
    ("deploy", ("/definitions/deploy", String::new()), true, true, false),
    ("add n3", add(m3), true, false, false),
    ("deploy", ("/definitions/deploy", String::new()), true, true, true),
    ("add n1 again (rejected: a rejected request is no modification)", add(m1), false, true, true),
    ("add without content (rejected)", ("/definitions/add", "{}".to_string()), false, true, true),
    ("replace with invalid Base64 (rejected)", ("/definitions/replace", svc.content_json(&Content::Bad64)), false, true, true),
    ("remove without name (rejected)", ("/definitions/remove", json!({"namespace": m3.ns}).to_string()), false, true, true),
    ("remove n3", remove(m3), true, false, false),
    ("deploy", ("/definitions/deploy", String::new()), true, true, false),
    ("replace n1", ("/definitions/replace", svc.content_json(&Content::Model(m1.clone()))), true, false, false),
    ("deploy", ("/definitions/deploy", String::new()), true, true, false),
    ("deploy again", ("/definitions/deploy", String::new()), true, true, false),
    ("clear", ("/definitions/clear", String::new()), true, false, false),
    ("deploy (nothing stored)", ("/definitions/deploy", String::new()), true, false, false),
  ];
  let mut history = String::new();
  for (k, (what, (path, body), op_ok, can1, can3)) in steps.iter().enumerate() {
    history.push_str(&format!("{}{}", if k > 0 { "; " } else { "" }, what));
    let a = match http(server.port, "POST", path, js, body.as_bytes()) {
      Ok(a) => String::from_utf8_lossy(&a.body).to_string(),
      Err(e) => {
        rep.disagree(Kind::ImplVsSpec, "http", "the service stopped answering", &history, &e, "an answer");
        return;
      }
    };
    let aj = strict_parse(&a);
    let shape = match &aj {
      Ok(j) => if *op_ok { j.get("data").is_some() } else { j.get("errors").is_some() },
      Err(_) => false,
    };
    if !shape {
      rep.disagree(Kind::ImplVsSpec, "endpoints", "endpoints: a definitions request of the directed history is not answered as its outcome", &history, &a, if *op_ok { "{\"data\":…}" } else { "{\"errors\":[…]}" });
    }
    for (m, can) in [(m1, *can1), (m3, *can3)] {
      let n = 100 + k;
      let probes: [(&str, String, Option<&str>, String); 2] = [
        ("/evaluate", format!("/evaluate/{}/E", path_segment(&m.name)), Some("text/plain"), format!("{{x: {}}}", n)),
        ("/tck/evaluate", "/tck/evaluate".to_string(), js, json!({"model": m.name, "invocable": "E", "input": [{"name": "x", "value": simple("xsd:decimal", &n.to_string())}]}).to_string()),
      ];
      for (ep, path, ct, body) in probes.iter() {
        let input = format!("after [{}]: POST {} {}", history, path, body);
        rep.case(&format!("endpoints|{}|{}|{}", k, m.name, ep), true);
        rep.hit(&format!("endpoints:{}:{}", ep, if can { "can be evaluated" } else { "cannot be evaluated" }));
        let text = match http(server.port, "POST", path, *ct, body.as_bytes()) {
          Ok(a) => String::from_utf8_lossy(&a.body).to_string(),
          Err(e) => {
            rep.disagree(Kind::ImplVsSpec, "http", "the service stopped answering", &input, &e, "an answer");
            return;
          }
        };
        let j = strict_parse(&text).ok();
        if can {
          let ok = match (&j, *ep) {
            (Some(j), "/evaluate") => j.get("data") == Some(&J::Num(n.to_string())),
            (Some(j), _) => j.get("data").and_then(|d| d.get("value")).and_then(|v| v.get("simple")).and_then(|s| s.get("text")) == Some(&J::Str(n.to_string())),
            _ => false,
          };
          if !ok {
            rep.disagree(Kind::ImplVsSpec, "endpoints", SIG_EP_VALUE, &input, &text, &format!("data: the value {}", n));
          }
        } else {
          let details = j.as_ref().and_then(|j| match j.get("errors") {
            Some(J::Arr(xs)) if xs.len() == 1 => match xs[0].get("details") {
              Some(J::Str(d)) => Some(d.clone()),
              _ => None,
            },
            _ => None,
          });
          match details {
            None => rep.disagree(Kind::ImplVsSpec, "endpoints", SIG_EP_ERRORS, &input, &text, "{\"errors\":[{\"details\":…}]}"),
            Some(d) => {
              let want = format!("WorkspaceError: model evaluator for definitions '{}' is not deployed", m.name);
              if d != want {
                rep.disagree(Kind::ImplVsModel, "endpoints", "endpoints: the error of an evaluation that is not possible differs from the handler model", &input, &d, &want);
              }
            }
          }
        }
      }
    }
  }
  // the tests of the handlers on their parameters, in their order (the model is not deployed now: a missing
  // parameter and an unreadable input are reported before the workspace is asked)
  let no_param: Vec<(&str, &str, Option<&str>, String, &str)> = vec![
    ("tck: no model", "/tck/evaluate", js, json!({"invocable": "E", "input": []}).to_string(), "ServerError: missing parameter 'model'"),
    ("tck: no model, no invocable", "/tck/evaluate", js, json!({"input": []}).to_string(), "ServerError: missing parameter 'model'"),
    ("tck: no invocable", "/tck/evaluate", js, json!({"model": m1.name, "input": []}).to_string(), "ServerError: missing parameter 'invocable'"),
    ("tck: no invocable, no input", "/tck/evaluate", js, json!({"model": m1.name}).to_string(), "ServerError: missing parameter 'invocable'"),
    ("tck: no input", "/tck/evaluate", js, json!({"model": m1.name, "invocable": "E"}).to_string(), "ServerError: missing parameter 'input'"),
    ("tck: not deployed", "/tck/evaluate", js, json!({"model": m1.name, "invocable": "E", "input": []}).to_string(), "WorkspaceError: model evaluator for definitions 'n1' is not deployed"),
  ];
  for (what, path, ct, body, want) in no_param.iter() {
    let input = format!("{}: POST {} {}", what, path, body);
    rep.case(&format!("endpoints|params|{}", what), true);
    rep.hit("endpoints:parameter tests");
    match http(server.port, "POST", path, *ct, body.as_bytes()) {
      Ok(a) => {
        let text = String::from_utf8_lossy(&a.body).to_string();
        let details = strict_parse(&text).ok().and_then(|j| match j.get("errors") {
          Some(J::Arr(xs)) if xs.len() == 1 => match xs[0].get("details") {
            Some(J::Str(d)) => Some(d.clone()),
            _ => None,
          },
          _ => None,
        });
        match details {
          None => rep.disagree(Kind::ImplVsSpec, "endpoints", SIG_EP_PARAMS, &input, &text, "{\"errors\":[{\"details\":…}]}"),
          Some(d) if d != *want => rep.disagree(Kind::ImplVsModel, "endpoints", "endpoints: the error of a request without a parameter differs from the handler model", &input, &d, want),
          _ => {}
        }
      }
      Err(e) => rep.disagree(Kind::ImplVsSpec, "http", "the service stopped answering", &input, &e, "an answer"),
    }
  }
  // an input that cannot be converted is reported whether or not the model is deployed (the conversion comes first)
  for deployed in [false, true] {
    if deployed {
      for (path, body) in [add(m1), ("/definitions/deploy", String::new())] {
        let _ = http(server.port, "POST", path, js, body.as_bytes());
      }
    }
    let probes: [(&str, String, Option<&str>, String); 2] = [
      ("/evaluate", format!("/evaluate/{}/E", path_segment(&m1.name)), Some("text/plain"), "{x: ".to_string()),
      ("/tck/evaluate", "/tck/evaluate".to_string(), js, json!({"model": m1.name, "invocable": "E", "input": [{"name": "x", "value": simple("xsd:decimal", "12abc")}]}).to_string()),
    ];
    for (ep, path, ct, body) in probes.iter() {
      let input = format!("unreadable input, model {}: POST {} {}", if deployed { "deployed" } else { "not deployed" }, path, body);
      rep.case(&format!("endpoints|unreadable|{}|{}", ep, deployed), true);
      rep.hit("endpoints:unreadable input");
      match http(server.port, "POST", path, *ct, body.as_bytes()) {
        Ok(a) => {
          let text = String::from_utf8_lossy(&a.body).to_string();
          let details = strict_parse(&text).ok().and_then(|j| match j.get("errors") {
            Some(J::Arr(xs)) if xs.len() == 1 => match xs[0].get("details") {
              Some(J::Str(d)) => Some(d.clone()),
              _ => None,
            },
            _ => None,
          });
          match details {
            None => rep.disagree(Kind::ImplVsSpec, "endpoints", SIG_EP_ERRORS, &input, &text, "{\"errors\":[{\"details\":…}]}"),
            Some(d) if d.contains("is not deployed") => rep.disagree(Kind::ImplVsModel, "endpoints", "endpoints: an unreadable input is not reported before the workspace is asked", &input, &d, "the message of the conversion"),
            _ => {}
          }
        }
        Err(e) => rep.disagree(Kind::ImplVsSpec, "http", "the service stopped answering", &input, &e, "an answer"),
      }
    }
  }
}

// ================================================================================================
// m18 BEGIN — family `spellings` (wave-9 change C18-20): the same content written into the body of
// `POST /evaluate/<model>/E` in BOTH spellings the handler documents ("input values may be defined in JSON or FEEL
// context format"): strict JSON (quoted keys, JSON escapes, JSON numbers) and FEEL context syntax (names without
// quotation marks, FEEL escapes, `(-n)`), through the echo invocable `E`.  C18: "evaluation results are rendered so that
// strings …, numbers, booleans, nulls, lists and contexts decode to the evaluated value" and "the evaluate endpoints
// behave as the same sequence of workspace operations": the value evaluated is the value the body denotes, so the data
// member must decode to the value WRITTEN INTO THE BODY.  Written-out oracle: the generated value itself (`G`) — numbers
// are the digits sent, compared as decimal numbers by `num_norm`; no answer of the code is consulted.  Numbers: 1..34
// significant digits (a FEEL number holds 34, a binary double about 16), fractions, leading / trailing zeros, integers
// around 2^53, 2^63, 2^64, 2^100, negative, at any depth; exponent forms (`1e2`, `1e400`, `1E-400`: the FEEL lexer has no
// exponent, so a rejection is accepted for these — data, if given, must still be the number sent).  Strings and keys over
// the alphabet of `gen_string` with every JSON escape (`\" \\ \/ \b \f \n \r \t \uXXXX`, surrogate pairs).  Known
// observation on the unchanged tree (seeded/C18-notes-wave9.md): the FEEL lexer keeps `\/`, `\b`, `\f` as written; a
// JSON body that uses one of these three is sent, its numbers and structure are compared, its strings are not asserted
// (counted under `spellings:known-escape-not-asserted`).

const SIG_SP_NUMBER: &str = "spellings: a number written into an /evaluate body does not come back as the number that was sent";
const SIG_SP_VALUE: &str = "spellings: a value written into an /evaluate body does not come back as the value that was sent";
const SIG_SP_ANSWER: &str = "spellings: an /evaluate body is not answered with a JSON document that has the data or the errors member";
const SIG_SP_REJECTED: &str = "spellings: an /evaluate body of plain literals is answered in the errors member";
const SIG_SP_DIFFER: &str = "spellings: the JSON spelling and the FEEL spelling of the same content are not answered alike";

/// Number texts in the JSON number grammar (also FEEL literals when `plain`): (text, plain decimal notation).
fn sp_number_corpus() -> Vec<(String, bool)> {
  let mut out: Vec<(String, bool)> = vec![];
  let digits = "1234567890123456789012345678901234";
  let nines = "9".repeat(34);
  let mut k = 0usize;
  let mut push = |out: &mut Vec<(String, bool)>, t: String| {
    k += 1;
    let zero = num_norm(&t).map(|n| n.1 == "0").unwrap_or(true);
    if k % 3 == 0 && !zero {
      out.push((format!("-{}", t), true));
    } else {
      out.push((t, true));
    }
  };
  for n in 1..=34usize {
    push(&mut out, digits[..n].to_string());
    push(&mut out, nines[..n].to_string());
    push(&mut out, format!("0.{}", &digits[..n]));
    push(&mut out, format!("0.000{}", &nines[..n]));
    let mut p = 1;
    while p < n {
      push(&mut out, format!("{}.{}", &digits[..p], &digits[p..n]));
      p += 3;
    }
  }
  for (bits, deltas) in [(53u32, [-1i128, 0, 1, 2]), (63, [-1, 0, 1, 2]), (64, [-1, 0, 1, 2]), (100, [-1, 0, 1, 3]), (112, [-1, 0, 1, 5])] {
    for d in deltas {
      let v = ((1u128 << bits) as i128 + d).to_string();
      out.push((v.clone(), true));
      out.push((format!("-{}", v), true));
      if v.len() < 34 {
        out.push((format!("{}.5", v), true));
      }
    }
  }
  for t in [
    "0", "0.0", "0.000", "1", "-1", "2.50", "-2.50", "12.5", "0.001", "0.1", "1234567890123", "100", "1200.00", "10000000000000000000", "100000000000000000000", "1000000000000000000000000000000",
    "1234567890.0123456789012345", "123456789012345678901234", "0.1000000000000000000001", "0.30000000000000004", "0.1000000000000000055511151231257827",
    "9007199254740993", "1.7976931348623157", "1.79769313486231570001", "4.9406564584124654", "18446744073709551615.00000000000001", "-9223372036854775809", "0.99999999999999999", "99999999999999999.9", "3.141592653589793238462643383279502",
  ] {
    out.push((t.to_string(), true));
  }
  for t in [
    "1e2", "1E2", "1E+2", "1e+2", "1.5e10", "2.5E-3", "-1e2", "1e400", "1E400", "-1e400", "1E-400", "1e-400", "1e308", "1e309", "1.7976931348623159e308", "5e-324", "1e-325", "0e0", "0E-10", "1e0", "12e-1",
    "1234567890123456789012345678901234e-20", "1.234567890123456789012345678901234E+20", "123456789012345678901e3", "1e6144", "1e-6143", "1e7000",
  ] {
    out.push((t.to_string(), false));
  }
  out
}

/// A plain decimal literal of 1..34 significant digits (half of them beyond the 17 a binary double tells apart).
fn sp_number(rng: &mut Rng) -> String {
  let n = if rng.chance(1, 2) { 1 + rng.below(17) } else { 17 + rng.below(18) };
  let d = gen_digits(rng, n, 1);
  let n = d.len();
  let t = match rng.below(6) {
    0 | 1 => d,
    2 | 3 if n > 1 => {
      let p = 1 + rng.below(n as u64 - 1) as usize;
      format!("{}.{}", &d[..p], &d[p..])
    }
    4 => format!("0.{}{}", "0".repeat(rng.below(8) as usize), d),
    5 => format!("{}{}", d, "0".repeat(rng.below(12) as usize)),
    _ => format!("{}.0", d),
  };
  if rng.chance(1, 3) {
    format!("-{}", t)
  } else {
    t
  }
}

fn sp_key(rng: &mut Rng) -> String {
  if rng.chance(1, 3) {
    return (*rng.pick(&["a", "b", "ab", "Z9", "k_1", "Payload", "x", "aZ", "b0b"])).to_string();
  }
  let mut key = gen_string(rng, true).trim().to_string();
  if key.chars().count() > 12 {
    key = key.chars().take(12).collect::<String>().trim().to_string();
  }
  if key.is_empty() {
    key = "k".to_string();
  }
  key
}

fn sp_value(rng: &mut Rng, depth: u32) -> G {
  let k = if depth == 0 { rng.below(7) } else { rng.below(12) };
  match k {
    0 => G::Null,
    1 => G::Bool(rng.chance(1, 2)),
    2..=4 => G::Num(sp_number(rng)),
    5 | 6 => G::Str(gen_string(rng, true)),
    7..=9 => {
      let n = rng.below(5);
      G::List((0..n).map(|_| sp_value(rng, depth - 1)).collect())
    }
    _ => {
      let n = rng.below(5);
      let mut es: Vec<(String, G)> = vec![];
      for _ in 0..n {
        let key = sp_key(rng);
        if es.iter().any(|(k, _)| *k == key) {
          continue;
        }
        es.push((key, sp_value(rng, depth - 1)));
      }
      G::Ctx(es)
    }
  }
}

fn sp_hex4(rng: &mut Rng, u: u32) -> String {
  if rng.chance(1, 2) {
    format!("\\u{:04X}", u)
  } else {
    format!("\\u{:04x}", u)
  }
}

/// A JSON string token denoting `s`, every character in one of the forms RFC 8259 gives it. `known`: may use (and
/// counts the uses of) the three short escapes `\/`, `\b`, `\f` of the known observation.
fn sp_json_string(rng: &mut Rng, s: &str, known: Option<&mut u32>) -> String {
  let mut used = 0u32;
  let allow = known.is_some();
  let mut out = String::from("\"");
  for c in s.chars() {
    let u = c as u32;
    let short: Option<&str> = match c {
      '"' => Some("\\\""),
      '\\' => Some("\\\\"),
      '\n' => Some("\\n"),
      '\r' => Some("\\r"),
      '\t' => Some("\\t"),
      _ => None,
    };
    let known_short: Option<&str> = match c {
      '/' => Some("\\/"),
      '\u{8}' => Some("\\b"),
      '\u{c}' => Some("\\f"),
      _ => None,
    };
    if let Some(e) = short {
      if rng.chance(3, 4) {
        out.push_str(e);
      } else {
        out.push_str(&sp_hex4(rng, u));
      }
    } else if known_short.is_some() && allow && rng.chance(1, 3) {
      out.push_str(known_short.unwrap());
      used += 1;
    } else if u < 0x20 {
      out.push_str(&sp_hex4(rng, u));
    } else if u > 0xffff {
      if rng.chance(1, 2) {
        out.push(c);
      } else {
        let v = u - 0x10000;
        out.push_str(&sp_hex4(rng, 0xd800 + (v >> 10)));
        out.push_str(&sp_hex4(rng, 0xdc00 + (v & 0x3ff)));
      }
    } else if (u >= 0x7f && rng.chance(1, 2)) || rng.chance(1, 12) {
      out.push_str(&sp_hex4(rng, u));
    } else {
      out.push(c);
    }
  }
  out.push('"');
  if let Some(k) = known {
    *k += used;
  }
  out
}

/// A FEEL string literal denoting `s` (escapes of the FEEL lexer: `\' \" \\ \n \r \t \uXXXX \UXXXXXX`).
fn sp_feel_string(rng: &mut Rng, s: &str) -> String {
  let mut out = String::from("\"");
  for c in s.chars() {
    let u = c as u32;
    match c {
      '"' => out.push_str("\\\""),
      '\\' => out.push_str("\\\\"),
      '\n' if rng.chance(1, 2) => out.push_str("\\n"),
      '\r' if rng.chance(1, 2) => out.push_str("\\r"),
      '\t' if rng.chance(1, 2) => out.push_str("\\t"),
      '\'' if rng.chance(1, 2) => out.push_str("\\'"),
      _ if u < 0x20 || (u >= 0x7f && rng.chance(1, 2)) => {
        if u <= 0xffff && rng.chance(3, 4) {
          out.push_str(&format!("\\u{:04X}", u));
        } else {
          out.push_str(&format!("\\U{:06X}", u));
        }
      }
      _ => out.push(c),
    }
  }
  out.push('"');
  out
}

const SP_COMMAS: &[&str] = &[", ", ",", " , ", ",\n\t"];
const SP_COLONS: &[&str] = &[": ", ":", " : "];

/// The strict JSON spelling (quoted keys, JSON escapes, numbers as written).
fn sp_json(rng: &mut Rng, g: &G, known: &mut u32) -> String {
  match g {
    G::Null => "null".into(),
    G::Bool(b) => b.to_string(),
    G::Num(t) => t.clone(),
    G::Str(s) => sp_json_string(rng, s, Some(known)),
    G::List(xs) => {
      let sep = *rng.pick(SP_COMMAS);
      format!("[{}]", xs.iter().map(|x| sp_json(rng, x, known)).collect::<Vec<_>>().join(sep))
    }
    G::Ctx(es) => {
      let (sep, col) = (*rng.pick(SP_COMMAS), *rng.pick(SP_COLONS));
      format!("{{{}}}", es.iter().map(|(k, v)| format!("{}{}{}", sp_json_string(rng, k, None), col, sp_json(rng, v, known))).collect::<Vec<_>>().join(sep))
    }
    G::Expr(t) => t.clone(),
  }
}

/// The FEEL context spelling (names without quotation marks where the key is a name, FEEL escapes, `(-n)` or `-n`).
fn sp_feel(rng: &mut Rng, g: &G) -> String {
  match g {
    G::Null => "null".into(),
    G::Bool(b) => b.to_string(),
    G::Num(t) => match t.strip_prefix('-') {
      Some(r) if rng.chance(1, 2) => format!("(-{})", r),
      _ => t.clone(),
    },
    G::Str(s) => sp_feel_string(rng, s),
    G::List(xs) => {
      let sep = *rng.pick(SP_COMMAS);
      format!("[{}]", xs.iter().map(|x| sp_feel(rng, x)).collect::<Vec<_>>().join(sep))
    }
    G::Ctx(es) => {
      let (sep, col) = (*rng.pick(SP_COMMAS), *rng.pick(SP_COLONS));
      let key = |rng: &mut Rng, k: &str| {
        let name = k.chars().next().map(|c| c.is_ascii_alphabetic()).unwrap_or(false) && k.chars().all(|c| c.is_ascii_alphanumeric() || c == '_') && !matches!(k, "null" | "true" | "false" | "not" | "and" | "or" | "in" | "if" | "for");
        if name && rng.chance(2, 3) {
          k.to_string()
        } else {
          sp_feel_string(rng, k)
        }
      };
      format!("{{{}}}", es.iter().map(|(k, v)| format!("{}{}{}", key(rng, k), col, sp_feel(rng, v))).collect::<Vec<_>>().join(sep))
    }
    G::Expr(t) => t.clone(),
  }
}

/// The JSON document decodes to the value that was written (`strings`: string contents are asserted).
fn sp_same(g: &G, j: &J, strings: bool) -> Result<(), &'static str> {
  match (g, j) {
    (G::Null, J::Null) => Ok(()),
    (G::Bool(a), J::Bool(b)) if a == b => Ok(()),
    (G::Num(t), J::Num(l)) => {
      if num_norm(t).is_some() && num_norm(t) == num_norm(l) {
        Ok(())
      } else {
        Err(SIG_SP_NUMBER)
      }
    }
    (G::Num(_), _) => Err(SIG_SP_NUMBER),
    (G::Str(a), J::Str(b)) if !strings || a == b => Ok(()),
    (G::List(xs), J::Arr(ys)) if xs.len() == ys.len() => xs.iter().zip(ys.iter()).try_for_each(|(x, y)| sp_same(x, y, strings)),
    (G::Ctx(es), J::Obj(ms)) if es.len() == ms.len() => es.iter().try_for_each(|(k, v)| match ms.iter().find(|(mk, _)| mk == k) {
      Some((_, mv)) => sp_same(v, mv, strings),
      None => Err(SIG_SP_VALUE),
    }),
    _ => Err(SIG_SP_VALUE),
  }
}

fn sp_has_long_number(g: &G) -> bool {
  match g {
    G::Num(t) => num_norm(t).map(|n| n.1.len() > 15).unwrap_or(false),
    G::List(xs) => xs.iter().any(sp_has_long_number),
    G::Ctx(es) => es.iter().any(|(_, v)| sp_has_long_number(v)),
    _ => false,
  }
}

fn run_spellings(cfg: &Cfg, rep: &mut Report, rng: &mut Rng, svc: &Service, server: &mut Server, m: &MDef) {
  let js = Some("application/json");
  for (path, body) in [("/definitions/clear", String::new()), ("/definitions/add", svc.content_json(&Content::Model(m.clone()))), ("/definitions/deploy", String::new())] {
    if let Err(e) = http(server.port, "POST", path, js, body.as_bytes()) {
      rep.disagree(Kind::ImplVsSpec, "http", "the service stopped answering", path, &e, "an answer");
      return;
    }
  }
  let path = format!("/evaluate/{}/E", path_segment(&m.name));
  // (value written into the body, every number in plain decimal notation)
  let mut cases: Vec<(G, bool)> = vec![];
  for (i, (t, plain)) in sp_number_corpus().into_iter().enumerate() {
    let n = G::Num(t);
    let g = match i % 5 {
      0 | 1 => n,
      2 => G::List(vec![G::Num("1".into()), n, G::Str("a/b".into())]),
      3 => G::Ctx(vec![("Payload".into(), n), ("b".into(), G::Bool(true))]),
      _ => G::List(vec![G::Ctx(vec![("k 1".into(), G::List(vec![G::Null, G::Ctx(vec![("a".into(), G::List(vec![n]))])]))])]),
    };
    cases.push((g, plain));
  }
  // every escape of RFC 8259 and the constants, alone and nested
  let every: String = ESC_CHARS.iter().chain(PLAIN_CHARS.iter()).collect();
  for _ in 0..6 {
    cases.push((G::Str(every.clone()), true));
    cases.push((G::Ctx(vec![(every.trim().to_string(), G::List(vec![G::Str(every.clone()), G::Null, G::Bool(false), G::Bool(true)]))]), true));
  }
  for c in ESC_CHARS.iter().chain(['/', '\'', '\u{7f}', '\u{85}', '\u{2028}', '\u{2029}', '\u{ffff}', '\u{10000}', '🙏'].iter()) {
    for _ in 0..3 {
      cases.push((G::Str(format!("a{}b", c)), true));
    }
  }
  for g in [G::Null, G::Bool(true), G::Bool(false), G::List(vec![]), G::Ctx(vec![]), G::Str(String::new())] {
    cases.push((g, true));
  }
  let random = if cfg.tier == "thorough" { 20_000 } else { 500 };
  for _ in 0..random {
    let depth = rng.below(5) as u32;
    cases.push((sp_value(rng, depth), true));
  }
  rep.extra.insert("spellings_cases".into(), json!(cases.len()));
  enum Ans {
    Data(J),
    Errors,
    Bad,
  }
  for (g, plain) in &cases {
    let mut known = 0u32;
    let bodies = [("json", format!("{{\"x\"{}{}}}", *rng.pick(SP_COLONS), sp_json(rng, g, &mut known))), ("feel", format!("{{x{}{}}}", *rng.pick(SP_COLONS), sp_feel(rng, g)))];
    if known > 0 {
      rep.hit("spellings:known-escape-not-asserted");
      rep.extra.insert("spellings_known_escape_bodies".into(), json!(rep.extra.get("spellings_known_escape_bodies").and_then(|x| x.as_u64()).unwrap_or(0) + 1));
    }
    if sp_has_long_number(g) {
      rep.hit("spellings:number of more than 15 significant digits");
    }
    let wanted = format!("{{\"data\": {}}} (the value written into the body; numbers as decimal numbers)", to_feel(g));
    let mut kinds: Vec<(u8, String)> = vec![];
    let mut reported = false;
    for (spelling, body) in &bodies {
      let shown = format!("POST {} {}", path, body);
      rep.case(&shown, true);
      rep.hit(&format!("spellings:{}:{}", spelling, if *plain { "plain" } else { "exponent" }));
      let text = match http(server.port, "POST", &path, Some(if *spelling == "json" { "application/json" } else { "text/plain" }), body.as_bytes()) {
        Ok(a) => String::from_utf8_lossy(&a.body).to_string(),
        Err(e) => {
          rep.disagree(Kind::ImplVsSpec, "http", "the service stopped answering", &shown, &e, "an answer");
          return;
        }
      };
      let ans = match strict_parse(&text) {
        Ok(j) => match (j.get("data"), j.get("errors")) {
          (Some(d), None) => Ans::Data(d.clone()),
          (None, Some(_)) => Ans::Errors,
          _ => Ans::Bad,
        },
        Err(_) => Ans::Bad,
      };
      let got: String = text.chars().take(400).collect();
      match &ans {
        Ans::Bad => {
          reported = true;
          rep.disagree(Kind::ImplVsSpec, "spellings", SIG_SP_ANSWER, &shown, &got, "a JSON document with the data or the errors member");
        }
        Ans::Errors if *plain => {
          reported = true;
          rep.disagree(Kind::ImplVsSpec, "spellings", SIG_SP_REJECTED, &shown, &got, &wanted);
        }
        Ans::Errors => rep.hit(&format!("spellings:{}:exponent form rejected", spelling)),
        Ans::Data(d) => {
          let strings = !(*spelling == "json" && known > 0);
          match sp_same(g, d, strings) {
            Ok(()) => rep.hit(&format!("spellings:{}:echoed", spelling)),
            Err(sig) => {
              reported = true;
              rep.disagree(Kind::ImplVsSpec, "spellings", sig, &shown, &got, &wanted);
            }
          }
        }
      }
      kinds.push((
        match ans {
          Ans::Data(_) => 0,
          Ans::Errors => 1,
          Ans::Bad => 2,
        },
        got,
      ));
    }
    // both spellings of the same content are answered alike (data that passed the comparison above is the same value)
    if !reported && kinds.len() == 2 && kinds[0].0 != kinds[1].0 {
      rep.disagree(Kind::ImplVsSpec, "spellings", SIG_SP_DIFFER, &format!("POST {} {}  |  {}", path, bodies[0].1, bodies[1].1), &format!("json: {}  |  feel: {}", kinds[0].1, kinds[1].1), "the same answer to both");
    } else if !reported {
      rep.hit("spellings:both spellings answered alike");
    }
  }
}
// m18 END
