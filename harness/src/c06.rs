//! C06 — the parser builds the tree dictated by FEEL precedence and associativity.
//!
//! Implementation under test: `dmntk_feel_parser::parse_expression` / `parse_unary_tests`
//! (the committed LALR tables of `lalr.rs` driven by `parser.rs`, fed by `lexer.rs`) and, for
//! the gap family, the lexer alone (`verif::tokenize`).
//! Model: `Dmn.Ref.{print, parse, parseSurface, needsParens}` (reference precedence-climbing
//! parser and printers driven by the table regenerated from `feel.y`), `Dmn.Escape`
//! (the UTF-8 packing of `consume_unicode`) and `Dmn.GapLayout.skipGap` (`read_input`) through
//! the driver.
//!
//! Families
//!   corpus           fixed witnesses of past disagreements, first in every family
//!   pairs / triples  every (parent position, child kind) and (…, grandchild kind) over the 48 node
//!                    kinds of `Dmn.Ref.Tree` — the operator skeleton and if / for (list and range
//!                    domains, one and two contexts) / some / every / function definitions / list
//!                    and context literals / intervals in four spellings / unary tests / `in (…)` /
//!                    named parameters, each nested in each operand position of each other —
//!                    rendered by `Ref.print full|minimal`, and every member of `Ref.drops minimal`
//!                    (the minimal rendering with one needed pair of parentheses, at any depth,
//!                    removed); pairs completely in both tiers, triples completely in the
//!                    thorough tier
//!   random           random trees of the same language to depth 5 (quick) / 8 (thorough)
//!   layout           token-preserving layouts of the same renderings (white space of all
//!                    kinds, `//` and `/* */` comments), in strata: clean / two comments in a
//!                    row / comment right after a keyword / literal glued to `(` / comment between
//!                    the variable of for|some|every and `in` (F32) / comment between `function`
//!                    and `(` (F33); since the repair of F32 / F33 these two gaps are laid out
//!                    like every other gap in all strata as well
//!   gap              white space and 0-3 comments before a token: lexer vs `skipGap`
//!   keyword-gap      `function` / `list` / `range` / `context` ++ white space and 0-3 comments ++
//!                    a follower: `is_next_character` vs `GapLayout.nextIs`, and (closed comments)
//!                    the keyword is recognised exactly when the follower is the bracket
//!   flags            lexer flags that must not outlive their token: a conjunct with `date(`,
//!                    `time(`, `string(`, `number(` … after `(x instance of <named type>)` (L3);
//!                    `item` as the variable of for/some/every (L4)
//!   escape           every escape form (both digit cases) over boundary code points and a
//!                    stratified sample; simple escapes; malformed escapes
//!   string           every spelling of every string: the body of a literal as a sequence of pieces (raw character,
//!                    simple escape, `\uXXXX` / `\UXXXXXX` with digits in either case, surrogate pair, backslash
//!                    before a character that begins no escape = two ordinary characters): a backslash before
//!                    EVERY ASCII character and 22 others at the start / middle / end / alone / twice / after `\\`,
//!                    every character written as itself, every code point form next to hexadecimal digits, random
//!                    sequences of pieces; vertical space written as itself is refused; expectation written out
//!                    piece by piece, `Dmn.StringLit` (the Lean reading) and `Lexer.consumeString` asked as well
//!   wide             35 constructs that take a sequence (list items, arguments, named arguments, context entries,
//!                    formal parameters, in-lists, iteration / quantified contexts, unary tests, context and function
//!                    type entries, qualified names) or chain (every binary operator level, unary minus, path, filter,
//!                    invocation, nested parentheses / lists / contexts / else-if) at lengths 1 … 1025 (thorough:
//!                    … 5000) around every power of two, 99-101, 199-201, 1000: the flat tree written out
//!   line-comment-end a `//` comment ended by each vertical space character (U+000A … U+000D), CR LF, LF CR, CR CR and
//!                    by the end of the input: 16 fixed shapes per ending with written-out trees (the comment before an
//!                    operator, a keyword, a closing bracket, after a keyword, between the variable and `in`, between
//!                    `function` / `list` and the bracket, a vertical space inside a block comment, a comment opener
//!                    inside a line comment), a line comment with a random body and each ending in a random gap of a
//!                    share of the plain renderings of the other families (the tree must be the plain one), and the gap
//!                    skipper alone against `GapLayout.skipGap` (finding F71, repaired by 20fca88)
//!   between-interval an interval in each of the nine bracket spellings (the reversed ones leave the brackets of the
//!                    program unbalanced) as the lower bound of `between` — directly, in parentheses, as an argument,
//!                    a list item, inside a filter — and before / after a between clause: written-out trees
//!   signed-endpoint  a negative number (five spellings, `-` with and without a blank) as the start, the end or both
//!                    endpoints of an interval in all nine bracket spellings — alone, after `in`, as a list item, as
//!                    unary tests, in negated unary tests — and after `<` `<=` `>` `>=` as unary tests, after `in (`, in
//!                    an in-list: the expected tree (the endpoint is the negation of the number) is written out; the same
//!                    texts without the sign must parse (finding F72)
//!   extended         what is still outside `Dmn.Ref.Tree` (typed parameters, external bodies,
//!                    generic types, unary-tests start symbols) mixed with everything else:
//!                    print∘parse round trip on the real parser with the harness' own printer
//!                    (which is itself compared with `Ref.print` on every tree case)
//!
//! ImplVsSpec  = parse(print_full t) ≠ t, parse(print_minimal t) ≠ t, a needed pair removed and
//!               still the same tree, a layout changes the tree, an escape does not denote c.
//! ImplVsModel = the real parser's tree ≠ `Ref.parseSurface` of the same tokens; the escape
//!               or gap model disagrees with the lexer; `Ref.parse (Ref.print t) ≠ t`.
//!
//! `vharness C06 probe` reads expressions from stdin (prefix `UT:` for unary tests) and prints
//! what the real parser makes of them (a debugging aid; `\n` in a line stands for a line feed).

use crate::model::Model;
use crate::report::{Kind, Report};
use crate::rng::Rng;
use crate::sexp::Sexp;
use crate::util::guarded;
use crate::Cfg;
use dmntk_feel::values::Value;
use dmntk_feel::{AstNode, FeelType, Name, Scope};
use dmntk_feel_parser::VerifTokenType as TT;
use serde_json::json;

// ------------------------------------------------------------------------------------------
// signatures of known defects (known_findings.json matches on them).  SIG_SURROGATE (F10),
// SIG_TWO_COMMENTS (F20) and SIG_KEYWORD_COMMENT (F21) are repaired in /repo: their entries
// are `fixed`, so a recurrence is reported as a violation under the same, specific signature.
// ------------------------------------------------------------------------------------------

const SIG_BETWEEN: &str = "round trip fails: `and` or `between` inside the middle operand of between";
const SIG_PATH3: &str = "round trip fails: grouping parenthesis or list bracket followed by a path of three names";
const SIG_BUILTIN: &str = "round trip fails: built-in type name followed by a word or name symbol";
const SIG_SURROGATE: &str = "surrogate pair escape does not denote its code point";
const SIG_TWO_COMMENTS: &str = "layout changes the tree: two comments in a row between tokens";
const SIG_KEYWORD_COMMENT: &str = "layout changes the tree: comment directly after a keyword";
const SIG_LITERAL_PAREN: &str = "layout changes the tree: true/false/null directly followed by (";
const SIG_VAR_COMMENT: &str = "layout changes the tree: comment between the variable of for/some/every and `in`";
const SIG_FUNCTION_COMMENT: &str = "layout changes the tree: comment between `function` and (";
const SIG_TYPE_KEYWORD_COMMENT: &str = "layout changes the tree: comment between list/range/context/function and <";
const SIG_STALE_TYPE_NAME: &str = "parser rejects a type or conversion function name (date, time, string, number) after instance of a named type";
const SIG_ITEM_VARIABLE: &str = "parser rejects `item` as the variable of for/some/every";
const SIG_LINE_COMMENT_END: &str = "layout changes the tree: a line comment ended by a vertical space other than the line feed (U+000B, U+000C, U+000D)";
const SIG_LINE_COMMENT: &str = "layout changes the tree: a line comment (ended by a line feed or by the end of the input)";
const SIG_SIGNED_ENDPOINT: &str = "parser rejects a negative number as an interval endpoint or after the comparison sign of a unary test";

// ------------------------------------------------------------------------------------------
// alphabet
// ------------------------------------------------------------------------------------------

/// Single-word names, all bound in the parsing scope (token boundaries of unbound names
/// depend on the scope: that dimension is C10).
pub const NAMES: [&str; 10] = ["a", "b", "c", "d", "k", "m", "p", "q", "tA", "tB"];
/// Local variable names of for/some/every/function in the extended family (not bound outside).
const LOCALS: [&str; 3] = ["x", "y", "z"];
const LITS: [&str; 6] = ["true", "false", "null", "\"s\"", "\"x y\"", "@\"2021-01-01\""];

pub fn scope() -> Scope {
  let s = Scope::default();
  for n in NAMES {
    s.set_entry(&Name::from(n), Value::Null(None));
  }
  s
}

fn lit_ast(k: usize) -> AstNode {
  match k {
    0 => AstNode::Boolean(true),
    1 => AstNode::Boolean(false),
    2 => AstNode::Null,
    3 => AstNode::String("s".into()),
    4 => AstNode::String("x y".into()),
    _ => AstNode::At("2021-01-01".into()),
  }
}

fn name_ast(n: usize) -> AstNode {
  AstNode::Name(Name::from(NAMES[n]))
}

#[derive(Clone, Copy, Debug, PartialEq, Eq)]
pub enum Op {
  Or,
  And,
  Eq,
  Nq,
  Lt,
  Le,
  Gt,
  Ge,
  In,
  Add,
  Sub,
  Mul,
  Div,
  Exp,
}

pub const OPS: [Op; 14] = [Op::Or, Op::And, Op::Eq, Op::Nq, Op::Lt, Op::Le, Op::Gt, Op::Ge, Op::In, Op::Add, Op::Sub, Op::Mul, Op::Div, Op::Exp];

impl Op {
  fn name(self) -> &'static str {
    match self {
      Op::Or => "or",
      Op::And => "and",
      Op::Eq => "eq",
      Op::Nq => "nq",
      Op::Lt => "lt",
      Op::Le => "le",
      Op::Gt => "gt",
      Op::Ge => "ge",
      Op::In => "in",
      Op::Add => "add",
      Op::Sub => "sub",
      Op::Mul => "mul",
      Op::Div => "div",
      Op::Exp => "exp",
    }
  }
  fn of_name(s: &str) -> Option<Op> {
    OPS.iter().copied().find(|o| o.name() == s)
  }
}

/// The operator skeleton (mirrors `Dmn.Ref.Tree`).
#[derive(Clone, Debug, PartialEq)]
pub enum T {
  Name(usize),
  Num(usize),
  Lit(usize),
  Bin(Op, Box<T>, Box<T>),
  Neg(Box<T>),
  Between(Box<T>, Box<T>, Box<T>),
  Inst(Box<T>, usize, Vec<usize>),
  Path(Box<T>, usize),
  Filter(Box<T>, Box<T>),
  Call(Box<T>, Vec<T>),
  /// `f(n: v, …)`, at least one
  CallNamed(Box<T>, Vec<(usize, T)>),
  /// `e in (a, b, …)`, at least two
  InList(Box<T>, Vec<T>),
  If(Box<T>, Box<T>, Box<T>),
  /// iteration contexts (at least one) and the body
  For(Vec<Iter>, Box<T>),
  /// every?, quantified contexts (at least one), body
  Quant(bool, Vec<(usize, T)>, Box<T>),
  Fn(Vec<usize>, Box<T>),
  List(Vec<T>),
  Ctx(Vec<(Key, T)>),
  Range(Bra, End, End, Bra),
  UTest(Cmp, End),
}

#[derive(Clone, Debug, PartialEq)]
pub enum Iter {
  Single(usize, T),
  Range(usize, T, T),
}

#[derive(Clone, Copy, Debug, PartialEq)]
pub enum Key {
  Name(usize),
  Str(usize),
}

#[derive(Clone, Debug, PartialEq)]
pub enum End {
  Qn(Vec<usize>),
  Num(usize),
  Lit(usize),
}

#[derive(Clone, Copy, Debug, PartialEq)]
pub enum Bra {
  Round,
  Rev,
  Square,
}

#[derive(Clone, Copy, Debug, PartialEq)]
pub enum Cmp {
  Lt,
  Le,
  Gt,
  Ge,
}

impl Bra {
  fn name(self) -> &'static str {
    match self {
      Bra::Round => "round",
      Bra::Rev => "rev",
      Bra::Square => "square",
    }
  }
  fn of_name(s: &str) -> Option<Bra> {
    [Bra::Round, Bra::Rev, Bra::Square].into_iter().find(|b| b.name() == s)
  }
}

impl Cmp {
  fn name(self) -> &'static str {
    match self {
      Cmp::Lt => "lt",
      Cmp::Le => "le",
      Cmp::Gt => "gt",
      Cmp::Ge => "ge",
    }
  }
  fn of_name(s: &str) -> Option<Cmp> {
    [Cmp::Lt, Cmp::Le, Cmp::Gt, Cmp::Ge].into_iter().find(|b| b.name() == s)
  }
}

impl End {
  fn sexp(&self) -> Sexp {
    match self {
      End::Qn(qs) => Sexp::tagged("q", qs.iter().map(|n| Sexp::int(*n)).collect()),
      End::Num(n) => Sexp::tagged("u", vec![Sexp::int(*n)]),
      End::Lit(n) => Sexp::tagged("l", vec![Sexp::int(*n)]),
    }
  }
  fn of_sexp(s: &Sexp) -> Option<End> {
    let l = s.as_list()?;
    let nat = |x: &Sexp| x.as_atom().and_then(|a| a.parse::<usize>().ok());
    Some(match l.first()?.as_atom()? {
      "q" if l.len() >= 2 => End::Qn(l[1..].iter().map(nat).collect::<Option<Vec<_>>>()?),
      "u" if l.len() == 2 => End::Num(nat(&l[1])?),
      "l" if l.len() == 2 => End::Lit(nat(&l[1])?),
      _ => return None,
    })
  }
  /// `endpoint`: a qualified name or a simple literal (parser.rs:1105-1125, 935-975)
  fn ast(&self) -> AstNode {
    match self {
      End::Qn(qs) => AstNode::QualifiedName(qs.iter().map(|n| AstNode::QualifiedNameSegment(Name::from(NAMES[*n]))).collect()),
      End::Num(n) => AstNode::Numeric(n.to_string(), String::new()),
      End::Lit(k) => lit_ast(*k),
    }
  }
}

fn key_sexp(k: Key) -> Sexp {
  match k {
    Key::Name(n) => Sexp::tagged("k", vec![Sexp::atom("n"), Sexp::int(n)]),
    Key::Str(n) => Sexp::tagged("k", vec![Sexp::atom("s"), Sexp::int(n)]),
  }
}

fn key_of_sexp(s: &Sexp) -> Option<Key> {
  let l = s.as_list()?;
  if l.len() != 3 || l[0].as_atom()? != "k" {
    return None;
  }
  let n: usize = l[2].as_atom()?.parse().ok()?;
  match l[1].as_atom()? {
    "n" => Some(Key::Name(n)),
    "s" => Some(Key::Str(n)),
    _ => None,
  }
}

fn bind_sexp(b: &(usize, T)) -> Sexp {
  Sexp::tagged("b", vec![Sexp::int(b.0), b.1.sexp()])
}

fn bind_of_sexp(s: &Sexp) -> Option<(usize, T)> {
  let l = s.as_list()?;
  if l.len() != 3 || l[0].as_atom()? != "b" {
    return None;
  }
  Some((l[1].as_atom()?.parse().ok()?, T::of_sexp(&l[2])?))
}

impl T {
  pub fn sexp(&self) -> Sexp {
    match self {
      T::Name(n) => Sexp::list(vec![Sexp::atom("a"), Sexp::atom("n"), Sexp::int(*n)]),
      T::Num(n) => Sexp::list(vec![Sexp::atom("a"), Sexp::atom("u"), Sexp::int(*n)]),
      T::Lit(n) => Sexp::list(vec![Sexp::atom("a"), Sexp::atom("l"), Sexp::int(*n)]),
      T::Bin(o, l, r) => Sexp::tagged("bin", vec![Sexp::atom(o.name()), l.sexp(), r.sexp()]),
      T::Neg(e) => Sexp::tagged("neg", vec![e.sexp()]),
      T::Between(e, lo, hi) => Sexp::tagged("between", vec![e.sexp(), lo.sexp(), hi.sexp()]),
      T::Inst(e, q, qs) => {
        let mut v = vec![e.sexp(), Sexp::int(*q)];
        v.extend(qs.iter().map(|n| Sexp::int(*n)));
        Sexp::tagged("inst", v)
      }
      T::Path(e, n) => Sexp::tagged("path", vec![e.sexp(), Sexp::int(*n)]),
      T::Filter(e, i) => Sexp::tagged("filter", vec![e.sexp(), i.sexp()]),
      T::Call(f, args) => {
        let mut v = vec![f.sexp()];
        v.extend(args.iter().map(|a| a.sexp()));
        Sexp::tagged("call", v)
      }
      T::CallNamed(f, bs) => {
        let mut v = vec![f.sexp()];
        v.extend(bs.iter().map(bind_sexp));
        Sexp::tagged("calln", v)
      }
      T::InList(e, items) => {
        let mut v = vec![e.sexp()];
        v.extend(items.iter().map(|a| a.sexp()));
        Sexp::tagged("inl", v)
      }
      T::If(c, a, b) => Sexp::tagged("if", vec![c.sexp(), a.sexp(), b.sexp()]),
      T::For(its, body) => {
        let mut v: Vec<Sexp> = its
          .iter()
          .map(|i| match i {
            Iter::Single(x, d) => Sexp::tagged("s", vec![Sexp::int(*x), d.sexp()]),
            Iter::Range(x, lo, hi) => Sexp::tagged("r", vec![Sexp::int(*x), lo.sexp(), hi.sexp()]),
          })
          .collect();
        v.push(body.sexp());
        Sexp::tagged("for", v)
      }
      T::Quant(ev, qs, body) => {
        let mut v = vec![Sexp::atom(if *ev { "every" } else { "some" })];
        v.extend(qs.iter().map(bind_sexp));
        v.push(body.sexp());
        Sexp::tagged("quant", v)
      }
      T::Fn(ps, body) => Sexp::tagged("fn", vec![Sexp::tagged("p", ps.iter().map(|n| Sexp::int(*n)).collect()), body.sexp()]),
      T::List(items) => Sexp::tagged("list", items.iter().map(|a| a.sexp()).collect()),
      T::Ctx(es) => Sexp::tagged("ctx", es.iter().map(|(k, v)| Sexp::tagged("e", vec![key_sexp(*k), v.sexp()])).collect()),
      T::Range(b1, lo, hi, b2) => Sexp::tagged("range", vec![Sexp::atom(b1.name()), lo.sexp(), hi.sexp(), Sexp::atom(b2.name())]),
      T::UTest(c, e) => Sexp::tagged("ut", vec![Sexp::atom(c.name()), e.sexp()]),
    }
  }
  pub fn of_sexp(s: &Sexp) -> Option<T> {
    let l = s.as_list()?;
    let tag = l.first()?.as_atom()?;
    let nat = |x: &Sexp| x.as_atom().and_then(|a| a.parse::<usize>().ok());
    Some(match (tag, l.len()) {
      ("a", 3) => {
        let n = nat(&l[2])?;
        match l[1].as_atom()? {
          "n" => T::Name(n),
          "u" => T::Num(n),
          "l" => T::Lit(n),
          _ => return None,
        }
      }
      ("bin", 4) => T::Bin(Op::of_name(l[1].as_atom()?)?, Box::new(T::of_sexp(&l[2])?), Box::new(T::of_sexp(&l[3])?)),
      ("neg", 2) => T::Neg(Box::new(T::of_sexp(&l[1])?)),
      ("between", 4) => T::Between(Box::new(T::of_sexp(&l[1])?), Box::new(T::of_sexp(&l[2])?), Box::new(T::of_sexp(&l[3])?)),
      ("inst", n) if n >= 3 => {
        let mut qs = vec![];
        for x in &l[3..] {
          qs.push(nat(x)?);
        }
        T::Inst(Box::new(T::of_sexp(&l[1])?), nat(&l[2])?, qs)
      }
      ("path", 3) => T::Path(Box::new(T::of_sexp(&l[1])?), nat(&l[2])?),
      ("filter", 3) => T::Filter(Box::new(T::of_sexp(&l[1])?), Box::new(T::of_sexp(&l[2])?)),
      ("call", n) if n >= 2 => {
        let mut args = vec![];
        for x in &l[2..] {
          args.push(T::of_sexp(x)?);
        }
        T::Call(Box::new(T::of_sexp(&l[1])?), args)
      }
      ("calln", n) if n >= 3 => T::CallNamed(Box::new(T::of_sexp(&l[1])?), l[2..].iter().map(bind_of_sexp).collect::<Option<Vec<_>>>()?),
      ("inl", n) if n >= 4 => T::InList(Box::new(T::of_sexp(&l[1])?), l[2..].iter().map(T::of_sexp).collect::<Option<Vec<_>>>()?),
      ("if", 4) => T::If(Box::new(T::of_sexp(&l[1])?), Box::new(T::of_sexp(&l[2])?), Box::new(T::of_sexp(&l[3])?)),
      ("for", n) if n >= 3 => {
        let mut its = vec![];
        for x in &l[1..n - 1] {
          let xl = x.as_list()?;
          its.push(match (xl.first()?.as_atom()?, xl.len()) {
            ("s", 3) => Iter::Single(nat(&xl[1])?, T::of_sexp(&xl[2])?),
            ("r", 4) => Iter::Range(nat(&xl[1])?, T::of_sexp(&xl[2])?, T::of_sexp(&xl[3])?),
            _ => return None,
          });
        }
        T::For(its, Box::new(T::of_sexp(&l[n - 1])?))
      }
      ("quant", n) if n >= 4 => {
        let ev = match l[1].as_atom()? {
          "every" => true,
          "some" => false,
          _ => return None,
        };
        T::Quant(ev, l[2..n - 1].iter().map(bind_of_sexp).collect::<Option<Vec<_>>>()?, Box::new(T::of_sexp(&l[n - 1])?))
      }
      ("fn", 3) => {
        let pl = l[1].as_list()?;
        T::Fn(pl[1..].iter().map(nat).collect::<Option<Vec<_>>>()?, Box::new(T::of_sexp(&l[2])?))
      }
      ("list", _) => T::List(l[1..].iter().map(T::of_sexp).collect::<Option<Vec<_>>>()?),
      ("ctx", _) => {
        let mut es = vec![];
        for x in &l[1..] {
          let xl = x.as_list()?;
          if xl.len() != 3 || xl[0].as_atom()? != "e" {
            return None;
          }
          es.push((key_of_sexp(&xl[1])?, T::of_sexp(&xl[2])?));
        }
        T::Ctx(es)
      }
      ("range", 5) => T::Range(Bra::of_name(l[1].as_atom()?)?, End::of_sexp(&l[2])?, End::of_sexp(&l[3])?, Bra::of_name(l[4].as_atom()?)?),
      ("ut", 3) => T::UTest(Cmp::of_name(l[1].as_atom()?)?, End::of_sexp(&l[2])?),
      _ => return None,
    })
  }
  /// The `AstNode` the reduce actions of `parser.rs` build for this tree.
  pub fn ast(&self) -> AstNode {
    let b = |t: &T| Box::new(t.ast());
    match self {
      T::Name(n) => name_ast(*n),
      T::Num(n) => AstNode::Numeric(n.to_string(), String::new()),
      T::Lit(k) => lit_ast(*k),
      T::Bin(o, l, r) => {
        let (l, r) = (b(l), b(r));
        match o {
          Op::Or => AstNode::Or(l, r),
          Op::And => AstNode::And(l, r),
          Op::Eq => AstNode::Eq(l, r),
          Op::Nq => AstNode::Nq(l, r),
          Op::Lt => AstNode::Lt(l, r),
          Op::Le => AstNode::Le(l, r),
          Op::Gt => AstNode::Gt(l, r),
          Op::Ge => AstNode::Ge(l, r),
          Op::In => AstNode::In(l, r),
          Op::Add => AstNode::Add(l, r),
          Op::Sub => AstNode::Sub(l, r),
          Op::Mul => AstNode::Mul(l, r),
          Op::Div => AstNode::Div(l, r),
          Op::Exp => AstNode::Exp(l, r),
        }
      }
      T::Neg(e) => AstNode::Neg(b(e)),
      T::Between(e, lo, hi) => AstNode::Between(b(e), b(lo), b(hi)),
      T::Inst(e, q, qs) => {
        let mut segs = vec![AstNode::QualifiedNameSegment(Name::from(NAMES[*q]))];
        segs.extend(qs.iter().map(|n| AstNode::QualifiedNameSegment(Name::from(NAMES[*n]))));
        AstNode::InstanceOf(b(e), Box::new(AstNode::QualifiedName(segs)))
      }
      T::Path(e, n) => AstNode::Path(b(e), Box::new(name_ast(*n))),
      T::Filter(e, i) => AstNode::Filter(b(e), b(i)),
      T::Call(f, args) => AstNode::FunctionInvocation(b(f), Box::new(AstNode::PositionalParameters(args.iter().map(|a| a.ast()).collect()))),
      // parser.rs:983-1007
      T::CallNamed(f, bs) => AstNode::FunctionInvocation(
        b(f),
        Box::new(AstNode::NamedParameters(bs.iter().map(|(n, v)| AstNode::NamedParameter(Box::new(AstNode::ParameterName(Name::from(NAMES[*n]))), b(v))).collect())),
      ),
      // parser.rs:388, 577-590
      T::InList(e, items) => AstNode::In(b(e), Box::new(AstNode::ExpressionList(items.iter().map(|a| a.ast()).collect()))),
      T::If(c, x, y) => AstNode::If(b(c), b(x), b(y)),
      // parser.rs:604-616, 846-900
      T::For(its, body) => AstNode::For(
        Box::new(AstNode::IterationContexts(
          its
            .iter()
            .map(|i| match i {
              Iter::Single(x, d) => AstNode::IterationContextSingle(Box::new(name_ast(*x)), b(d)),
              Iter::Range(x, lo, hi) => AstNode::IterationContextRange(Box::new(name_ast(*x)), b(lo), b(hi)),
            })
            .collect(),
        )),
        Box::new(AstNode::EvaluatedExpression(b(body))),
      ),
      T::Quant(ev, qs, body) => {
        let ctxs = Box::new(AstNode::QuantifiedContexts(qs.iter().map(|(x, d)| AstNode::QuantifiedContext(Box::new(name_ast(*x)), b(d))).collect()));
        let sat = Box::new(AstNode::Satisfies(b(body)));
        if *ev {
          AstNode::Every(ctxs, sat)
        } else {
          AstNode::Some(ctxs, sat)
        }
      }
      T::Fn(ps, body) => AstNode::FunctionDefinition(
        Box::new(AstNode::FormalParameters(
          ps.iter().map(|p| AstNode::FormalParameter(Box::new(AstNode::ParameterName(Name::from(NAMES[*p]))), Box::new(AstNode::FeelType(FeelType::Any)))).collect(),
        )),
        Box::new(AstNode::FunctionBody(b(body), false)),
      ),
      T::List(items) => AstNode::List(items.iter().map(|a| a.ast()).collect()),
      T::Ctx(es) => AstNode::Context(
        es.iter()
          .map(|(k, v)| {
            let key = match k {
              Key::Name(n) => Name::from(NAMES[*n]),
              Key::Str(n) => Name::from(LITS[*n].trim_matches('"')),
            };
            AstNode::ContextEntry(Box::new(AstNode::ContextEntryKey(key)), b(v))
          })
          .collect(),
      ),
      T::Range(b1, lo, hi, b2) => AstNode::Range(Box::new(AstNode::IntervalStart(Box::new(lo.ast()), *b1 == Bra::Square)), Box::new(AstNode::IntervalEnd(Box::new(hi.ast()), *b2 == Bra::Square))),
      T::UTest(c, e) => {
        let e = Box::new(e.ast());
        match c {
          Cmp::Lt => AstNode::UnaryLt(e),
          Cmp::Le => AstNode::UnaryLe(e),
          Cmp::Gt => AstNode::UnaryGt(e),
          Cmp::Ge => AstNode::UnaryGe(e),
        }
      }
    }
  }
  /// The direct sub-trees.
  fn kids(&self) -> Vec<&T> {
    match self {
      T::Name(_) | T::Num(_) | T::Lit(_) | T::Range(..) | T::UTest(..) => vec![],
      T::Bin(_, l, r) | T::Filter(l, r) => vec![l, r],
      T::Neg(e) | T::Inst(e, _, _) | T::Path(e, _) => vec![e],
      T::Between(e, lo, hi) | T::If(e, lo, hi) => vec![e, lo, hi],
      T::Call(f, args) | T::InList(f, args) => std::iter::once(&**f).chain(args.iter()).collect(),
      T::CallNamed(f, bs) => std::iter::once(&**f).chain(bs.iter().map(|(_, v)| v)).collect(),
      T::For(its, body) => {
        let mut v: Vec<&T> = vec![];
        for i in its {
          match i {
            Iter::Single(_, d) => v.push(d),
            Iter::Range(_, lo, hi) => {
              v.push(lo);
              v.push(hi);
            }
          }
        }
        v.push(body);
        v
      }
      T::Quant(_, qs, body) => qs.iter().map(|(_, d)| d).chain(std::iter::once(&**body)).collect(),
      T::Fn(_, body) => vec![body],
      T::List(items) => items.iter().collect(),
      T::Ctx(es) => es.iter().map(|(_, v)| v).collect(),
    }
  }
  fn depth(&self) -> usize {
    let ks = self.kids();
    match self {
      T::Name(_) | T::Num(_) | T::Lit(_) => 0,
      _ => 1 + ks.iter().map(|k| k.depth()).max().unwrap_or(0),
    }
  }
  /// Does the rendering of this tree contain `and` or `between` (in any mode, at any depth)?
  fn has_and_or_between(&self) -> bool {
    matches!(self, T::Bin(Op::And, _, _) | T::Between(..)) || self.kids().iter().any(|k| k.has_and_or_between())
  }
  /// Some `between` below has `and`/`between` in its middle operand: the lexer's single
  /// `between` flag (lexer.rs:276-284) then hands the wrong `and` to the grammar.
  fn between_unsafe(&self) -> bool {
    if let T::Between(_, lo, _) = self {
      if lo.has_and_or_between() {
        return true;
      }
    }
    self.kids().iter().any(|k| k.between_unsafe())
  }
  /// Only constructs of the operator skeleton (and no interval end spelled `]…[`)?
  fn plain_spelling(&self) -> bool {
    !matches!(self, T::Range(Bra::Rev, ..) | T::Range(_, _, _, Bra::Rev)) && self.kids().iter().all(|k| k.plain_spelling())
  }
  fn kind(&self) -> String {
    match self {
      T::Name(_) | T::Num(_) | T::Lit(_) => "atom".into(),
      T::Bin(o, _, _) => o.name().into(),
      T::Neg(_) => "neg".into(),
      T::Between(..) => "between".into(),
      T::Inst(..) => "instance-of".into(),
      T::Path(..) => "path".into(),
      T::Filter(..) => "filter".into(),
      T::Call(..) => "call".into(),
      T::CallNamed(..) => "call-named".into(),
      T::InList(..) => "in-list".into(),
      T::If(..) => "if".into(),
      T::For(..) => "for".into(),
      T::Quant(true, ..) => "every".into(),
      T::Quant(false, ..) => "some".into(),
      T::Fn(..) => "function".into(),
      T::List(..) => "list".into(),
      T::Ctx(..) => "context".into(),
      T::Range(..) => "range".into(),
      T::UTest(..) => "unary-test".into(),
    }
  }
}

// ------------------------------------------------------------------------------------------
// tokens and their text
// ------------------------------------------------------------------------------------------

#[derive(Clone, Debug, PartialEq)]
struct Tk {
  /// the S-expression of the token as the driver wrote it
  sx: Sexp,
  text: String,
  /// a keyword spelled with letters (needs white space after it, lexer.rs:212-308)
  keyword: bool,
  /// ends an operand: a following `(` is an invocation
  operand_end: bool,
  /// letters/digits at its edges (needs a separator next to another such token)
  wordy: bool,
}

fn tk_of(s: &Sexp) -> Option<Tk> {
  let mk = |text: &str, keyword: bool, operand_end: bool, wordy: bool| Tk { sx: s.clone(), text: text.to_string(), keyword, operand_end, wordy };
  if let Some(l) = s.as_list() {
    let n: usize = l.get(1)?.as_atom()?.parse().ok()?;
    return Some(match l.first()?.as_atom()? {
      "n" => mk(NAMES.get(n)?, false, true, true),
      "u" => mk(&n.to_string(), false, true, true),
      "l" => mk(LITS.get(n)?, false, true, true),
      _ => return None,
    });
  }
  Some(match s.as_atom()? {
    "or" => mk("or", true, false, true),
    "and" | "band" => mk("and", true, false, true),
    "eq" => mk("=", false, false, false),
    "nq" => mk("!=", false, false, false),
    "lt" => mk("<", false, false, false),
    "le" => mk("<=", false, false, false),
    "gt" => mk(">", false, false, false),
    "ge" => mk(">=", false, false, false),
    "between" => mk("between", true, false, true),
    "in" => mk("in", true, false, true),
    "plus" => mk("+", false, false, false),
    "minus" => mk("-", false, false, false),
    "mul" => mk("*", false, false, false),
    "div" => mk("/", false, false, false),
    "exp" => mk("**", false, false, false),
    "instance" => mk("instance", true, false, true),
    "of" => mk("of", true, false, true),
    "lp" => mk("(", false, false, false),
    "rp" => mk(")", false, true, false),
    "lb" => mk("[", false, false, false),
    "rb" => mk("]", false, true, false),
    "dot" => mk(".", false, false, false),
    "comma" => mk(",", false, false, false),
    "if" => mk("if", true, false, true),
    "then" => mk("then", true, false, true),
    "else" => mk("else", true, false, true),
    "for" => mk("for", true, false, true),
    "return" => mk("return", true, false, true),
    "some" => mk("some", true, false, true),
    "every" => mk("every", true, false, true),
    "satisfies" => mk("satisfies", true, false, true),
    "function" => mk("function", true, false, true),
    "lbr" => mk("{", false, false, false),
    "rbr" => mk("}", false, true, false),
    "colon" => mk(":", false, false, false),
    "dots" => mk("..", false, false, false),
    _ => return None,
  })
}

fn toks_of(s: &Sexp) -> Option<Vec<Tk>> {
  let l = s.as_list()?;
  if l.first()?.as_atom()? != "toks" {
    return None;
  }
  l[1..].iter().map(tk_of).collect()
}

/// One space between any two tokens.
fn render_plain(ts: &[Tk]) -> String {
  ts.iter().map(|t| t.text.as_str()).collect::<Vec<_>>().join(" ")
}

/// `( a . b . c`: a grouping parenthesis followed by a path of three names — the generated
/// tables commit to the qualified name of an interval there (see `Dmn.Ref.pathQuirk`).
fn path_quirk(ts: &[Tk]) -> bool {
  let is_name = |t: &Tk| matches!(t.sx.as_list().and_then(|l| l.first()).and_then(|a| a.as_atom()), Some("n"));
  (0..ts.len()).any(|i| {
    if !(ts[i].text == "(" || ts[i].text == "[") || (i > 0 && ts[i - 1].operand_end) {
      return false;
    }
    // a path of at least three names that is not the first endpoint of an interval
    let mut j = i + 1;
    let mut segs = 0;
    while j < ts.len() && is_name(&ts[j]) {
      segs += 1;
      if j + 1 < ts.len() && ts[j + 1].text == "." {
        j += 2;
      } else {
        j += 1;
        break;
      }
    }
    segs >= 3 && !(j < ts.len() && ts[j].text == "..")
  })
}

/// Splits a text of the harness printer (tokens separated by blanks, strings quoted) into
/// token texts; punctuation glued to words is split off.
fn text_tokens(text: &str) -> Vec<String> {
  let cs: Vec<char> = text.chars().collect();
  let mut out = vec![];
  let mut i = 0;
  while i < cs.len() {
    let c = cs[i];
    if c.is_whitespace() {
      i += 1;
    } else if c == '"' {
      let mut j = i + 1;
      while j < cs.len() && cs[j] != '"' {
        j += 1;
      }
      out.push(cs[i..(j + 1).min(cs.len())].iter().collect());
      i = j + 1;
    } else if c.is_alphanumeric() || c == '_' {
      let mut j = i;
      while j < cs.len() && (cs[j].is_alphanumeric() || cs[j] == '_') {
        j += 1;
      }
      out.push(cs[i..j].iter().collect());
      i = j;
    } else {
      let two: String = cs[i..(i + 2).min(cs.len())].iter().collect();
      if ["**", "!=", "<=", ">=", "..", "->"].contains(&two.as_str()) {
        out.push(two);
        i += 2;
      } else {
        out.push(c.to_string());
        i += 1;
      }
    }
  }
  out
}

const KEYWORDS: [&str; 22] = [
  "and", "or", "between", "in", "instance", "of", "if", "then", "else", "for", "return", "some", "every", "satisfies", "function", "external", "not", "list", "range", "context", "true", "false",
];

fn is_word(t: &str) -> bool {
  t.chars().next().map(|c| c.is_alphabetic() || c == '_').unwrap_or(false)
}

/// The same on a text of the harness printer, which marks the grouping parentheses and list
/// brackets it writes with U+0001 (removed before the text is parsed).
fn text_path_quirk(ts: &[String]) -> bool {
  let name = |t: &String| is_word(t) && !KEYWORDS.contains(&t.as_str()) && t != "null";
  (0..ts.len()).any(|i| ts[i] == "\u{1}" && i + 6 < ts.len() && name(&ts[i + 2]) && ts[i + 3] == "." && name(&ts[i + 4]) && ts[i + 5] == "." && ts[i + 6] != ".")
}

/// A built-in type name followed by a word or one of the name symbols `. / - ' + *`: the lexer
/// reads on and returns one long name (lexer.rs:562-719: the built-in type names are tried on
/// the longest candidate only).
fn text_builtin_tail(ts: &[String]) -> bool {
  const TYPES: [&[&str]; 10] = [
    &["number"],
    &["string"],
    &["boolean"],
    &["date", "and", "time"],
    &["date"],
    &["time"],
    &["days", "and", "time", "duration"],
    &["years", "and", "months", "duration"],
    &["Any"],
    &["Null"],
  ];
  let follows = |t: &String| is_word(t) || t.chars().next().map(|c| c.is_ascii_digit()).unwrap_or(false) || [".", "/", "-", "'", "+", "*", "**", ".."].contains(&t.as_str());
  for i in 0..ts.len() {
    // a type name starts where a type may start: after `of`, `:`, `<`, `,` or `->`
    if i == 0 || !["of", ":", "<", ",", "->"].contains(&ts[i - 1].as_str()) {
      continue;
    }
    for ty in TYPES {
      let n = ty.len();
      if i + n < ts.len() && (0..n).all(|k| ts[i + k] == ty[k]) && follows(&ts[i + n]) {
        return true;
      }
    }
  }
  false
}

#[derive(Clone, Copy, PartialEq, Debug)]
enum LayoutClass {
  /// white space and comments (any number per gap); after a keyword at least one of them
  Clean,
  /// some gap holds two comments in a row (rejected before d0f16a2)
  DoubleComment,
  /// some keyword is directly followed by a comment (rejected before the repair of F21)
  KeywordComment,
  /// `true`, `false` or `null` directly followed by `(`
  LiteralParen,
  /// a comment between the variable of `for`/`some`/`every` and `in` (finding F32)
  VarComment,
  /// a comment between `function` and `(` (finding F33)
  FunctionComment,
}

/// The gap after token `i` lies between an iteration (or quantifier) variable and its `in`.
fn binder_gap(ts: &[Tk], i: usize) -> bool {
  let is_name = |t: &Tk| matches!(t.sx.as_list().and_then(|l| l.first()).and_then(|a| a.as_atom()), Some("n"));
  i > 0 && i + 1 < ts.len() && is_name(&ts[i]) && ts[i + 1].text == "in" && ["for", "some", "every", ","].contains(&ts[i - 1].text.as_str())
}

/// The gap after token `i` lies between `function` and `(`.
fn function_gap(ts: &[Tk], i: usize) -> bool {
  ts[i].text == "function"
}

/// A token-preserving layout: what stands between the tokens (and before the first / after
/// the last) is drawn from spaces, tabs, line breaks, other FEEL white space and comments.
fn pick_str(rng: &mut Rng, xs: &[&'static str]) -> &'static str {
  xs[rng.below(xs.len() as u64) as usize]
}

fn render_layout(ts: &[Tk], rng: &mut Rng, class: LayoutClass) -> String {
  render_layout_flags(ts, rng, class).0
}

/// The layout, whether a comment stands between a variable and its `in`, and whether one stands
/// between `function` and `(` (the former findings F32 / F33: since their repair these two gaps
/// are laid out like every other gap).
fn render_layout_flags(ts: &[Tk], rng: &mut Rng, class: LayoutClass) -> (String, bool, bool) {
  let (mut var_comment, mut fn_comment) = (false, false);
  const WS: [&str; 12] = [" ", "  ", "\n", "\t", "\r\n", " \n ", "\u{00A0}", "\u{2003}", "\u{200B}", "\u{3000}", "\u{2028}", "\u{205F}"];
  const COMMENTS: [&str; 5] = ["/* c */", "/**/", "/* a + b and ( */", "// x\n", "// 1 + (\n"];
  let mut out = String::new();
  let special_at = if ts.len() > 1 { rng.below(ts.len() as u64 - 1) as usize } else { 0 };
  let kw_positions: Vec<usize> = ts.iter().enumerate().filter(|(i, t)| t.keyword && *i + 1 < ts.len() && !function_gap(ts, *i)).map(|(i, _)| i).collect();
  let var_positions: Vec<usize> = (0..ts.len()).filter(|i| binder_gap(ts, *i)).collect();
  let var_special = if var_positions.is_empty() { None } else { Some(*rng.pick(&var_positions)) };
  let kw_special = if kw_positions.is_empty() { None } else { Some(*rng.pick(&kw_positions)) };
  // leading
  if rng.chance(1, 3) {
    out.push_str(pick_str(rng, &WS));
    if rng.chance(1, 2) {
      out.push_str(pick_str(rng, &COMMENTS));
      out.push_str(pick_str(rng, &WS));
    }
  }
  for (i, t) in ts.iter().enumerate() {
    out.push_str(&t.text);
    if i + 1 == ts.len() {
      break;
    }
    let next = &ts[i + 1];
    let mut gap = String::new();
    if (class == LayoutClass::VarComment && var_special == Some(i)) || (class == LayoutClass::FunctionComment && function_gap(ts, i)) {
      // the two classes that witness F32 / F33: a comment for certain
      gap.push_str(pick_str(rng, &WS));
      gap.push_str(pick_str(rng, &COMMENTS));
      gap.push_str(pick_str(rng, &WS));
    } else if class == LayoutClass::KeywordComment && kw_special == Some(i) {
      gap.push_str(pick_str(rng, &COMMENTS[..3]));
      gap.push_str(pick_str(rng, &WS));
    } else if class == LayoutClass::DoubleComment && special_at == i {
      gap.push_str(pick_str(rng, &WS));
      gap.push_str(pick_str(rng, &COMMENTS));
      gap.push_str(pick_str(rng, &WS));
      gap.push_str(pick_str(rng, &COMMENTS));
      gap.push_str(pick_str(rng, &WS));
    } else {
      let word_literal = t.text == "true" || t.text == "false" || t.text == "null";
      if class == LayoutClass::LiteralParen && word_literal && next.text == "(" {
        out.push_str(&gap);
        continue;
      }
      // `function` is a keyword through what follows it (`(`), not through white space
      let must = (t.keyword && !function_gap(ts, i)) || (t.wordy && next.wordy) || (t.text == "/" && (next.text == "/" || next.text == "*")) || (word_literal && next.text == "(");
      // `- >` would be read as the arrow `->`
      let must = must || (t.text == "-" && next.text.starts_with('>'));
      // `1 .` + name: keep numbers and dots apart
      let must = must || (t.text == "." || next.text == "." || t.text == ".." || next.text == "..") && (t.wordy || next.wordy || t.text == "." || next.text == ".");
      let k = rng.below(6);
      // a comment ends a keyword as well as white space does
      let comment_first = t.keyword && !function_gap(ts, i) && k >= 4 && rng.chance(1, 2);
      if !comment_first && (must || k > 0) {
        gap.push_str(pick_str(rng, &WS));
      }
      if k >= 4 {
        // one comment, sometimes several in a row (any number may separate two tokens)
        for _ in 0..(if k == 5 { 1 + rng.below(3) } else { 1 }) {
          gap.push_str(pick_str(rng, &COMMENTS));
          if rng.chance(1, 2) {
            gap.push_str(pick_str(rng, &WS));
          }
        }
        if rng.chance(2, 3) {
          gap.push_str(pick_str(rng, &WS));
        }
      }
    }
    if gap.contains("/*") || gap.contains("//") {
      var_comment |= binder_gap(ts, i);
      fn_comment |= function_gap(ts, i);
    }
    out.push_str(&gap);
  }
  if rng.chance(1, 3) {
    out.push_str(pick_str(rng, &WS));
    if rng.chance(1, 2) {
      out.push_str(pick_str(rng, &COMMENTS));
    }
  }
  (out, var_comment, fn_comment)
}

// ------------------------------------------------------------------------------------------
// running the implementation
// ------------------------------------------------------------------------------------------

fn run_impl(text: &str) -> Result<AstNode, String> {
  crate::util::note_case(text);
  let s = scope();
  match guarded(|| dmntk_feel_parser::parse_expression(&s, text, false)) {
    Ok(Ok(n)) => Ok(n),
    Ok(Err(e)) => Err(format!("error: {}", first_line(&e.to_string()))),
    Err(p) => Err(format!("panic: {}", first_line(&p))),
  }
}

fn run_impl_ut(text: &str) -> Result<AstNode, String> {
  crate::util::note_case(text);
  let s = scope();
  match guarded(|| dmntk_feel_parser::parse_unary_tests(&s, text, false)) {
    Ok(Ok(n)) => Ok(n),
    Ok(Err(e)) => Err(format!("error: {}", first_line(&e.to_string()))),
    Err(p) => Err(format!("panic: {}", first_line(&p))),
  }
}

fn first_line(s: &str) -> String {
  let l = s.lines().next().unwrap_or("");
  l.chars().take(120).collect()
}

fn show(r: &Result<AstNode, String>) -> String {
  match r {
    Ok(n) => short(&format!("{:?}", n)),
    Err(e) => e.clone(),
  }
}

fn short(s: &str) -> String {
  let s = s.replace("Name(Name(\"", "`").replace("\"))", "`");
  if s.len() > 600 {
    format!("{}…", s.chars().take(600).collect::<String>())
  } else {
    s
  }
}

/// `(ok <tree>)` / `(fail)` of the driver → the `AstNode` it stands for.
fn model_result(s: &Sexp) -> Option<Option<AstNode>> {
  let l = s.as_list()?;
  match l.first()?.as_atom()? {
    "ok" => Some(Some(T::of_sexp(l.get(1)?)?.ast())),
    "fail" => Some(None),
    _ => None,
  }
}

fn same(impl_: &Result<AstNode, String>, model: &Option<AstNode>) -> bool {
  match (impl_, model) {
    (Ok(a), Some(b)) => a == b,
    (Err(e), None) => !e.starts_with("panic"),
    _ => false,
  }
}

fn show_model(m: &Option<AstNode>) -> String {
  match m {
    Some(n) => short(&format!("{:?}", n)),
    None => "no parse".into(),
  }
}

// ------------------------------------------------------------------------------------------
// generators of skeleton trees
// ------------------------------------------------------------------------------------------

/// A node kind with its operand positions; `build(children)` makes the node.
#[derive(Clone, Copy, Debug, PartialEq)]
enum Kind0 {
  Bin(Op),
  Neg,
  Between,
  Inst,
  InstQ,
  Path,
  Filter,
  Call1,
  Call2,
  Call0,
  CallN1,
  CallN2,
  InList2,
  InList3,
  If,
  ForS,
  ForR,
  For2,
  Some1,
  Every2,
  Fn0,
  Fn1,
  Fn2,
  List0,
  List1,
  List2,
  Ctx0,
  Ctx1,
  Ctx2,
  RangeSq,
  RangeRound,
  RangeRev,
  RangeMixed,
  UTestNum,
  UTestQn,
}

/// The kinds beyond the operator skeleton.
const NEW_KINDS: [Kind0; 25] = [
  Kind0::CallN1,
  Kind0::CallN2,
  Kind0::InList2,
  Kind0::InList3,
  Kind0::If,
  Kind0::ForS,
  Kind0::ForR,
  Kind0::For2,
  Kind0::Some1,
  Kind0::Every2,
  Kind0::Fn0,
  Kind0::Fn1,
  Kind0::Fn2,
  Kind0::List0,
  Kind0::List1,
  Kind0::List2,
  Kind0::Ctx0,
  Kind0::Ctx1,
  Kind0::Ctx2,
  Kind0::RangeSq,
  Kind0::RangeRound,
  Kind0::RangeRev,
  Kind0::RangeMixed,
  Kind0::UTestNum,
  Kind0::UTestQn,
];

fn kinds() -> Vec<Kind0> {
  let mut v: Vec<Kind0> = OPS.iter().map(|o| Kind0::Bin(*o)).collect();
  v.extend([Kind0::Neg, Kind0::Between, Kind0::Inst, Kind0::InstQ, Kind0::Path, Kind0::Filter, Kind0::Call0, Kind0::Call1, Kind0::Call2]);
  v.extend(NEW_KINDS);
  v
}

fn arity(k: Kind0) -> usize {
  match k {
    Kind0::Bin(_) | Kind0::Filter | Kind0::Call1 => 2,
    Kind0::Neg | Kind0::Inst | Kind0::InstQ | Kind0::Path | Kind0::Call0 => 1,
    Kind0::Between | Kind0::Call2 => 3,
    Kind0::CallN1 | Kind0::ForS | Kind0::Some1 | Kind0::List2 | Kind0::Ctx2 => 2,
    Kind0::CallN2 | Kind0::InList2 | Kind0::If | Kind0::ForR | Kind0::Every2 => 3,
    Kind0::InList3 | Kind0::For2 => 4,
    Kind0::Fn0 | Kind0::Fn1 | Kind0::Fn2 | Kind0::List1 | Kind0::Ctx1 => 1,
    Kind0::List0 | Kind0::Ctx0 | Kind0::RangeSq | Kind0::RangeRound | Kind0::RangeRev | Kind0::RangeMixed | Kind0::UTestNum | Kind0::UTestQn => 0,
  }
}

fn build(k: Kind0, mut cs: Vec<T>) -> T {
  let mut next = || Box::new(cs.remove(0));
  match k {
    Kind0::Bin(o) => {
      let l = next();
      T::Bin(o, l, next())
    }
    Kind0::Neg => T::Neg(next()),
    Kind0::Between => {
      let e = next();
      let lo = next();
      T::Between(e, lo, next())
    }
    Kind0::Inst => T::Inst(next(), 8, vec![]),
    Kind0::InstQ => T::Inst(next(), 8, vec![6]),
    Kind0::Path => T::Path(next(), 7),
    Kind0::Filter => {
      let e = next();
      T::Filter(e, next())
    }
    Kind0::Call0 => T::Call(next(), vec![]),
    Kind0::Call1 => {
      let f = next();
      T::Call(f, vec![*next()])
    }
    Kind0::Call2 => {
      let f = next();
      let a = next();
      T::Call(f, vec![*a, *next()])
    }
    Kind0::CallN1 => {
      let f = next();
      T::CallNamed(f, vec![(6, *next())])
    }
    Kind0::CallN2 => {
      let f = next();
      let a = next();
      T::CallNamed(f, vec![(6, *a), (7, *next())])
    }
    Kind0::InList2 => {
      let e = next();
      let a = next();
      T::InList(e, vec![*a, *next()])
    }
    Kind0::InList3 => {
      let e = next();
      let a = next();
      let b = next();
      T::InList(e, vec![*a, *b, *next()])
    }
    Kind0::If => {
      let c = next();
      let a = next();
      T::If(c, a, next())
    }
    Kind0::ForS => {
      let d = next();
      T::For(vec![Iter::Single(4, *d)], next())
    }
    Kind0::ForR => {
      let lo = next();
      let hi = next();
      T::For(vec![Iter::Range(4, *lo, *hi)], next())
    }
    Kind0::For2 => {
      let d = next();
      let lo = next();
      let hi = next();
      T::For(vec![Iter::Single(4, *d), Iter::Range(5, *lo, *hi)], next())
    }
    Kind0::Some1 => {
      let d = next();
      T::Quant(false, vec![(4, *d)], next())
    }
    Kind0::Every2 => {
      let d = next();
      let e = next();
      T::Quant(true, vec![(4, *d), (5, *e)], next())
    }
    Kind0::Fn0 => T::Fn(vec![], next()),
    Kind0::Fn1 => T::Fn(vec![6], next()),
    Kind0::Fn2 => T::Fn(vec![6, 7], next()),
    Kind0::List0 => T::List(vec![]),
    Kind0::List1 => T::List(vec![*next()]),
    Kind0::List2 => {
      let a = next();
      T::List(vec![*a, *next()])
    }
    Kind0::Ctx0 => T::Ctx(vec![]),
    Kind0::Ctx1 => T::Ctx(vec![(Key::Name(6), *next())]),
    Kind0::Ctx2 => {
      let a = next();
      T::Ctx(vec![(Key::Str(4), *a), (Key::Name(7), *next())])
    }
    Kind0::RangeSq => T::Range(Bra::Square, End::Num(1), End::Qn(vec![1]), Bra::Square),
    Kind0::RangeRound => T::Range(Bra::Round, End::Qn(vec![0, 1]), End::Num(2), Bra::Round),
    Kind0::RangeRev => T::Range(Bra::Rev, End::Num(1), End::Num(2), Bra::Rev),
    Kind0::RangeMixed => T::Range(Bra::Round, End::Lit(3), End::Qn(vec![2, 3]), Bra::Square),
    Kind0::UTestNum => T::UTest(Cmp::Lt, End::Num(5)),
    Kind0::UTestQn => T::UTest(Cmp::Ge, End::Qn(vec![0, 1])),
  }
}

fn random_end(rng: &mut Rng) -> End {
  match rng.below(4) {
    0 => End::Num(rng.below(10) as usize),
    // simple literals only: `null` (2) is no endpoint
    1 => End::Lit([0usize, 1, 3, 4, 5][rng.below(5) as usize]),
    _ => End::Qn((0..1 + rng.below(3)).map(|_| rng.below(8) as usize).collect()),
  }
}

fn random_bra(rng: &mut Rng) -> Bra {
  [Bra::Round, Bra::Rev, Bra::Square][rng.below(3) as usize]
}

/// Leaves in a fixed rotation so that every operand is recognisable in a report.
struct Leaves(usize);
impl Leaves {
  fn next(&mut self) -> T {
    self.0 += 1;
    match self.0 % 7 {
      0 => T::Num(self.0 % 10),
      3 => T::Lit(self.0 % 6),
      _ => T::Name(self.0 % 6),
    }
  }
}

fn atoms_node(k: Kind0, lv: &mut Leaves) -> T {
  let cs = (0..arity(k)).map(|_| lv.next()).collect();
  build(k, cs)
}

/// Every (parent, position, child kind): the child has leaf operands.
fn all_pairs() -> Vec<T> {
  let mut out = vec![];
  for p in kinds() {
    if arity(p) == 0 {
      out.push(build(p, vec![]));
    }
    for pos in 0..arity(p) {
      for c in kinds() {
        let mut lv = Leaves(0);
        let cs = (0..arity(p)).map(|i| if i == pos { atoms_node(c, &mut lv) } else { lv.next() }).collect();
        out.push(build(p, cs));
      }
    }
  }
  out
}

/// Every (parent, position, child, position, grandchild kind), and every parent with two
/// compound children.
fn all_triples(kinds_c: &[Kind0]) -> Vec<T> {
  let mut out = vec![];
  for p in kinds() {
    for pos in 0..arity(p) {
      for c in kinds_c {
        for pos2 in 0..arity(*c) {
          for g in kinds_c {
            let mut lv = Leaves(0);
            let cs = (0..arity(p))
              .map(|i| {
                if i == pos {
                  let gs = (0..arity(*c)).map(|j| if j == pos2 { atoms_node(*g, &mut lv) } else { lv.next() }).collect();
                  build(*c, gs)
                } else {
                  lv.next()
                }
              })
              .collect();
            out.push(build(p, cs));
          }
        }
      }
    }
    if arity(p) >= 2 {
      for c1 in kinds_c {
        for c2 in kinds_c {
          let mut lv = Leaves(0);
          let n = arity(p);
          let cs = (0..n).map(|i| if i == 0 { atoms_node(*c1, &mut lv) } else if i == n - 1 { atoms_node(*c2, &mut lv) } else { lv.next() }).collect();
          out.push(build(p, cs));
        }
      }
    }
  }
  out
}

fn random_tree(rng: &mut Rng, depth: u32) -> T {
  if depth == 0 || rng.chance(1, 5) {
    return match rng.below(8) {
      0 => T::Num(rng.below(10) as usize),
      1 => T::Lit(rng.below(6) as usize),
      _ => T::Name(rng.below(6) as usize),
    };
  }
  let ks = kinds();
  // binary operators make up 14 of the 23 kinds; give the others the same weight together
  let k = if rng.chance(1, 2) { ks[rng.below(14) as usize] } else { ks[14 + rng.below(ks.len() as u64 - 14) as usize] };
  let k = match k {
    Kind0::InstQ if rng.chance(1, 2) => Kind0::Inst,
    k => k,
  };
  let cs = (0..arity(k)).map(|_| random_tree(rng, depth - 1)).collect();
  let t = build(k, cs);
  match t {
    T::Inst(e, _, _) => {
      let n = rng.below(3) as usize;
      T::Inst(e, 8 + rng.below(2) as usize, (0..n).map(|_| rng.below(8) as usize).collect())
    }
    T::Path(e, _) => T::Path(e, rng.below(8) as usize),
    T::Range(..) => T::Range(random_bra(rng), random_end(rng), random_end(rng), random_bra(rng)),
    T::UTest(..) => T::UTest([Cmp::Lt, Cmp::Le, Cmp::Gt, Cmp::Ge][rng.below(4) as usize], random_end(rng)),
    t => t,
  }
}

// ------------------------------------------------------------------------------------------
// the extended language: printer over AstNode (harness side)
// ------------------------------------------------------------------------------------------

/// Levels as the driver reports them from `Gen/Prec.lean` (so that this printer follows the
/// same table).
#[derive(Clone, Debug, Default)]
struct Levels {
  lvl: std::collections::HashMap<String, (u32, u32, bool)>,
  neg: u32,
  hi: u32,
  between: u32,
  instance: u32,
  dot: u32,
  paren: u32,
  brack: u32,
}

fn levels_of(ans: &str) -> Option<Levels> {
  let s = Sexp::parse(ans)?;
  let l = s.as_list()?;
  let mut lv = Levels::default();
  for e in &l[1..] {
    let e = e.as_list()?;
    let name = e[0].as_atom()?;
    let n: u32 = e[1].as_atom()?.parse().ok()?;
    match (name, e.len()) {
      (_, 4) => {
        lv.lvl.insert(name.to_string(), (n, e[2].as_atom()?.parse().ok()?, e[3].as_atom()? == "true"));
      }
      ("neg", _) => lv.neg = n,
      ("hi", _) => lv.hi = n,
      ("between", _) => lv.between = n,
      ("instance", _) => lv.instance = n,
      ("dot", _) => lv.dot = n,
      ("paren", _) => lv.paren = n,
      ("brack", _) => lv.brack = n,
      _ => {}
    }
  }
  Some(lv)
}

/// A token that can follow an operand, as far as precedence is concerned.
#[derive(Clone, Copy, PartialEq, Debug)]
enum Follow {
  Level(u32),
  Dot(u32),
}

impl Follow {
  fn level(self) -> u32 {
    match self {
      Follow::Level(l) | Follow::Dot(l) => l,
    }
  }
}

struct Printer<'a> {
  lv: &'a Levels,
  full: bool,
}

fn bin_parts(n: &AstNode) -> Option<(&'static str, &'static str, &AstNode, &AstNode)> {
  Some(match n {
    AstNode::Or(l, r) => ("or", "or", l, r),
    AstNode::And(l, r) => ("and", "and", l, r),
    AstNode::Eq(l, r) => ("eq", "=", l, r),
    AstNode::Nq(l, r) => ("nq", "!=", l, r),
    AstNode::Lt(l, r) => ("lt", "<", l, r),
    AstNode::Le(l, r) => ("le", "<=", l, r),
    AstNode::Gt(l, r) => ("gt", ">", l, r),
    AstNode::Ge(l, r) => ("ge", ">=", l, r),
    AstNode::In(l, r) if !matches!(**r, AstNode::ExpressionList(_)) => ("in", "in", l, r),
    AstNode::Add(l, r) => ("add", "+", l, r),
    AstNode::Sub(l, r) => ("sub", "-", l, r),
    AstNode::Mul(l, r) => ("mul", "*", l, r),
    AstNode::Div(l, r) => ("div", "/", l, r),
    AstNode::Exp(l, r) => ("exp", "**", l, r),
    _ => return None,
  })
}

fn is_leaf(n: &AstNode) -> bool {
  matches!(n, AstNode::Name(_) | AstNode::Numeric(..) | AstNode::String(_) | AstNode::Boolean(_) | AstNode::Null | AstNode::At(_))
}

/// Constructs that run as far right as they can: `if`, `for`, `some`, `every`, `function`.
fn is_open_prefix(n: &AstNode) -> bool {
  matches!(n, AstNode::If(..) | AstNode::For(..) | AstNode::Some(..) | AstNode::Every(..) | AstNode::FunctionDefinition(..))
}

/// The last token of the type is a name: a following `.` continues the qualified name.
fn type_ends_in_qname(ty: &AstNode) -> bool {
  match ty {
    AstNode::QualifiedName(_) => true,
    AstNode::FunctionType(_, r) => type_ends_in_qname(r),
    _ => false,
  }
}

impl<'a> Printer<'a> {
  fn wrapped(&self, needs: bool, c: &AstNode) -> bool {
    needs || (self.full && !is_leaf(c))
  }
  fn opd(&self, needs: bool, c: &AstNode) -> String {
    if self.wrapped(needs, c) {
      format!("\u{1}({})", self.pr(c))
    } else {
      self.pr(c)
    }
  }
  fn nonassoc_level(&self, n: &AstNode) -> Option<u32> {
    let (k, _, _, _) = bin_parts(n)?;
    let (l, _, na) = self.lv.lvl[k];
    if na {
      Some(l)
    } else {
      None
    }
  }
  /// see `Dmn.Ref.absorbs`
  fn absorbs(&self, n: &AstNode, t: Follow) -> bool {
    if let Some((k, _, _, r)) = bin_parts(n) {
      let rm = self.lv.lvl[k].1;
      return t.level() >= rm || (!self.wrapped(!self.starts_ok(rm, r), r) && self.absorbs(r, t));
    }
    match n {
      AstNode::Neg(e) => t.level() >= self.lv.neg || (!self.wrapped(!self.starts_ok(self.lv.neg, e), e) && self.absorbs(e, t)),
      AstNode::Between(_, _, hi) => t.level() >= self.lv.hi || (!self.wrapped(!self.starts_ok(self.lv.hi, hi), hi) && self.absorbs(hi, t)),
      AstNode::InstanceOf(_, ty) => type_ends_in_qname(ty) && matches!(t, Follow::Dot(_)),
      // the unary tests `< x.y`: the endpoint is a qualified name
      AstNode::UnaryLt(e) | AstNode::UnaryLe(e) | AstNode::UnaryGt(e) | AstNode::UnaryGe(e) => matches!(**e, AstNode::QualifiedName(_)) && matches!(t, Follow::Dot(_)),
      n if is_open_prefix(n) => true,
      _ => false,
    }
  }
  /// see `Dmn.Ref.startsOk`
  fn starts_ok(&self, min: u32, n: &AstNode) -> bool {
    if let Some((k, _, l, _)) = bin_parts(n) {
      let lvl = self.lv.lvl[k].0;
      return min <= lvl && (self.wrapped(self.needs_left(l, Follow::Level(lvl), self.nonassoc_level(n)), l) || self.starts_ok(min, l));
    }
    match n {
      AstNode::Between(e, _, _) => min <= self.lv.between && (self.wrapped(self.needs_left(e, Follow::Level(self.lv.between), None), e) || self.starts_ok(min, e)),
      AstNode::InstanceOf(e, _) => min <= self.lv.instance && (self.wrapped(self.needs_left(e, Follow::Level(self.lv.instance), None), e) || self.starts_ok(min, e)),
      AstNode::Path(e, _) => min <= self.lv.dot && (self.wrapped(self.needs_left(e, Follow::Dot(self.lv.dot), None), e) || self.starts_ok(min, e)),
      AstNode::Filter(e, _) => min <= self.lv.brack && (self.wrapped(self.needs_left(e, Follow::Level(self.lv.brack), None), e) || self.starts_ok(min, e)),
      AstNode::FunctionInvocation(e, _) => min <= self.lv.paren && (self.wrapped(self.needs_left(e, Follow::Level(self.lv.paren), None), e) || self.starts_ok(min, e)),
      AstNode::In(e, _) => {
        // `e in (a, b)`: the token `in`
        let lvl = self.lv.lvl["in"].0;
        min <= lvl && (self.wrapped(self.needs_left(e, Follow::Level(lvl), None), e) || self.starts_ok(min, e))
      }
      _ => true,
    }
  }
  fn needs_left(&self, c: &AstNode, t: Follow, nonassoc: Option<u32>) -> bool {
    self.absorbs(c, t) || (nonassoc.is_some() && self.nonassoc_level(c) == nonassoc)
  }
  fn list(&self, items: &[AstNode]) -> String {
    items.iter().map(|i| self.opd(false, i)).collect::<Vec<_>>().join(", ")
  }
  fn ty(&self, n: &AstNode) -> String {
    match n {
      AstNode::FeelType(t) => t.to_string(),
      AstNode::QualifiedName(segs) => segs
        .iter()
        .map(|s| match s {
          AstNode::QualifiedNameSegment(n) => n.to_string(),
          _ => "?".into(),
        })
        .collect::<Vec<_>>()
        .join(" . "),
      AstNode::ListType(t) => format!("list<{}>", self.ty(t)),
      AstNode::RangeType(t) => format!("range<{}>", self.ty(t)),
      AstNode::FunctionType(ps, r) => {
        let ps = match &**ps {
          AstNode::ParameterTypes(ps) => ps.iter().map(|p| self.ty(p)).collect::<Vec<_>>().join(", "),
          _ => "?".into(),
        };
        format!("function<{}> -> {}", ps, self.ty(r))
      }
      AstNode::ContextType(es) => {
        let es = es
          .iter()
          .map(|e| match e {
            AstNode::ContextTypeEntry(k, t) => match &**k {
              AstNode::ContextTypeEntryKey(k) => format!("{}: {}", k, self.ty(t)),
              _ => "?".into(),
            },
            _ => "?".into(),
          })
          .collect::<Vec<_>>()
          .join(", ");
        format!("context<{}>", es)
      }
      _ => "?".into(),
    }
  }
  fn endpoint(&self, n: &AstNode) -> String {
    match n {
      AstNode::QualifiedName(_) => self.ty(n),
      n => self.pr(n),
    }
  }
  fn pr(&self, n: &AstNode) -> String {
    if let Some((k, text, l, r)) = bin_parts(n) {
      let (lvl, rm, _) = self.lv.lvl[k];
      return format!("{} {} {}", self.opd(self.needs_left(l, Follow::Level(lvl), self.nonassoc_level(n)), l), text, self.opd(!self.starts_ok(rm, r), r));
    }
    match n {
      AstNode::Name(n) => n.to_string(),
      AstNode::Numeric(a, b) => {
        if b.is_empty() {
          a.clone()
        } else {
          format!("{}.{}", a, b)
        }
      }
      AstNode::String(s) => format!("\"{}\"", s),
      AstNode::Boolean(b) => b.to_string(),
      AstNode::Null => "null".into(),
      AstNode::At(s) => format!("@\"{}\"", s),
      AstNode::Neg(e) => format!("- {}", self.opd(!self.starts_ok(self.lv.neg, e), e)),
      AstNode::Between(e, lo, hi) => format!(
        "{} between {} and {}",
        self.opd(self.needs_left(e, Follow::Level(self.lv.between), None), e),
        self.opd(false, lo),
        self.opd(!self.starts_ok(self.lv.hi, hi), hi)
      ),
      AstNode::InstanceOf(e, t) => format!("{} instance of {}", self.opd(self.needs_left(e, Follow::Level(self.lv.instance), None), e), self.ty(t)),
      AstNode::Path(e, m) => format!("{} . {}", self.opd(self.needs_left(e, Follow::Dot(self.lv.dot), None), e), self.pr(m)),
      AstNode::Filter(e, i) => format!("{} [ {} ]", self.opd(self.needs_left(e, Follow::Level(self.lv.brack), None), e), self.opd(false, i)),
      AstNode::FunctionInvocation(f, ps) => {
        let ps = match &**ps {
          AstNode::PositionalParameters(ps) => self.list(ps),
          AstNode::NamedParameters(ps) => ps
            .iter()
            .map(|p| match p {
              AstNode::NamedParameter(k, v) => match &**k {
                AstNode::ParameterName(k) => format!("{}: {}", k, self.opd(false, v)),
                _ => "?".into(),
              },
              _ => "?".into(),
            })
            .collect::<Vec<_>>()
            .join(", "),
          _ => "?".into(),
        };
        format!("{} ( {} )", self.opd(self.needs_left(f, Follow::Level(self.lv.paren), None), f), ps)
      }
      AstNode::In(e, l) => match &**l {
        AstNode::ExpressionList(items) => format!("{} in \u{1}( {} )", self.opd(self.needs_left(e, Follow::Level(self.lv.lvl["in"].0), None), e), self.list(items)),
        _ => "?".into(),
      },
      AstNode::If(c, t, e) => format!("if {} then {} else {}", self.opd(false, c), self.opd(false, t), self.opd(false, e)),
      AstNode::For(ctxs, body) => {
        let ctxs = match &**ctxs {
          AstNode::IterationContexts(cs) => cs
            .iter()
            .map(|c| match c {
              AstNode::IterationContextSingle(v, e) => format!("{} in {}", self.pr(v), self.opd(false, e)),
              AstNode::IterationContextRange(v, a, b) => format!("{} in {} .. {}", self.pr(v), self.opd(false, a), self.opd(false, b)),
              _ => "?".into(),
            })
            .collect::<Vec<_>>()
            .join(", "),
          _ => "?".into(),
        };
        let body = match &**body {
          AstNode::EvaluatedExpression(b) => self.opd(false, b),
          _ => "?".into(),
        };
        format!("for {} return {}", ctxs, body)
      }
      AstNode::Some(ctxs, sat) | AstNode::Every(ctxs, sat) => {
        let kw = if matches!(n, AstNode::Some(..)) { "some" } else { "every" };
        let ctxs = match &**ctxs {
          AstNode::QuantifiedContexts(cs) => cs
            .iter()
            .map(|c| match c {
              AstNode::QuantifiedContext(v, e) => format!("{} in {}", self.pr(v), self.opd(false, e)),
              _ => "?".into(),
            })
            .collect::<Vec<_>>()
            .join(", "),
          _ => "?".into(),
        };
        let sat = match &**sat {
          AstNode::Satisfies(b) => self.opd(false, b),
          _ => "?".into(),
        };
        format!("{} {} satisfies {}", kw, ctxs, sat)
      }
      AstNode::FunctionDefinition(ps, body) => {
        let ps = match &**ps {
          AstNode::FormalParameters(ps) => ps
            .iter()
            .map(|p| match p {
              AstNode::FormalParameter(k, t) => match (&**k, &**t) {
                (AstNode::ParameterName(k), AstNode::FeelType(FeelType::Any)) => k.to_string(),
                (AstNode::ParameterName(k), t) => format!("{}: {}", k, self.ty(t)),
                _ => "?".into(),
              },
              _ => "?".into(),
            })
            .collect::<Vec<_>>()
            .join(", "),
          _ => "?".into(),
        };
        match &**body {
          AstNode::FunctionBody(b, ext) => format!("function({}) {}{}", ps, if *ext { "external " } else { "" }, self.opd(false, b)),
          _ => "?".into(),
        }
      }
      AstNode::List(items) => format!("\u{1}[ {} ]", self.list(items)),
      AstNode::Context(es) => {
        let es = es
          .iter()
          .map(|e| match e {
            AstNode::ContextEntry(k, v) => match &**k {
              AstNode::ContextEntryKey(k) => {
                let k = k.to_string();
                if k.contains(' ') {
                  format!("\"{}\": {}", k, self.opd(false, v))
                } else {
                  format!("{}: {}", k, self.opd(false, v))
                }
              }
              _ => "?".into(),
            },
            _ => "?".into(),
          })
          .collect::<Vec<_>>()
          .join(", ");
        format!("{{ {} }}", es)
      }
      AstNode::Range(s, e) => match (&**s, &**e) {
        (AstNode::IntervalStart(a, ca), AstNode::IntervalEnd(b, cb)) => format!("{} {} .. {} {}", if *ca { "[" } else { "(" }, self.endpoint(a), self.endpoint(b), if *cb { "]" } else { ")" }),
        _ => "?".into(),
      },
      AstNode::UnaryLt(e) => format!("< {}", self.endpoint(e)),
      AstNode::UnaryLe(e) => format!("<= {}", self.endpoint(e)),
      AstNode::UnaryGt(e) => format!("> {}", self.endpoint(e)),
      AstNode::UnaryGe(e) => format!(">= {}", self.endpoint(e)),
      AstNode::ExpressionList(items) => self.list(items),
      AstNode::NegatedList(items) => format!("not ( {} )", self.list(items)),
      AstNode::Irrelevant => "-".into(),
      _ => "?".into(),
    }
  }
}

// ---- generator of extended trees

fn local_ast(i: usize) -> AstNode {
  AstNode::Name(Name::from(LOCALS[i]))
}

fn qname(rng: &mut Rng) -> AstNode {
  let n = 1 + rng.below(2) as usize;
  AstNode::QualifiedName((0..n).map(|_| AstNode::QualifiedNameSegment(Name::from(NAMES[rng.below(8) as usize]))).collect())
}

fn endpoint(rng: &mut Rng) -> AstNode {
  match rng.below(3) {
    0 => qname(rng),
    1 => AstNode::Numeric(rng.below(10).to_string(), String::new()),
    _ => AstNode::String("s".into()),
  }
}

fn range_or_test(rng: &mut Rng) -> AstNode {
  match rng.below(6) {
    0 => AstNode::UnaryLt(Box::new(endpoint(rng))),
    1 => AstNode::UnaryLe(Box::new(endpoint(rng))),
    2 => AstNode::UnaryGt(Box::new(endpoint(rng))),
    3 => AstNode::UnaryGe(Box::new(endpoint(rng))),
    _ => AstNode::Range(Box::new(AstNode::IntervalStart(Box::new(endpoint(rng)), rng.chance(1, 2))), Box::new(AstNode::IntervalEnd(Box::new(endpoint(rng)), rng.chance(1, 2)))),
  }
}

/// A type; `tail` = may its last token be a built-in type name (it may when a delimiter
/// follows: `)`, `,`, `>`).
fn type_node(rng: &mut Rng, depth: u32, tail: bool) -> AstNode {
  if depth == 0 || rng.chance(1, 2) {
    return match rng.below(if tail { 11 } else { 1 }) {
      0 => AstNode::QualifiedName(vec![AstNode::QualifiedNameSegment(Name::from(NAMES[8 + rng.below(2) as usize]))]),
      1 => AstNode::FeelType(FeelType::Number),
      2 => AstNode::FeelType(FeelType::String),
      3 => AstNode::FeelType(FeelType::Boolean),
      // type names that are also the names of conversion functions
      4 => AstNode::FeelType(FeelType::Date),
      5 => AstNode::FeelType(FeelType::Time),
      6 => AstNode::FeelType(FeelType::DateTime),
      7 => AstNode::FeelType(FeelType::DaysAndTimeDuration),
      8 => AstNode::FeelType(FeelType::YearsAndMonthsDuration),
      9 => AstNode::FeelType(FeelType::Any),
      _ => AstNode::FeelType(FeelType::Null),
    };
  }
  match rng.below(4) {
    0 => AstNode::ListType(Box::new(type_node(rng, depth - 1, true))),
    1 => AstNode::RangeType(Box::new(type_node(rng, depth - 1, true))),
    2 => AstNode::ContextType(vec![AstNode::ContextTypeEntry(Box::new(AstNode::ContextTypeEntryKey(Name::from("k"))), Box::new(type_node(rng, depth - 1, true)))]),
    _ => {
      let n = rng.below(3);
      AstNode::FunctionType(Box::new(AstNode::ParameterTypes((0..n).map(|_| type_node(rng, depth - 1, true)).collect())), Box::new(type_node(rng, depth - 1, tail)))
    }
  }
}

/// Random tree of the whole expression language; `locals` = how many local names are in scope.
fn random_ext(rng: &mut Rng, depth: u32, locals: usize) -> AstNode {
  if depth == 0 || rng.chance(1, 6) {
    return match rng.below(10) {
      0 => AstNode::Numeric(rng.below(10).to_string(), String::new()),
      1 => AstNode::Numeric(rng.below(10).to_string(), rng.below(100).to_string()),
      2 => lit_ast(rng.below(6) as usize),
      3 if locals > 0 => local_ast(rng.below(locals as u64) as usize),
      _ => name_ast(rng.below(6) as usize),
    };
  }
  let d = depth - 1;
  let b = |rng: &mut Rng| Box::new(random_ext(rng, d, locals));
  match rng.below(30) {
    0..=8 => {
      let o = *rng.pick(&OPS);
      T::Bin(o, Box::new(T::Name(0)), Box::new(T::Name(0))).ast_with(b(rng), b(rng))
    }
    9 => AstNode::Neg(b(rng)),
    10 => AstNode::Between(b(rng), b(rng), b(rng)),
    11 => {
      let tail = rng.chance(1, 8);
      AstNode::InstanceOf(b(rng), Box::new(type_node(rng, 2, tail)))
    }
    12 => AstNode::Path(b(rng), Box::new(name_ast(rng.below(8) as usize))),
    13 => AstNode::Filter(b(rng), b(rng)),
    14 => {
      let n = rng.below(3);
      AstNode::FunctionInvocation(b(rng), Box::new(AstNode::PositionalParameters((0..n).map(|_| random_ext(rng, d, locals)).collect())))
    }
    15 => {
      let n = 1 + rng.below(2);
      let ps = (0..n).map(|i| AstNode::NamedParameter(Box::new(AstNode::ParameterName(Name::from(NAMES[6 + i as usize]))), b(rng))).collect();
      AstNode::FunctionInvocation(b(rng), Box::new(AstNode::NamedParameters(ps)))
    }
    16 | 17 => AstNode::If(b(rng), b(rng), b(rng)),
    18 | 19 if locals < LOCALS.len() => {
      // for: one or two iteration contexts; the variable is visible in what follows
      let two = locals + 1 < LOCALS.len() && rng.chance(1, 3);
      let mut ctxs = vec![];
      let mut l = locals;
      for _ in 0..(if two { 2 } else { 1 }) {
        let v = Box::new(local_ast(l));
        if rng.chance(1, 3) {
          ctxs.push(AstNode::IterationContextRange(v, Box::new(random_ext(rng, d.min(2), l)), Box::new(random_ext(rng, d.min(2), l))));
        } else {
          ctxs.push(AstNode::IterationContextSingle(v, Box::new(random_ext(rng, d, l))));
        }
        l += 1;
      }
      AstNode::For(Box::new(AstNode::IterationContexts(ctxs)), Box::new(AstNode::EvaluatedExpression(Box::new(random_ext(rng, d, l)))))
    }
    20 | 21 if locals < LOCALS.len() => {
      let v = Box::new(local_ast(locals));
      let ctxs = vec![AstNode::QuantifiedContext(v, Box::new(random_ext(rng, d, locals)))];
      let sat = Box::new(AstNode::Satisfies(Box::new(random_ext(rng, d, locals + 1))));
      if rng.chance(1, 2) {
        AstNode::Some(Box::new(AstNode::QuantifiedContexts(ctxs)), sat)
      } else {
        AstNode::Every(Box::new(AstNode::QuantifiedContexts(ctxs)), sat)
      }
    }
    22 if locals < LOCALS.len() => {
      let typed = rng.chance(1, 3);
      let t = if typed { type_node(rng, 1, true) } else { AstNode::FeelType(FeelType::Any) };
      let ps = vec![AstNode::FormalParameter(Box::new(AstNode::ParameterName(Name::from(LOCALS[locals]))), Box::new(t))];
      if rng.chance(1, 4) {
        // a function whose body is external: `function(p) external { … }` (the flag of the body must survive)
        let ctx = AstNode::Context(vec![AstNode::ContextEntry(Box::new(AstNode::ContextEntryKey(Name::from("k"))), Box::new(random_ext(rng, d.min(1), locals + 1)))]);
        AstNode::FunctionDefinition(Box::new(AstNode::FormalParameters(ps)), Box::new(AstNode::FunctionBody(Box::new(ctx), true)))
      } else {
        AstNode::FunctionDefinition(Box::new(AstNode::FormalParameters(ps)), Box::new(AstNode::FunctionBody(Box::new(random_ext(rng, d, locals + 1)), false)))
      }
    }
    23 | 24 => {
      let n = rng.below(4);
      AstNode::List((0..n).map(|_| random_ext(rng, d, locals)).collect())
    }
    25 => {
      let n = rng.below(3);
      let keys = ["k1", "k2", "key three"];
      AstNode::Context((0..n).map(|i| AstNode::ContextEntry(Box::new(AstNode::ContextEntryKey(Name::from(keys[i as usize]))), Box::new(random_ext(rng, d, locals)))).collect())
    }
    26 | 27 => AstNode::In(b(rng), Box::new(range_or_test(rng))),
    28 => {
      let n = 2 + rng.below(2);
      AstNode::In(b(rng), Box::new(AstNode::ExpressionList((0..n).map(|_| if rng.chance(1, 2) { range_or_test(rng) } else { random_ext(rng, d, locals) }).collect())))
    }
    _ => range_or_test(rng),
  }
}

impl T {
  /// A binary node of this operator over two given `AstNode`s.
  fn ast_with(&self, l: Box<AstNode>, r: Box<AstNode>) -> AstNode {
    match self {
      T::Bin(o, _, _) => match o {
        Op::Or => AstNode::Or(l, r),
        Op::And => AstNode::And(l, r),
        Op::Eq => AstNode::Eq(l, r),
        Op::Nq => AstNode::Nq(l, r),
        Op::Lt => AstNode::Lt(l, r),
        Op::Le => AstNode::Le(l, r),
        Op::Gt => AstNode::Gt(l, r),
        Op::Ge => AstNode::Ge(l, r),
        Op::In => AstNode::In(l, r),
        Op::Add => AstNode::Add(l, r),
        Op::Sub => AstNode::Sub(l, r),
        Op::Mul => AstNode::Mul(l, r),
        Op::Div => AstNode::Div(l, r),
        Op::Exp => AstNode::Exp(l, r),
      },
      _ => AstNode::Null,
    }
  }
}

/// Features of an extended tree that the current code is known to mishandle (each has its
/// own signature, so that anything else still surfaces).
fn ext_between_unsafe(n: &AstNode) -> bool {
  fn has_and(n: &AstNode) -> bool {
    let mut found = false;
    walk(n, &mut |x| {
      if matches!(x, AstNode::And(..) | AstNode::Between(..)) {
        found = true;
      }
    });
    found
  }
  let mut bad = false;
  walk(n, &mut |x| {
    if let AstNode::Between(_, lo, _) = x {
      if has_and(lo) {
        bad = true;
      }
    }
  });
  bad
}

fn children(n: &AstNode) -> Vec<&AstNode> {
  use AstNode::*;
  match n {
    Add(a, b) | And(a, b) | Div(a, b) | Eq(a, b) | Exp(a, b) | Ge(a, b) | Gt(a, b) | In(a, b) | Le(a, b) | Lt(a, b) | Mul(a, b) | Nq(a, b) | Or(a, b) | Sub(a, b) | Filter(a, b)
    | Path(a, b) | InstanceOf(a, b) | FunctionInvocation(a, b) | ContextEntry(a, b) | Every(a, b) | Some(a, b) | For(a, b) | FormalParameter(a, b) | FunctionDefinition(a, b)
    | IterationContextSingle(a, b) | NamedParameter(a, b) | QuantifiedContext(a, b) | Range(a, b) | FunctionType(a, b) | ContextTypeEntry(a, b) | Out(a, b) => vec![a, b],
    Between(a, b, c) | If(a, b, c) | IterationContextRange(a, b, c) => vec![a, b, c],
    Neg(a) | EvaluatedExpression(a) | Satisfies(a) | FunctionBody(a, _) | IntervalStart(a, _) | IntervalEnd(a, _) | ListType(a) | RangeType(a) | UnaryGe(a) | UnaryGt(a) | UnaryLe(a)
    | UnaryLt(a) => vec![a],
    CommaList(v) | Context(v) | ContextType(v) | ExpressionList(v) | FormalParameters(v) | IterationContexts(v) | List(v) | NamedParameters(v) | NegatedList(v) | ParameterTypes(v)
    | PositionalParameters(v) | QualifiedName(v) | QuantifiedContexts(v) => v.iter().collect(),
    _ => vec![],
  }
}

fn walk<'a>(n: &'a AstNode, f: &mut dyn FnMut(&'a AstNode)) {
  f(n);
  for c in children(n) {
    walk(c, f);
  }
}

fn node_name(n: &AstNode) -> String {
  let d = format!("{:?}", n);
  d.split(|c: char| !c.is_alphanumeric()).next().unwrap_or("").to_string()
}

// ------------------------------------------------------------------------------------------
// escapes
// ------------------------------------------------------------------------------------------

fn hex(ds: &[u64], upper: bool) -> String {
  ds.iter().map(|d| if upper { format!("{:X}", d) } else { format!("{:x}", d) }).collect()
}

fn escape_text(form: &str, digits: &[u64], upper: bool) -> String {
  match form {
    "u4" => format!("\"\\u{}\"", hex(digits, upper)),
    "u6" => format!("\"\\U{}\"", hex(digits, upper)),
    _ => format!("\"\\u{}\\u{}\"", hex(&digits[..4], upper), hex(&digits[4..], upper)),
  }
}

// ------------------------------------------------------------------------------------------
// the run
// ------------------------------------------------------------------------------------------

struct Case {
  family: &'static str,
  tree: T,
  mode: &'static str,
}

pub fn run(cfg: &Cfg) -> Report {
  if cfg.extra.first().map(|s| s.as_str()) == Some("probe") {
    probe();
  }
  let mut rep = Report::new(
    "C06",
    "a case is one (tree, rendering) or (escape form, code point) pair. Trees: every (parent position, child kind) pair over 48 node kinds (14 binary operators, unary minus, between, instance of, path, filter, invocation with 0-2 positional or 1-2 named arguments, in-lists, if, for with list/range domains and one or two contexts, some, every, function definitions with 0-2 parameters, lists and contexts with 0-2 entries, intervals in four spellings, unary tests) — and every triple in the thorough tier — plus random trees of that language and random trees with typed parameters/external bodies/generic types; renderings: Ref.print full, Ref.print minimal, every member of Ref.drops minimal (one needed pair of parentheses removed at any depth), random token-preserving layouts. A tree case is non-trivial when the tree has at least two operators (depth >= 2); an escape case when the code point is outside ASCII; distinct by rendered text.",
  );
  let mut model = Model::start(&cfg.driver);
  let mut rng = Rng::new(cfg.seed);
  let thorough = cfg.tier == "thorough";

  let levels = match levels_of(&model.ask("(c06 table)")) {
    Some(l) => l,
    None => {
      rep.disagree(Kind::ImplVsModel, "table", "driver-error", "(c06 table)", "", "the levels of Gen/Prec.lean");
      return rep;
    }
  };
  rep.extra.insert("table".into(), json!(format!("{:?}", levels)));

  // ---------------------------------------------------------------- skeleton trees
  let mut cases: Vec<Case> = vec![];
  // regression corpus first
  let n = |i| Box::new(T::Name(i));
  let corpus: Vec<T> = vec![
    T::Between(n(0), Box::new(T::Bin(Op::And, n(1), n(2))), n(3)),
    T::Between(n(0), Box::new(T::Between(n(1), n(2), n(3))), n(4)),
    T::Bin(Op::Eq, Box::new(T::Bin(Op::Eq, n(0), n(1))), n(2)),
    T::Bin(Op::Exp, n(0), Box::new(T::Bin(Op::Exp, n(1), n(2)))),
    T::Path(Box::new(T::Inst(n(0), 8, vec![])), 1),
    T::Bin(Op::In, Box::new(T::Bin(Op::In, n(0), n(1))), n(2)),
    // ( a . b . c + 1 ) * 2  — F22
    T::Bin(Op::Mul, Box::new(T::Bin(Op::Add, Box::new(T::Path(Box::new(T::Path(n(0), 1)), 2)), Box::new(T::Num(1)))), Box::new(T::Num(2))),
    // - ( a . b . c )
    T::Neg(Box::new(T::Bin(Op::Exp, Box::new(T::Path(Box::new(T::Path(n(0), 1)), 2)), n(3)))),
    // a between b + 1 and c  (fine), a = ( b between c and d ) (fine)
    T::Between(n(0), Box::new(T::Bin(Op::Add, n(1), Box::new(T::Num(1)))), n(2)),
    T::Bin(Op::Eq, n(0), Box::new(T::Between(n(1), n(2), n(3)))),
  ];
  for t in corpus {
    cases.push(Case { family: "corpus", tree: t, mode: "full" });
  }
  let pairs = all_pairs();
  rep.extra.insert("operator_pairs".into(), json!(pairs.len()));
  for t in pairs {
    cases.push(Case { family: "pairs", tree: t, mode: "full" });
  }
  if thorough {
    let triples = all_triples(&kinds());
    rep.extra.insert("operator_triples".into(), json!(triples.len()));
    for t in triples {
      cases.push(Case { family: "triples", tree: t, mode: "full" });
    }
  } else {
    // a slice of the triples in the quick tier: one operator per level
    let ks = [Kind0::Bin(Op::Or), Kind0::Bin(Op::And), Kind0::Bin(Op::Lt), Kind0::Bin(Op::In), Kind0::Bin(Op::Sub), Kind0::Bin(Op::Div), Kind0::Bin(Op::Exp), Kind0::Neg, Kind0::Between, Kind0::Inst, Kind0::Path, Kind0::Call1, Kind0::If, Kind0::ForS, Kind0::Fn1, Kind0::InList2, Kind0::List1];
    let triples: Vec<T> = all_triples(&ks).into_iter().filter(|t| t.depth() >= 2).collect();
    let keep: Vec<T> = triples.into_iter().enumerate().filter(|(i, _)| i % 3 == (cfg.seed % 3) as usize).map(|(_, t)| t).collect();
    rep.extra.insert("operator_triples".into(), json!(keep.len()));
    for t in keep {
      cases.push(Case { family: "triples", tree: t, mode: "full" });
    }
  }
  let (n_random, max_depth) = if thorough { (60_000, 8) } else { (4_000, 5) };
  for i in 0..n_random {
    let d = 2 + (i as u32 % (max_depth - 1));
    cases.push(Case { family: "random", tree: random_tree(&mut rng, d), mode: "full" });
  }
  // both renderings of every tree
  let mut all: Vec<Case> = vec![];
  for c in cases {
    all.push(Case { family: c.family, tree: c.tree.clone(), mode: "minimal" });
    all.push(c);
  }
  let reqs: Vec<String> = all.iter().map(|c| format!("(c06 rt {} {})", c.mode, c.tree.sexp())).collect();
  let answers = model.ask_batch(&reqs);

  // second round: the minimal rendering with one needed pair removed; layouts
  let mut drop_reqs: Vec<String> = vec![];
  let mut drop_cases: Vec<usize> = vec![];
  let mut layout_jobs: Vec<(usize, Vec<Tk>, Result<AstNode, String>)> = vec![];

  for (i, ((c, req), ans)) in all.iter().zip(reqs.iter()).zip(answers.iter()).enumerate() {
    let parsed = Sexp::parse(ans);
    let l = parsed.as_ref().and_then(|s| s.as_list());
    let got = l.and_then(|l| if l.len() == 4 { Some((toks_of(&l[1]), model_result(&l[2]), model_result(&l[3]))) } else { None });
    let (toks, m_parse, m_surface) = match got {
      Some((Some(t), Some(p), Some(s))) => (t, p, s),
      _ => {
        rep.disagree(Kind::ImplVsModel, c.family, "driver-error", req, "", ans);
        continue;
      }
    };
    let text = render_plain(&toks);
    let expected = c.tree.ast();
    rep.case(&text, c.tree.depth() >= 2);
    rep.hit(&format!("{}:{}", c.family, c.mode));
    rep.hit(&format!("root:{}", c.tree.kind()));
    rep.hit(&format!("depth:{}", c.tree.depth().min(9)));
    // the reference parser must give back the tree (this is the theorem, observed)
    if m_parse.as_ref() != Some(&expected) {
      rep.disagree(
        Kind::ImplVsModel,
        c.family,
        &format!("Ref.parse (Ref.print {} t) differs from t", c.mode),
        &format!("{}  [{}]", text, c.tree.sexp()),
        &show_model(&m_parse),
        &short(&format!("{:?}", expected)),
      );
    }
    // the harness' own printer (used for the whole expression language) follows the same rule
    if c.tree.plain_spelling() {
      let p = Printer { lv: &levels, full: c.mode == "full" };
      let mine: Vec<String> = text_tokens(&p.pr(&expected)).into_iter().filter(|t| t != "\u{1}").collect();
      if mine != text_tokens(&text) {
        rep.disagree(Kind::ImplVsModel, c.family, &format!("the harness printer differs from Ref.print {}", c.mode), &text, &mine.join(" "), &text);
      }
    }
    let im = run_impl(&text);
    rep.hit(if im.is_ok() { "impl:parsed" } else { "impl:rejected" });
    // the tie: the real parser against the model of what it does (lexer flag + grammar)
    if !same(&im, &m_surface) {
      rep.disagree(Kind::ImplVsModel, c.family, &format!("parse_expression differs from Ref.parseSurface ({} rendering)", c.mode), &text, &show(&im), &show_model(&m_surface));
    }
    // the property
    if im.as_ref().ok() != Some(&expected) {
      let sig = if c.tree.between_unsafe() {
        SIG_BETWEEN.to_string()
      } else if path_quirk(&toks) {
        SIG_PATH3.to_string()
      } else {
        format!("parse(print_{} t) differs from t", c.mode)
      };
      rep.disagree(Kind::ImplVsSpec, c.family, &sig, &text, &show(&im), &short(&format!("{:?}", expected)));
    }
    if rep.samples.len() < 6 && c.tree.depth() >= 2 && c.mode == "minimal" && i % 7 == 0 {
      rep.sample(json!({"request": req, "text": text, "implementation": show(&im), "model": ans}));
    }
    if c.mode == "minimal" && toks.iter().any(|t| t.text == "(") {
      // every rendering with one pair of parentheses the minimal printer writes (at any depth) left out
      drop_reqs.push(format!("(c06 drops minimal {})", c.tree.sexp()));
      drop_cases.push(i);
    }
    // layouts: a share of the cases
    let share = if c.family == "random" { 4 } else { 2 };
    if i % share == 0 {
      layout_jobs.push((i, toks, im));
    }
  }

  // ---------------------------------------------------------------- needed parentheses removed
  let drop_answers = model.ask_batch(&drop_reqs);
  for ((i, req), ans) in drop_cases.iter().zip(drop_reqs.iter()).zip(drop_answers.iter()) {
    let c = &all[*i];
    let parsed = Sexp::parse(ans);
    let variants: Option<Vec<(Vec<Tk>, Option<AstNode>, Option<AstNode>)>> = parsed.as_ref().and_then(|s| s.as_list()).and_then(|l| {
      if l.first()?.as_atom()? != "d" {
        return None;
      }
      l[1..]
        .iter()
        .map(|v| {
          let v = v.as_list()?;
          if v.len() != 3 {
            return None;
          }
          Some((toks_of(&v[0])?, model_result(&v[1])?, model_result(&v[2])?))
        })
        .collect()
    });
    let variants = match variants {
      Some(v) => v,
      None => {
        rep.disagree(Kind::ImplVsModel, "paren-removed", "driver-error", req, "", ans);
        continue;
      }
    };
    let expected = c.tree.ast();
    for (toks, m_parse, m_surface) in variants {
      let text = render_plain(&toks);
      rep.case(&text, c.tree.depth() >= 2);
      rep.hit("paren-removed");
      rep.hit(&format!("paren-removed:root:{}", c.tree.kind()));
      if m_parse.as_ref() == Some(&expected) {
        rep.disagree(Kind::ImplVsModel, "paren-removed", "Ref.parse gives the same tree without a pair that needsParens demands", &text, &show_model(&m_parse), "another tree or no parse");
      }
      let im = run_impl(&text);
      rep.hit(if im.is_ok() { "paren-removed:another-tree" } else { "paren-removed:rejected" });
      if !same(&im, &m_surface) {
        rep.disagree(Kind::ImplVsModel, "paren-removed", "parse_expression differs from Ref.parseSurface (needed pair removed)", &text, &show(&im), &show_model(&m_surface));
      }
      if im.as_ref().ok() == Some(&expected) {
        rep.disagree(Kind::ImplVsSpec, "paren-removed", "removing a needed pair of parentheses does not change the tree", &text, &show(&im), "another tree or a syntax error");
      }
    }
  }

  // ---------------------------------------------------------------- layouts
  // fixed witnesses first: (layout, the plain text it must agree with, signature when it does not)
  for (text, plain, sig) in [
    ("a /* x */ /* y */ and b", "a and b", SIG_TWO_COMMENTS),
    ("a // x\n // y\n + b", "a + b", SIG_TWO_COMMENTS),
    ("a and/**/ b", "a and b", SIG_KEYWORD_COMMENT),
    ("a in// x\n b", "a in b", SIG_KEYWORD_COMMENT),
    ("null(1)", "null (1)", SIG_LITERAL_PAREN),
    ("for k /* c */ in b return k", "for k in b return k", SIG_VAR_COMMENT),
    ("some k // c\n in b satisfies k", "some k in b satisfies k", SIG_VAR_COMMENT),
    ("function /* c */ ( a ) a", "function ( a ) a", SIG_FUNCTION_COMMENT),
    ("function // c\n ( a ) a", "function ( a ) a", SIG_FUNCTION_COMMENT),
    ("function/**/( a , b ) a", "function ( a , b ) a", SIG_FUNCTION_COMMENT),
    ("a instance of list /* c */ < b >", "a instance of list < b >", SIG_TYPE_KEYWORD_COMMENT),
    ("a instance of range // c\n < b >", "a instance of range < b >", SIG_TYPE_KEYWORD_COMMENT),
    ("a instance of context /**/ < k : b >", "a instance of context < k : b >", SIG_TYPE_KEYWORD_COMMENT),
    ("a instance of function /* c */ < b > -> c", "a instance of function < b > -> c", SIG_TYPE_KEYWORD_COMMENT),
    ("for k /* c */ in b return k + a in c", "for k in b return k + a in c", SIG_VAR_COMMENT),
    ("every k // c\n in b satisfies k", "every k in b satisfies k", SIG_VAR_COMMENT),
    ("for /* c */ k in /* c */ b return /* c */ k", "for k in b return k", "layout changes the tree"),
    ("if/**/a then/**/b else/**/c", "if a then b else c", "layout changes the tree"),
    ("{/**/a/**/:/**/1/**/}", "{ a : 1 }", "layout changes the tree"),
    ("a(/**/p/**/:/**/1/**/)", "a ( p : 1 )", "layout changes the tree"),
    ("function\n(\ta\u{2003},/**/b // x\n) a", "function ( a , b ) a", "layout changes the tree"),
    ("a /* x */ and // y\n b", "a and b", "layout changes the tree"),
    ("\t( a\n+ b ) /* ) */ * // (\n c", "( a + b ) * c", "layout changes the tree"),
    ("a\u{00A0}between\u{2003}b\r\nand c", "a between b and c", "layout changes the tree"),
  ] {
    rep.case(text, true);
    rep.hit("layout:corpus");
    let (im, base) = (run_impl(text), run_impl(plain));
    if im != base || base.is_err() {
      rep.disagree(Kind::ImplVsSpec, "layout", sig, text, &show(&im), &show(&base));
    }
  }
  let mut layout_rng = rng.fork();
  for (k, (i, toks, base)) in layout_jobs.iter().enumerate() {
    let c = &all[*i];
    let lit_paren = toks.windows(2).any(|w| (w[0].text == "true" || w[0].text == "false" || w[0].text == "null") && w[1].text == "(");
    let has_var = (0..toks.len()).any(|j| binder_gap(toks, j));
    let has_function = toks.iter().any(|t| t.text == "function");
    let class = match k % 10 {
      8 => LayoutClass::DoubleComment,
      9 => LayoutClass::KeywordComment,
      7 if lit_paren => LayoutClass::LiteralParen,
      6 if has_var && k % 20 == 6 => LayoutClass::VarComment,
      5 if has_function && k % 20 == 5 => LayoutClass::FunctionComment,
      _ => LayoutClass::Clean,
    };
    if class == LayoutClass::KeywordComment && !toks.iter().enumerate().any(|(j, t)| t.keyword && j + 1 < toks.len() && t.text != "function") {
      continue;
    }
    if class == LayoutClass::DoubleComment && toks.len() < 2 {
      continue;
    }
    let (text, var_comment, fn_comment) = render_layout_flags(toks, &mut layout_rng, class);
    if var_comment {
      rep.hit("layout:comment-before-in");
    }
    if fn_comment {
      rep.hit("layout:comment-after-function");
    }
    rep.case(&text, c.tree.depth() >= 2);
    rep.hit(&format!("layout:{:?}", class));
    let im = run_impl(&text);
    let equal = match (&im, base) {
      (Ok(a), Ok(b)) => a == b,
      (Err(_), Err(_)) => true,
      _ => false,
    };
    if !equal {
      let sig = match class {
        LayoutClass::Clean | LayoutClass::DoubleComment | LayoutClass::KeywordComment if var_comment => SIG_VAR_COMMENT,
        LayoutClass::Clean | LayoutClass::DoubleComment | LayoutClass::KeywordComment if fn_comment => SIG_FUNCTION_COMMENT,
        LayoutClass::Clean => "layout changes the tree",
        LayoutClass::DoubleComment => SIG_TWO_COMMENTS,
        LayoutClass::KeywordComment => SIG_KEYWORD_COMMENT,
        LayoutClass::LiteralParen => SIG_LITERAL_PAREN,
        LayoutClass::VarComment => SIG_VAR_COMMENT,
        LayoutClass::FunctionComment => SIG_FUNCTION_COMMENT,
      };
      rep.disagree(Kind::ImplVsSpec, "layout", sig, &text, &show(&im), &show(base));
    }
  }

  // ---------------------------------------------------------------- line comments: every way a line can end
  // A `//` comment ends at a vertical space (grammar rule 62: U+000A … U+000D), a CR LF pair included, or at the end
  // of the input. Written-out trees for the fixed shapes; for a share of the token lists of the other families a line
  // comment with each ending is put into a random gap and the tree must be the one of the plain rendering.
  {
    let mut lc_rng = rng.fork();
    let ends: [(&str, &str); 7] = [("\n", "U+000A"), ("\u{b}", "U+000B"), ("\u{c}", "U+000C"), ("\r", "U+000D"), ("\r\n", "CR LF"), ("\n\r", "LF CR"), ("\r\r", "CR CR")];
    let (a, b) = (name_ast(0), name_ast(1));
    let num = |d: &str| AstNode::Numeric(d.to_string(), "".to_string());
    let bx = |n: &AstNode| Box::new(n.clone());
    let sig_of = |end: &str| if end.chars().any(|c| c != '\n') { SIG_LINE_COMMENT_END } else { SIG_LINE_COMMENT };
    for (end, label) in ends {
      let e = end;
      let cases: Vec<(String, Result<AstNode, String>)> = vec![
        (format!("1 // c{e}+ 2"), Ok(AstNode::Add(bx(&num("1")), bx(&num("2"))))),
        (format!("a // x{e}and b"), Ok(AstNode::And(bx(&a), bx(&b)))),
        (format!("a and// x{e}b"), Ok(AstNode::And(bx(&a), bx(&b)))),
        (format!("a and //{e}b"), Ok(AstNode::And(bx(&a), bx(&b)))),
        (format!("// lead{e}a"), Ok(a.clone())),
        (format!("[ a , // one{e} b // two{e}]"), Ok(AstNode::List(vec![a.clone(), b.clone()]))),
        (format!("a // x{e}// y{e}+ b"), Ok(AstNode::Add(bx(&a), bx(&b)))),
        (format!("a //x /* y{e}*  b"), Ok(AstNode::Mul(bx(&a), bx(&b)))),
        (format!("a /* x{e}y */ + b"), Ok(AstNode::Add(bx(&a), bx(&b)))),
        (format!("\"s\" // \"t\"{e}+ \"t\""), Ok(AstNode::Add(Box::new(AstNode::String("s".into())), Box::new(AstNode::String("t".into()))))),
        (format!("a + b // t{e}"), Ok(AstNode::Add(bx(&a), bx(&b)))),
        (format!("for k // c{e}in b return k"), run_impl("for k in b return k")),
        (format!("function // c{e}( a ) a"), run_impl("function ( a ) a")),
        (format!("a instance of list // c{e}< b >"), run_impl("a instance of list < b >")),
        (format!("if a // 1{e}then b // 2{e}else c // 3{e}"), run_impl("if a then b else c")),
        (format!("a between // x{e}b // y{e}and c"), run_impl("a between b and c")),
      ];
      for (text, expected) in cases {
        rep.case(&text, true);
        rep.hit(&format!("line-comment-end:{}", label));
        let im = run_impl(&text);
        if im != expected || expected.is_err() {
          rep.disagree(Kind::ImplVsSpec, "line-comment-end", sig_of(end), &format!("{:?}", text), &show(&im), &show(&expected));
        }
      }
    }
    // the end of the input ends a line comment
    for (text, expected) in [
      ("a + b // trailing".to_string(), AstNode::Add(bx(&a), bx(&b))),
      ("a + b //".to_string(), AstNode::Add(bx(&a), bx(&b))),
      ("a // x\n+ b // y".to_string(), AstNode::Add(bx(&a), bx(&b))),
      ("a /* x */ // y".to_string(), a.clone()),
    ] {
      rep.case(&text, true);
      rep.hit("line-comment-end:end of input");
      let im = run_impl(&text);
      if im.as_ref().ok() != Some(&expected) {
        rep.disagree(Kind::ImplVsSpec, "line-comment-end", SIG_LINE_COMMENT, &format!("{:?}", text), &show(&im), &short(&format!("{:?}", expected)));
      }
    }
    // generated: one line comment with a random body and each ending in a random gap of a plain rendering
    let bodies = ["", " x", "x", " 1 + (", " */ /* ", " \" ", " // ", "\t\u{00A0}é", " and or in"];
    let stride = if thorough { 3 } else { 23 };
    for (k, (_, toks, base)) in layout_jobs.iter().enumerate() {
      if k % stride != 0 || toks.len() < 2 || base.is_err() {
        continue;
      }
      let (end, label) = ends[(k / stride) % ends.len()];
      let gap_at = lc_rng.below(toks.len() as u64 - 1) as usize;
      let body = *lc_rng.pick(&bodies);
      let mut text = String::new();
      for (i, t) in toks.iter().enumerate() {
        text.push_str(&t.text);
        if i + 1 == toks.len() {
          if lc_rng.chance(1, 4) {
            text.push_str(" //");
            text.push_str(body);
            if lc_rng.chance(1, 2) {
              text.push_str(end);
            }
          }
        } else if i == gap_at {
          // (after the token `/` a blank: `///` would open the comment one character early)
          text.push_str(if t.text == "/" || lc_rng.chance(1, 2) { " //" } else { "//" });
          text.push_str(body);
          text.push_str(end);
        } else {
          text.push(' ');
        }
      }
      // `a . b` before a comment that follows a digit: nothing special; a number directly followed by `//` is fine
      rep.case(&text, true);
      rep.hit(&format!("line-comment-end:generated {}", label));
      let im = run_impl(&text);
      if &im != base {
        rep.disagree(Kind::ImplVsSpec, "line-comment-end", sig_of(end), &format!("{:?}", text), &show(&im), &show(base));
      }
    }
    // the lexer alone: the gap skipper against `GapLayout.skipGap` on comments with every ending
    let mut greqs = vec![];
    let mut gtexts = vec![];
    for (end, _) in ends {
      for body in bodies {
        for lead in ["", " ", "\r\n", "/* c */"] {
          for tail in ["", " ", "\n", "// z\u{c}"] {
            let text = format!("{}//{}{}{}a", lead, body, end, tail);
            greqs.push(format!("(c06 gap {})", Sexp::str(&text)));
            gtexts.push((text, end));
          }
        }
      }
    }
    let ganswers = model.ask_batch(&greqs);
    let s0 = scope();
    for (((text, end), req), ans) in gtexts.iter().zip(greqs.iter()).zip(ganswers.iter()) {
      let left: Option<usize> = Sexp::parse(ans).and_then(|s| s.as_list().and_then(|l| l.get(1).and_then(|x| x.as_atom().and_then(|a| a.parse().ok()))));
      let left = match left {
        Some(n) => n,
        None => {
          rep.disagree(Kind::ImplVsModel, "line-comment-end", "driver-error", req, "", ans);
          continue;
        }
      };
      rep.case(&format!("gap|{}", text), true);
      rep.hit("line-comment-end:gap");
      let len = text.chars().count();
      crate::util::note_case(text);
      let toks = guarded(|| dmntk_feel_parser::verif::tokenize(&s0, dmntk_feel_parser::VerifTokenType::StartExpression, text, (false, false, false, false), 2));
      let first_end = match &toks {
        Ok(ts) if ts.len() == 2 => ts[1].2,
        _ => usize::MAX,
      };
      let model_end = if left == 0 { len } else { len - left + 1 };
      if first_end != len {
        rep.disagree(Kind::ImplVsSpec, "line-comment-end", sig_of(end), &format!("{:?}", text), &format!("first token ends at {}", first_end), &format!("the name `a` ending at {}", len));
      } else if first_end != model_end {
        rep.disagree(Kind::ImplVsModel, "line-comment-end", "read_input skips differently from GapLayout.skipGap", &format!("{:?}", text), &format!("first token ends at {}", first_end), &format!("first token ends at {}", model_end));
      }
    }
  }

  // ---------------------------------------------------------------- signed endpoints
  // Grammar rule 37: numeric literal = ["-"], digits …; rule 18-20: an endpoint is a simple value, a simple value is
  // a simple literal or a qualified name. So an interval endpoint and the operand of `<` `<=` `>` `>=` in a unary test
  // may be a negative number. The expected tree is written out: the endpoint is the negation of the number, as the
  // parser represents `-1` everywhere else (a literal `Numeric("-1", "")` is accepted as well).
  {
    let num = |d: &str, f: &str| AstNode::Numeric(d.to_string(), f.to_string());
    let a = name_ast(0);
    // (text of the number without sign, its tree)
    let numbers: Vec<(&str, AstNode)> = vec![("1", num("1", "")), ("10", num("10", "")), ("1.5", num("1", "5")), (".5", num("0", "5")), ("0", num("0", ""))];
    let neg = |n: &AstNode| AstNode::Neg(Box::new(n.clone()));
    let alt = |n: &AstNode| match n {
      AstNode::Numeric(d, f) => AstNode::Numeric(format!("-{}", d), f.clone()),
      other => other.clone(),
    };
    // every spelling of the brackets: (open, close, start closed, end closed)
    let brackets: [(&str, &str, bool, bool); 9] =
      [("[", "]", true, true), ("(", ")", false, false), ("]", "[", false, false), ("(", "]", false, true), ("[", ")", true, false), ("]", "]", false, true), ("[", "[", true, false), ("]", ")", false, false), ("(", "[", false, false)];
    let mut cases: Vec<(String, bool, Vec<AstNode>, &'static str)> = vec![];
    let range = |lo: AstNode, hi: AstNode, sc: bool, ec: bool| AstNode::Range(Box::new(AstNode::IntervalStart(Box::new(lo), sc)), Box::new(AstNode::IntervalEnd(Box::new(hi), ec)));
    for (ni, (nt, n)) in numbers.iter().enumerate() {
      let (pt, p) = &numbers[(ni + 1) % numbers.len()];
      for (bi, (ob, cb, sc, ec)) in brackets.iter().enumerate() {
        for (sl, sh) in [(true, false), (false, true), (true, true)] {
          for sp in ["", " "] {
            if (bi + ni) % 3 != 0 && !(sl && !sh && sp.is_empty()) {
              continue; // every bracket spelling with a signed start; a third of the rest
            }
            let lo_t = if sl { format!("-{}{}", sp, nt) } else { nt.to_string() };
            let hi_t = if sh { format!("-{}{}", sp, pt) } else { pt.to_string() };
            let mk = |f: &dyn Fn(&AstNode) -> AstNode| range(if sl { f(n) } else { n.clone() }, if sh { f(p) } else { p.clone() }, *sc, *ec);
            let trees = vec![mk(&neg), mk(&alt)];
            let iv = format!("{}{}..{}{}", ob, lo_t, hi_t, cb);
            cases.push((iv.clone(), false, trees.clone(), "interval"));
            cases.push((format!("a in {}", iv), false, trees.iter().map(|t| AstNode::In(Box::new(a.clone()), Box::new(t.clone()))).collect(), "interval after in"));
            if bi == 0 {
              cases.push((iv.clone(), true, trees.iter().map(|t| AstNode::ExpressionList(vec![t.clone()])).collect(), "interval as unary tests"));
              cases.push((
                format!("not({}, a)", iv),
                true,
                trees.iter().map(|t| AstNode::NegatedList(vec![t.clone(), a.clone()])).collect(),
                "interval in negated unary tests",
              ));
              cases.push((format!("[{}]", iv), false, trees.iter().map(|t| AstNode::List(vec![t.clone()])).collect(), "interval as list item"));
            }
          }
        }
      }
      for (op, mk) in [
        ("<", (|e| AstNode::UnaryLt(e)) as fn(Box<AstNode>) -> AstNode),
        ("<=", |e| AstNode::UnaryLe(e)),
        (">", |e| AstNode::UnaryGt(e)),
        (">=", |e| AstNode::UnaryGe(e)),
      ] {
        for sp in ["", " "] {
          let t = format!("{} -{}{}", op, sp, nt);
          let trees = vec![mk(Box::new(neg(n))), mk(Box::new(alt(n)))];
          cases.push((t.clone(), true, trees.iter().map(|x| AstNode::ExpressionList(vec![x.clone()])).collect(), "comparison as unary tests"));
          cases.push((format!("{}, a", t), true, trees.iter().map(|x| AstNode::ExpressionList(vec![x.clone(), a.clone()])).collect(), "comparison as unary tests"));
          cases.push((format!("a in ({})", t), false, trees.iter().map(|x| AstNode::In(Box::new(a.clone()), Box::new(x.clone()))).collect(), "comparison after in"));
          cases.push((
            format!("a in ({}, 1)", t),
            false,
            trees.iter().map(|x| AstNode::In(Box::new(a.clone()), Box::new(AstNode::ExpressionList(vec![x.clone(), num("1", "")])))).collect(),
            "comparison in an in-list",
          ));
        }
      }
    }
    for (text, ut, trees, position) in &cases {
      rep.case(&format!("signed-endpoint|{}|{}", ut, text), true);
      rep.hit(&format!("signed-endpoint:{}", position));
      let im = if *ut { run_impl_ut(text) } else { run_impl(text) };
      if !trees.iter().any(|t| im.as_ref().ok() == Some(t)) {
        rep.disagree(
          Kind::ImplVsSpec,
          "signed-endpoint",
          SIG_SIGNED_ENDPOINT,
          &format!("{}{}", if *ut { "UT:" } else { "" }, text),
          &show(&im),
          &short(&format!("{:?}", trees[0])),
        );
      }
    }
    // the same texts without the sign parse (the family is about the sign alone)
    for (text, ut, _, _) in cases.iter().filter(|c| !c.0.contains("- ")).take(400) {
      let plain = text.replace('-', "");
      rep.case(&format!("signed-endpoint|unsigned|{}|{}", ut, plain), true);
      rep.hit("signed-endpoint:the same text without the sign");
      let im = if *ut { run_impl_ut(&plain) } else { run_impl(&plain) };
      if im.is_err() {
        rep.disagree(Kind::ImplVsSpec, "signed-endpoint", "parser rejects an interval or a unary test with unsigned numbers", &plain, &show(&im), "a tree");
      }
    }
  }

  // ---------------------------------------------------------------- intervals with unbalanced brackets around `between … and`
  // FEEL intervals may be written with reversed brackets (`[1..5[`, `]1..5]`, `(1..5[` …), so the brackets of a program
  // are not balanced; an interval in each of the nine spellings as the lower bound of `between` (directly, in
  // parentheses, as an argument, a list item, inside a filter) and before / after a between clause: written-out trees.
  {
    let (a, b, c, d, m) = (name_ast(0), name_ast(1), name_ast(2), name_ast(3), name_ast(5));
    let num = |t: &str| AstNode::Numeric(t.to_string(), "".to_string());
    let bx = |n: &AstNode| Box::new(n.clone());
    let brackets: [(&str, &str, bool, bool); 9] =
      [("[", "]", true, true), ("(", ")", false, false), ("]", "[", false, false), ("(", "]", false, true), ("[", ")", true, false), ("]", "]", false, true), ("[", "[", true, false), ("]", ")", false, false), ("(", "[", false, false)];
    for (ob, cb, sc, ec) in brackets {
      let iv = format!("{} 1 .. 5 {}", ob, cb);
      let range = AstNode::Range(Box::new(AstNode::IntervalStart(bx(&num("1")), sc)), Box::new(AstNode::IntervalEnd(bx(&num("5")), ec)));
      let btw = |mid: AstNode| AstNode::Between(bx(&a), Box::new(mid), bx(&b));
      let cases: Vec<(String, AstNode)> = vec![
        (format!("a between {} and b", iv), btw(range.clone())),
        (format!("( a ) between ( {} ) and ( b )", iv), btw(range.clone())),
        (format!("a between c ( {} ) and b", iv), btw(AstNode::FunctionInvocation(bx(&c), Box::new(AstNode::PositionalParameters(vec![range.clone()]))))),
        (format!("a between [ {} ] and b", iv), btw(AstNode::List(vec![range.clone()]))),
        (format!("a between d [ m in {} ] and b", iv), btw(AstNode::Filter(bx(&d), Box::new(AstNode::In(bx(&m), bx(&range)))))),
        (format!("[ {} , a between c and b ]", iv), AstNode::List(vec![range.clone(), AstNode::Between(bx(&a), bx(&c), bx(&b))])),
        (format!("[ a between c and b , {} ]", iv), AstNode::List(vec![AstNode::Between(bx(&a), bx(&c), bx(&b)), range.clone()])),
        (format!("a between c and b and d in {}", iv), AstNode::And(Box::new(AstNode::Between(bx(&a), bx(&c), bx(&b))), Box::new(AstNode::In(bx(&d), bx(&range))))),
        (format!("d in {} and a between c and b", iv), AstNode::And(Box::new(AstNode::In(bx(&d), bx(&range))), Box::new(AstNode::Between(bx(&a), bx(&c), bx(&b))))),
      ];
      for (text, expected) in cases {
        rep.case(&text, true);
        rep.hit("between-interval");
        let im = run_impl(&text);
        if im.as_ref().ok() != Some(&expected) {
          rep.disagree(Kind::ImplVsSpec, "between-interval", "an interval written with unbalanced brackets next to a between clause changes the tree", &text, &show(&im), &short(&format!("{:?}", expected)));
        }
      }
    }
  }

  // ---------------------------------------------------------------- lexer flags that outlive their token
  // (a) `type_name` (set at `instance of`): the conjunct after `(x instance of <named type>)` is what it is alone;
  // (b) `till_in` with the variable `item`: the tree is the one of any other variable name.
  {
    let heads = ["( a instance of b )", "( a instance of b . c )", "( a instance of list < b > )", "[ a instance of tA ] = [ true ]"];
    let tails = ["date ( \"2012-12-25\" ) = c", "c = time ( \"10:00:00\" )", "string ( c ) = \"1\"", "number ( c ) > 1", "c = date and time ( \"2012-12-25T10:00:00\" )", "duration ( c ) = a"];
    for head in heads {
      for tail in tails {
        let text = format!("{} and {}", head, tail);
        rep.case(&text, true);
        rep.hit("flags:type-name");
        let im = run_impl(&text);
        let expected = match (run_impl(head), run_impl(tail)) {
          (Ok(l), Ok(r)) => Ok(AstNode::And(Box::new(l), Box::new(r))),
          (l, r) => Err(format!("parts do not parse: {} / {}", show(&l), show(&r))),
        };
        if im != expected {
          rep.disagree(Kind::ImplVsSpec, "flags", SIG_STALE_TYPE_NAME, &text, &show(&im), &show(&expected));
        }
      }
    }
    for (text, plain) in [
      ("some item in b satisfies item in c", "some k in b satisfies k in c"),
      ("every item in b satisfies item in c", "every k in b satisfies k in c"),
      ("for item in b return item in c", "for k in b return k in c"),
      ("for item in b , j in c return item + j in a", "for k in b , j in c return k + j in a"),
      ("some item in b satisfies item > a", "some k in b satisfies k > a"),
    ] {
      rep.case(text, true);
      rep.hit("flags:till-in-item");
      let im = run_impl(text).map(|n| format!("{:?}", n));
      let expected = run_impl(plain).map(|n| format!("{:?}", n).replace("Name(\"k\")", "Name(\"item\")"));
      if im != expected || expected.is_err() {
        rep.disagree(Kind::ImplVsSpec, "flags", SIG_ITEM_VARIABLE, text, &format!("{:?}", im), &format!("{:?}", expected));
      }
    }
  }

  // ---------------------------------------------------------------- the gap after function / list / range / context
  // `is_next_character` against `GapLayout.nextIs`: keyword ++ gap ++ follower; the keyword token is produced
  // exactly when the model finds the bracket beyond white space and comments; the property: a gap of white space
  // and closed comments in front of the bracket never changes the answer.
  {
    let mut kg_rng = rng.fork();
    let ws: [&str; 8] = [" ", "\n", "\t", "\r\n", "\u{00A0}", "\u{2003}", "  ", "\u{3000}"];
    let body_chars: [&str; 9] = ["x", " ", "*", "/", "(", "<", "1", "**", "/ *"];
    let kws: [(&str, &[char], TT); 4] = [("function", &['(', '<'], TT::Function), ("list", &['<'], TT::List), ("range", &['<'], TT::Range), ("context", &['<'], TT::Context)];
    let followers = ["(", "<", "a", ":", "", "/", "/ 2", "*"];
    let n = if thorough { 20_000 } else { 1_600 };
    let mut reqs = vec![];
    let mut cases: Vec<(String, usize, bool, TT, bool)> = vec![];
    for i in 0..n {
      let (kw, chars, tt) = kws[i % 4].clone();
      let n_comments = [0, 1, 1, 2, 3][(i / 4) % 5];
      let mut gap = String::new();
      for _ in 0..kg_rng.below(3) {
        gap.push_str(pick_str(&mut kg_rng, &ws));
      }
      let mut closed = true;
      for ci in 0..n_comments {
        let mut body = String::new();
        for _ in 0..kg_rng.below(4) {
          body.push_str(pick_str(&mut kg_rng, &body_chars));
        }
        if kg_rng.chance(1, 2) {
          gap.push_str("//");
          gap.push_str(&body);
          gap.push('\n');
        } else {
          gap.push_str("/*");
          gap.push_str(&body.replace("*/", "* /"));
          // now and then the last comment is left open
          if ci + 1 == n_comments && kg_rng.chance(1, 12) {
            closed = false;
          } else {
            gap.push_str("*/");
          }
        }
        for _ in 0..kg_rng.below(3) {
          gap.push_str(pick_str(&mut kg_rng, &ws));
        }
      }
      let follower = *kg_rng.pick(&followers);
      let tail = format!("{}{}", gap, follower);
      let text = format!("{}{}", kw, tail);
      reqs.push(format!("(c06 nextis {} {})", Sexp::str(&chars.iter().collect::<String>()), Sexp::str(&tail)));
      let wanted = closed && follower.chars().next().map(|c| chars.contains(&c)).unwrap_or(false);
      cases.push((text, n_comments, wanted, tt, closed));
    }
    let answers = model.ask_batch(&reqs);
    let s0 = scope();
    for (((text, n_comments, wanted, tt, closed), req), ans) in cases.iter().zip(reqs.iter()).zip(answers.iter()) {
      let m: Option<bool> = Sexp::parse(ans).and_then(|s| s.as_list().and_then(|l| l.get(1).and_then(|x| x.as_atom().map(|a| a == "true"))));
      let m = match m {
        Some(b) => b,
        None => {
          rep.disagree(Kind::ImplVsModel, "keyword-gap", "driver-error", req, "", ans);
          continue;
        }
      };
      rep.case(text, *n_comments > 0);
      rep.hit(&format!("keyword-gap:{}-comments", n_comments));
      crate::util::note_case(text);
      let toks = guarded(|| dmntk_feel_parser::verif::tokenize(&s0, TT::StartExpression, text, (false, false, false, false), 2));
      let is_kw = match &toks {
        Ok(ts) if ts.len() == 2 => ts[1].0 == tt.clone() as i32,
        _ => false,
      };
      if is_kw != m {
        rep.disagree(Kind::ImplVsModel, "keyword-gap", "is_next_character differs from GapLayout.nextIs", &format!("{:?}", text), &format!("keyword: {}", is_kw), &format!("keyword: {}", m));
      }
      if *closed && is_kw != *wanted {
        let sig = if text.starts_with("function") { SIG_FUNCTION_COMMENT } else { SIG_TYPE_KEYWORD_COMMENT };
        rep.disagree(Kind::ImplVsSpec, "keyword-gap", sig, &format!("{:?}", text), &format!("keyword: {}", is_kw), &format!("keyword: {}", wanted));
      }
    }
  }

  // ---------------------------------------------------------------- gaps: the lexer alone
  // `read_input` against `GapLayout.skipGap`: white space and 0-3 comments in front of `a`.
  {
    let mut gap_rng = rng.fork();
    let ws: [&str; 11] = [" ", "\n", "\t", "\r\n", "\u{00A0}", "\u{2003}", "  ", "\u{200B}", "\u{3000}", "\u{2028}", "\u{205F}"];
    let body_chars: [&str; 10] = ["x", " ", "*", "/", "\"", "(", "+", "1", "**", "/ *"];
    let n_gaps = if thorough { 40_000 } else { 2_000 };
    let mut greqs = vec![];
    let mut gcases: Vec<(String, usize)> = vec![];
    for i in 0..n_gaps {
      let n_comments = match i % 10 {
        0..=2 => 0,
        3..=6 => 1,
        7 | 8 => 2,
        _ => 3,
      };
      let mut text = String::new();
      let some_ws = |text: &mut String, rng: &mut Rng| {
        for _ in 0..rng.below(3) {
          text.push_str(pick_str(rng, &ws));
        }
      };
      some_ws(&mut text, &mut gap_rng);
      for _ in 0..n_comments {
        let mut body = String::new();
        for _ in 0..gap_rng.below(5) {
          body.push_str(pick_str(&mut gap_rng, &body_chars));
        }
        if gap_rng.chance(1, 2) {
          text.push_str("//");
          text.push_str(&body);
          text.push('\n');
        } else {
          let body = body.replace("*/", "* /");
          text.push_str("/*");
          text.push_str(&body);
          text.push_str("*/");
        }
        some_ws(&mut text, &mut gap_rng);
      }
      text.push('a');
      greqs.push(format!("(c06 gap {})", Sexp::str(&text)));
      gcases.push((text, n_comments));
    }
    let ganswers = model.ask_batch(&greqs);
    let s0 = scope();
    for (((text, n_comments), req), ans) in gcases.iter().zip(greqs.iter()).zip(ganswers.iter()) {
      let left: Option<usize> = Sexp::parse(ans).and_then(|s| s.as_list().and_then(|l| l.get(1).and_then(|x| x.as_atom().and_then(|a| a.parse().ok()))));
      let left = match left {
        Some(n) => n,
        None => {
          rep.disagree(Kind::ImplVsModel, "gap", "driver-error", req, "", ans);
          continue;
        }
      };
      rep.case(text, *n_comments > 0);
      rep.hit(&format!("gap:{}-comments", n_comments));
      let len = text.chars().count();
      crate::util::note_case(text);
      let toks = guarded(|| dmntk_feel_parser::verif::tokenize(&s0, dmntk_feel_parser::VerifTokenType::StartExpression, text, (false, false, false, false), 2));
      let first_end = match &toks {
        Ok(ts) if ts.len() == 2 => ts[1].2,
        _ => usize::MAX,
      };
      let model_end = if left == 0 { len } else { len - left + 1 };
      if first_end != model_end {
        rep.disagree(Kind::ImplVsModel, "gap", "read_input skips differently from GapLayout.skipGap", &format!("{:?}", text), &format!("first token ends at {}", first_end), &format!("first token ends at {}", model_end));
      }
      if first_end != len {
        let sig = if *n_comments >= 2 { SIG_TWO_COMMENTS } else { "layout: white space and a comment before a token are not skipped" };
        rep.disagree(Kind::ImplVsSpec, "gap", sig, &format!("{:?}", text), &format!("first token ends at {}", first_end), &format!("the name `a` ending at {}", len));
      }
    }
  }

  // ---------------------------------------------------------------- escapes
  let mut cps: Vec<u32> = vec![
    0x1F64F, 0x0, 0x1, 0x9, 0xA, 0xD, 0x20, 0x22, 0x27, 0x5C, 0x7E, 0x7F, 0x80, 0x81, 0xBF, 0xC0, 0xFF, 0x100, 0x3FF, 0x400, 0x7FE, 0x7FF, 0x800, 0x801, 0xFFF, 0x1000, 0x203F, 0x2040, 0x20AC, 0xCFFF,
    0xD000, 0xD7FE, 0xD7FF, 0xE000, 0xE001, 0xFEFF, 0xFFFD, 0xFFFE, 0xFFFF, 0x10000, 0x10001, 0x1003F, 0x10040, 0x1007F, 0x10080, 0x103FF, 0x10400, 0x1F600, 0x1F63F, 0x1F640, 0x1F64F, 0x1FFFF,
    0x20000, 0x3FFFF, 0x40000, 0xFFFFF, 0x100000, 0x10FC00, 0x10FFBF, 0x10FFC0, 0x10FFFE, 0x10FFFF,
  ];
  let n_sample = if thorough { 60_000 } else { 3_000 };
  for i in 0..n_sample {
    // strata: 1, 2, 3 and 4 byte ranges and the supplementary planes
    let c = match i % 6 {
      0 => rng.below(0x80),
      1 => 0x80 + rng.below(0x780),
      2 => 0x800 + rng.below(0xD000),
      3 => 0xE000 + rng.below(0x2000),
      4 => 0x10000 + rng.below(0x10000),
      _ => 0x10000 + rng.below(0x100000),
    } as u32;
    cps.push(c);
  }
  let mut ereqs = vec![];
  let mut ecases: Vec<(u32, &'static str)> = vec![];
  for c in &cps {
    for form in ["u4", "u6", "sur"] {
      let applicable = match form {
        "u4" => *c < 0x10000,
        "sur" => *c >= 0x10000,
        _ => true,
      };
      if applicable && char::from_u32(*c).is_some() {
        ereqs.push(format!("(c06 esc {} {})", form, c));
        ecases.push((*c, form));
      }
    }
  }
  let eanswers = model.ask_batch(&ereqs);
  for (((c, form), req), ans) in ecases.iter().zip(ereqs.iter()).zip(eanswers.iter()) {
    let parsed = Sexp::parse(ans);
    let l = parsed.as_ref().and_then(|s| s.as_list());
    let got = l.and_then(|l| {
      let r = l.get(1)?.as_list()?;
      let m = match r.first()?.as_atom()? {
        "ok" => Some(r.get(1)?.as_atom()?.parse::<u32>().ok()?),
        _ => None,
      };
      let ds: Option<Vec<u64>> = l[2..].iter().map(|d| d.as_atom().and_then(|a| a.parse().ok())).collect();
      Some((m, ds?))
    });
    let (m, digits) = match got {
      Some(x) => x,
      None => {
        rep.disagree(Kind::ImplVsModel, "escape", "driver-error", req, "", ans);
        continue;
      }
    };
    let ch = char::from_u32(*c).unwrap();
    for upper in [false, true] {
      let text = escape_text(form, &digits, upper);
      rep.case(&text, *c >= 0x80);
      rep.hit(&format!("escape:{}", form));
      let im = run_impl(&text);
      let denoted: Option<u32> = match &im {
        Ok(AstNode::String(s)) if s.chars().count() == 1 => Some(s.chars().next().unwrap() as u32),
        _ => None,
      };
      if denoted != m {
        rep.disagree(Kind::ImplVsModel, "escape", &format!("escape {}: the lexer differs from the model of consume_unicode", form), &text, &show(&im), &format!("{:?}", m));
      }
      if im != Ok(AstNode::String(ch.to_string())) {
        let sig = match *form {
          "sur" => SIG_SURROGATE.to_string(),
          f => format!("escape {} does not denote its code point", f),
        };
        rep.disagree(Kind::ImplVsSpec, "escape", &sig, &format!("{} (U+{:04X})", text, c), &show(&im), &format!("String({:?})", ch.to_string()));
      }
      if rep.samples.len() < 9 && *c > 0xFFFF && upper {
        rep.sample(json!({"request": req, "text": text, "implementation": show(&im), "model": ans}));
      }
    }
  }
  // the simple escapes and raw characters
  for (text, want) in [("\"\\n\"", "\n"), ("\"\\r\"", "\r"), ("\"\\t\"", "\t"), ("\"\\\"\"", "\""), ("\"\\'\"", "'"), ("\"\\\\\"", "\\"), ("\"\u{1F64F}\"", "\u{1F64F}"), ("\"€\"", "€")] {
    rep.case(text, true);
    rep.hit("escape:simple");
    let im = run_impl(text);
    if im != Ok(AstNode::String(want.to_string())) {
      rep.disagree(Kind::ImplVsSpec, "escape", "simple escape does not denote its character", text, &show(&im), &format!("String({:?})", want));
    }
  }
  // malformed: the lexer must refuse (compared with the model only)
  for (text, v, next) in [("\"\\uD800\"", 0xD800u32, None), ("\"\\uDC00\"", 0xDC00, None), ("\"\\uD800\\u0041\"", 0xD800, Some(0x41u32)), ("\"\\U110000\"", 0x110000, None)] {
    rep.case(text, true);
    rep.hit("escape:malformed");
    let im = run_impl(text);
    let _ = (v, next);
    if im.is_ok() {
      rep.disagree(Kind::ImplVsModel, "escape", "malformed escape accepted", text, &show(&im), "a lexer error");
    }
  }

  // ---------------------------------------------------------------- string literals: every spelling of every string
  // The body of a literal is a sequence of pieces (grammar rules 35, 64, 65): a raw character, a simple escape, a code
  // point in one of three forms (hex digits in either case, digit by digit), or a backslash before a character that
  // begins no escape — then the backslash and the character are two ordinary characters.  The expectation is written out
  // piece by piece here; `Dmn.StringLit` (the Lean reading of the same rules, what `string_literal_roundtrip` is about)
  // and `Dmn.Lexer.consumeString` (the lexer model) are asked about every case as well.
  {
    let mut str_rng = rng.fork();
    // (family bucket, pieces, None = the literal is no literal: a vertical space written as itself)
    let mut lits: Vec<(&'static str, Vec<SP>, Option<String>)> = vec![];
    let extras: [u32; 22] = [0x80, 0x85, 0xA0, 0xD6, 0xD7, 0xE9, 0x3A9, 0x7FF, 0x800, 0x2028, 0x2029, 0x20AC, 0xD7FF, 0xE000, 0xFEFF, 0xFFFD, 0xFFFF, 0x10000, 0x1F64F, 0xEFFFF, 0x100000, 0x10FFFF];
    let all_chars: Vec<u32> = (0u32..0x80).chain(extras.iter().copied()).collect();
    let x = SP::Raw('x' as u32);
    let y = SP::Raw('y' as u32);
    for &c in &all_chars {
      // `\` before every character, at the start / in the middle / at the end of the literal, alone, twice, after `\\`
      match after_backslash(c) {
        Some(p) => {
          let bucket = if matches!(p, SP::Bs(_)) { "string:backslash-other" } else { "string:simple-escape" };
          for ps in [
            vec![p.clone()],
            vec![p.clone(), x.clone(), y.clone()],
            vec![x.clone(), p.clone(), y.clone()],
            vec![x.clone(), y.clone(), p.clone()],
            vec![p.clone(), p.clone()],
            vec![SP::Simple('\\'), p.clone()],
            vec![p.clone(), SP::Simple('"')],
            vec![p.clone(), SP::U4(0x41, 0), p.clone()],
          ] {
            lits.push((bucket, ps, None));
          }
        }
        None if is_vertical(c) => {
          let ch = char::from_u32(c).unwrap();
          lits.push(("string:vertical-space", vec![], Some(format!("\"x\\{}y\"", ch))));
          lits.push(("string:vertical-space", vec![], Some(format!("\"x{}y\"", ch))));
          lits.push(("string:vertical-space", vec![], Some(format!("\"{}\"", ch))));
        }
        None => {}
      }
      // every character written as itself
      if c != 0x22 && c != 0x5C && !is_vertical(c) {
        let r = SP::Raw(c);
        for ps in [vec![r.clone()], vec![r.clone(), x.clone()], vec![x.clone(), r.clone(), y.clone()], vec![x.clone(), r.clone()], vec![r.clone(), SP::Simple('n'), r.clone()]] {
          lits.push(("string:raw", ps, None));
        }
      }
      // every code point form at the start, in the middle and at the end, next to hexadecimal digits
      if char::from_u32(c).is_some() {
        let forms: Vec<SP> = if c < 0x10000 { vec![SP::U4(c, 0), SP::U4(c, 0xF), SP::U6(c, 0), SP::U6(c, 0x2A)] } else { vec![SP::U6(c, 0), SP::U6(c, 0x3F), SP::Sur(c, 0), SP::Sur(c, 0xFF), SP::Sur(c, 0x5A)] };
        for f in forms {
          let d = SP::Raw('0' as u32);
          let e = SP::Raw('F' as u32);
          for ps in [vec![f.clone(), d.clone(), e.clone()], vec![d.clone(), f.clone(), e.clone()], vec![e.clone(), d.clone(), f.clone()], vec![f.clone(), f.clone()]] {
            lits.push(("string:code-point", ps, None));
          }
        }
      }
    }
    lits.push(("string:empty", vec![], None));
    let n_random = if thorough { 60_000 } else { 2_500 };
    for i in 0..n_random {
      let n = if i % 50 == 0 { 40 + str_rng.below(200) as usize } else { str_rng.below(9) as usize };
      lits.push(("string:random", (0..n).map(|_| random_piece(&mut str_rng)).collect(), None));
    }
    let mut reqs: Vec<String> = vec![];
    for (_, ps, raw) in &lits {
      let text = match raw {
        Some(t) => t.clone(),
        None => format!("\"{}\"", ps.iter().map(|p| p.text()).collect::<String>()),
      };
      reqs.push(format!("(c06 strlit {})", Sexp::str(&text)));
      reqs.push(format!("(c06 pieces{})", ps.iter().map(|p| format!(" {}", p.sexp())).collect::<String>()));
    }
    let answers = model.ask_batch(&reqs);
    let cps_of = |x: &Sexp| -> Option<String> {
      let l = x.as_list()?;
      if l.first()?.as_atom()? != "s" {
        return None;
      }
      l[1..].iter().map(|c| c.as_atom().and_then(|a| a.parse::<u32>().ok()).and_then(char::from_u32)).collect()
    };
    for (k, (bucket, ps, raw)) in lits.iter().enumerate() {
      let (a_lex, a_spec) = (&answers[2 * k], &answers[2 * k + 1]);
      let text = match raw {
        Some(t) => t.clone(),
        None => format!("\"{}\"", ps.iter().map(|p| p.text()).collect::<String>()),
      };
      let den: String = ps.iter().map(|p| p.den()).collect();
      rep.case(&text, text.chars().any(|c| c == '\\' || c as u32 >= 0x80));
      rep.hit(bucket);
      let im = run_impl(&text);
      // the lexer model on the same text
      let m_lex: Option<Option<String>> = Sexp::parse(a_lex).and_then(|s| {
        let l = s.as_list()?.to_vec();
        match l.first()?.as_atom()? {
          "ok" => {
            let end: usize = l.get(2)?.as_atom()?.parse().ok()?;
            if end == text.chars().count() {
              Some(Some(cps_of(l.get(1)?)?))
            } else {
              Some(None)
            }
          }
          "undef" | "eof" | "err" | "other" => Some(None),
          _ => None,
        }
      });
      match &m_lex {
        None => rep.disagree(Kind::ImplVsModel, "string", "driver-error", &reqs[2 * k], "", a_lex),
        Some(m) => {
          let same = match (&im, m) {
            (Ok(AstNode::String(a)), Some(b)) => a == b,
            (Err(e), None) => !e.starts_with("panic"),
            _ => false,
          };
          if !same {
            rep.disagree(Kind::ImplVsModel, "string", "string literal: the lexer differs from the model of consume_string", &format!("{:?}", text), &show(&im), &format!("{:?}", m));
          }
        }
      }
      if raw.is_some() {
        // a vertical space written as itself: no string literal
        if im.is_ok() {
          rep.disagree(Kind::ImplVsSpec, "string", SIG_STR_VERTICAL, &format!("{:?}", text), &show(&im), "a syntax error");
        }
        continue;
      }
      // the Lean reading of the grammar agrees with the one written out here
      let spec: Option<(bool, String, String)> = Sexp::parse(a_spec).and_then(|s| {
        let l = s.as_list()?.to_vec();
        if l.first()?.as_atom()? != "pieces" {
          return None;
        }
        Some((l.get(1)?.as_atom()? == "true", cps_of(l.get(2)?)?, cps_of(l.get(3)?)?))
      });
      if spec != Some((true, text.clone(), den.clone())) {
        rep.disagree(Kind::ImplVsModel, "string", "string literal: the harness' reading of the grammar differs from Dmn.StringLit", &reqs[2 * k + 1], &format!("{:?}", (true, &text, &den)), &format!("{:?}", spec));
      }
      // the property
      if im != Ok(AstNode::String(den.clone())) {
        let sig = if ps.iter().any(|p| matches!(p, SP::Bs(_))) {
          SIG_STR_BACKSLASH
        } else if ps.iter().all(|p| matches!(p, SP::Raw(_))) {
          SIG_STR_RAW
        } else {
          SIG_STR_ESCAPE
        };
        rep.disagree(Kind::ImplVsSpec, "string", sig, &format!("{} (pieces {:?})", text, ps), &show(&im), &format!("String({:?})", den));
      }
      // the same literal as an operand among others
      if k % 4 == 0 {
        let text2 = format!("[{}, \"z\", {}]", text, text);
        rep.case(&text2, true);
        rep.hit("string:in a list");
        let im2 = run_impl(&text2);
        let want = AstNode::List(vec![AstNode::String(den.clone()), AstNode::String("z".into()), AstNode::String(den.clone())]);
        if im2 != Ok(want) {
          rep.disagree(Kind::ImplVsSpec, "string", "string literal: among other tokens the literal does not denote its string", &text2, &show(&im2), &format!("[String({:?}), String(\"z\"), String({:?})]", den, den));
        }
      }
    }
  }

  // ---------------------------------------------------------------- wide: long flat constructs of every kind
  // Lists, argument lists, context entries, parameters, iteration and quantified contexts, unary tests, type entries and
  // the chains of every operator level at lengths around every power of two, 100, 200 (two stack entries per item) and
  // 1000: the tree is the flat one written out by `wide_case`, whatever the length.
  {
    let obs = wide_observations(thorough);
    if obs.is_empty() {
      rep.disagree(Kind::ImplVsModel, "wide", "the wide family did not run", "", "", "observations");
    }
    let mut sk_reqs = vec![];
    let mut sk_cases = vec![];
    for o in &obs {
      rep.case(&format!("wide|{}|{}", o.construct, o.n), o.n >= 2);
      rep.hit(&format!("wide:{}", o.construct));
      rep.hit(&format!("wide:length {}", if o.n < 99 { "< 99" } else if o.n < 256 { "99..255" } else if o.n < 1000 { "256..999" } else { ">= 1000" }));
      if !o.ok {
        let text = if o.text.chars().count() > 160 { format!("{} … {}", o.text.chars().take(100).collect::<String>(), o.text.chars().rev().take(40).collect::<Vec<char>>().into_iter().rev().collect::<String>()) } else { o.text.clone() };
        rep.disagree(Kind::ImplVsSpec, "wide", &format!("a long flat construct does not parse to its flat tree: {}", o.construct), &format!("{} of length {}: {}", o.construct, o.n, text), &o.got, &o.want);
      }
      if let Some(sk) = &o.skeleton {
        sk_reqs.push(format!("(c06 rt minimal {})", sk.sexp()));
        sk_cases.push((o.construct, o.n, sk.clone()));
      }
    }
    // the reference parser on the same trees (the theorem, observed at these widths) and the tie to the real parser
    let answers = model.ask_batch(&sk_reqs);
    for (((construct, n, sk), req), ans) in sk_cases.iter().zip(sk_reqs.iter()).zip(answers.iter()) {
      let parsed = Sexp::parse(ans);
      let l = parsed.as_ref().and_then(|s| s.as_list());
      let got = l.and_then(|l| if l.len() == 4 { Some((toks_of(&l[1]), model_result(&l[2]), model_result(&l[3]))) } else { None });
      let (toks, m_parse, m_surface) = match got {
        Some((Some(t), Some(p), Some(s))) => (t, p, s),
        _ => {
          rep.disagree(Kind::ImplVsModel, "wide", "driver-error", &req[..req.len().min(300)], "", &ans[..ans.len().min(300)]);
          continue;
        }
      };
      let expected = sk.ast();
      rep.hit("wide:reference parser");
      if m_parse.as_ref() != Some(&expected) {
        rep.disagree(Kind::ImplVsModel, "wide", "Ref.parse (Ref.print minimal t) differs from t", &format!("{} of length {}", construct, n), &show_model(&m_parse), &short(&format!("{:?}", expected)));
      }
      let text = render_plain(&toks);
      let im = run_impl(&text);
      if !same(&im, &m_surface) {
        rep.disagree(Kind::ImplVsModel, "wide", "parse_expression differs from Ref.parseSurface (minimal rendering)", &format!("{} of length {}", construct, n), &show(&im), &show_model(&m_surface));
      }
    }
  }

  // ---------------------------------------------------------------- the whole expression language
  let n_ext = if thorough { 120_000 } else { 6_000 };
  let mut ext_rng = rng.fork();
  let mut constructs: std::collections::BTreeMap<String, u64> = Default::default();
  let path3 = || AstNode::Path(Box::new(AstNode::Path(Box::new(name_ast(0)), Box::new(name_ast(1)))), Box::new(name_ast(2)));
  let num = |k: u32| AstNode::Numeric(k.to_string(), String::new());
  let ext_corpus: Vec<AstNode> = vec![
    // [ a . b . c ]  and  ( a . b . c + 1 ) * 2   — F22
    AstNode::List(vec![path3()]),
    AstNode::Mul(Box::new(AstNode::Add(Box::new(path3()), Box::new(num(1)))), Box::new(num(2))),
    // a instance of number and b  — F23
    AstNode::And(Box::new(AstNode::InstanceOf(Box::new(name_ast(0)), Box::new(AstNode::FeelType(FeelType::Number)))), Box::new(name_ast(1))),
    AstNode::Add(Box::new(AstNode::InstanceOf(Box::new(name_ast(0)), Box::new(AstNode::FeelType(FeelType::String)))), Box::new(num(1))),
    // a between ( if b and c then 1 else 2 ) and 3  — F19 through an `if`
    AstNode::Between(
      Box::new(name_ast(0)),
      Box::new(AstNode::If(Box::new(AstNode::And(Box::new(name_ast(1)), Box::new(name_ast(2)))), Box::new(num(1)), Box::new(num(2)))),
      Box::new(num(3)),
    ),
    // a instance of number = b  (a delimiter follows the type name: fine)
    AstNode::Eq(Box::new(AstNode::InstanceOf(Box::new(name_ast(0)), Box::new(AstNode::FeelType(FeelType::Number)))), Box::new(name_ast(1))),
  ];
  let n_corpus = ext_corpus.len();
  let mut ext_corpus = ext_corpus.into_iter();
  for i in 0..(n_ext + n_corpus) {
    let depth = 1 + (i as u32 % if thorough { 6 } else { 4 });
    let t = match ext_corpus.next() {
      Some(t) => t,
      None => random_ext(&mut ext_rng, depth, 0),
    };
    walk(&t, &mut |x| {
      *constructs.entry(node_name(x)).or_insert(0) += 1;
    });
    for full in [true, false] {
      let p = Printer { lv: &levels, full };
      let marked = p.pr(&t);
      let text = marked.replace('\u{1}', "");
      let mode = if full { "full" } else { "minimal" };
      rep.case(&text, true);
      rep.hit(&format!("extended:{}", mode));
      let im = run_impl(&text);
      if im.as_ref().ok() != Some(&t) {
        let tt = text_tokens(&marked);
        let sig = if ext_between_unsafe(&t) {
          SIG_BETWEEN.to_string()
        } else if text_path_quirk(&tt) {
          SIG_PATH3.to_string()
        } else if text_builtin_tail(&tt) {
          SIG_BUILTIN.to_string()
        } else {
          format!("parse(print_{} t) differs from t (whole expression language, harness printer)", mode)
        };
        rep.disagree(Kind::ImplVsSpec, "extended", &sig, &text, &show(&im), &short(&format!("{:?}", t)));
      }
      if rep.samples.len() < 12 && depth >= 3 && !full {
        rep.sample(json!({"text": text, "implementation": show(&im)}));
      }
    }
  }
  // unary tests
  for i in 0..(n_ext / 10) {
    let n = 1 + ext_rng.below(3);
    let items: Vec<AstNode> = (0..n).map(|_| if ext_rng.chance(1, 2) { range_or_test(&mut ext_rng) } else { random_ext(&mut ext_rng, 1 + (i as u32 % 3), 0) }).collect();
    let t = match ext_rng.below(8) {
      0 => AstNode::Irrelevant,
      1 | 2 => AstNode::NegatedList(items),
      _ => AstNode::ExpressionList(items),
    };
    for full in [true, false] {
      let p = Printer { lv: &levels, full };
      let marked = p.pr(&t);
      let text = marked.replace('\u{1}', "");
      rep.case(&text, true);
      rep.hit("extended:unary-tests");
      let im = run_impl_ut(&text);
      if im.as_ref().ok() != Some(&t) {
        let tt = text_tokens(&marked);
        let sig = if ext_between_unsafe(&t) {
          SIG_BETWEEN.to_string()
        } else if text_path_quirk(&tt) {
          SIG_PATH3.to_string()
        } else if text_builtin_tail(&tt) {
          SIG_BUILTIN.to_string()
        } else {
          "parse_unary_tests(print t) differs from t".to_string()
        };
        rep.disagree(Kind::ImplVsSpec, "extended", &sig, &text, &show(&im), &short(&format!("{:?}", t)));
      }
    }
  }
  rep.extra.insert("extended_constructs".into(), json!(constructs));
  rep.model_requests = model.requests;
  rep.exhaustive = true;
  rep.notes.push("operator pairs are enumerated completely in both tiers; triples completely in the thorough tier".into());
  rep
}

// ------------------------------------------------------------------------------------------
// string literals: every spelling of every string (grammar rules 35, 64, 65 read piece by piece)
// ------------------------------------------------------------------------------------------

const SIG_STR_BACKSLASH: &str = "string literal: a backslash before a character that begins no escape sequence is not an ordinary character of the string";
const SIG_STR_ESCAPE: &str = "string literal: an escape sequence among other pieces does not denote its character";
const SIG_STR_RAW: &str = "string literal: a character written as itself does not denote itself";
const SIG_STR_VERTICAL: &str = "string literal: a literal with a vertical space (U+000A..U+000D) written as itself is accepted";

/// One piece of the body of a string literal (mirrors `Dmn.StringLit.Piece`).
#[derive(Clone, Debug, PartialEq)]
enum SP {
  /// a character other than `"`, `\` and vertical space, standing for itself
  Raw(u32),
  /// `\` and one of `' " \ n r t`
  Simple(char),
  /// `\uXXXX` (code point, case mask: digit i — from the left — in upper case iff bit i is set)
  U4(u32, u32),
  /// `\UXXXXXX`
  U6(u32, u32),
  /// `\uD8xx\uDCxx`
  Sur(u32, u32),
  /// `\` before a character that begins no escape sequence: two ordinary characters
  Bs(u32),
}

fn hex_masked(v: u32, digits: u32, mask: u32, first_bit: u32) -> String {
  (0..digits)
    .map(|i| {
      let d = (v >> (4 * (digits - 1 - i))) & 0xF;
      let c = std::char::from_digit(d, 16).unwrap();
      if mask & (1 << (first_bit + i)) != 0 {
        c.to_ascii_uppercase()
      } else {
        c
      }
    })
    .collect()
}

impl SP {
  fn text(&self) -> String {
    match self {
      SP::Raw(c) => char::from_u32(*c).unwrap().to_string(),
      SP::Simple(l) => format!("\\{}", l),
      SP::U4(c, m) => format!("\\u{}", hex_masked(*c, 4, *m, 0)),
      SP::U6(c, m) => format!("\\U{}", hex_masked(*c, 6, *m, 0)),
      SP::Sur(c, m) => {
        let (hi, lo) = (0xD800 + ((c - 0x10000) >> 10), 0xDC00 + ((c - 0x10000) & 0x3FF));
        format!("\\u{}\\u{}", hex_masked(hi, 4, *m, 0), hex_masked(lo, 4, *m, 4))
      }
      SP::Bs(c) => format!("\\{}", char::from_u32(*c).unwrap()),
    }
  }
  /// The characters the piece stands for (rule 64: `\'` `\"` `\\` `\n` `\r` `\t`, code points; everything else itself).
  fn den(&self) -> String {
    match self {
      SP::Raw(c) | SP::U4(c, _) | SP::U6(c, _) | SP::Sur(c, _) => char::from_u32(*c).unwrap().to_string(),
      SP::Simple(l) => match l {
        'n' => "\n".into(),
        'r' => "\r".into(),
        't' => "\t".into(),
        other => other.to_string(),
      },
      SP::Bs(c) => format!("\\{}", char::from_u32(*c).unwrap()),
    }
  }
  fn sexp(&self) -> String {
    match self {
      SP::Raw(c) => format!("(raw {})", c),
      SP::Simple(l) => format!("(simple {})", *l as u32),
      SP::U4(c, m) => format!("(u4 {} {})", c, m),
      SP::U6(c, m) => format!("(u6 {} {})", c, m),
      SP::Sur(c, m) => format!("(sur {} {})", c, m),
      SP::Bs(c) => format!("(bs {})", c),
    }
  }
}

fn is_vertical(c: u32) -> bool {
  (0x0A..=0x0D).contains(&c)
}

/// What `\` followed by `c` is, by the grammar: a simple escape, the start of a code point, or two ordinary characters.
fn after_backslash(c: u32) -> Option<SP> {
  match char::from_u32(c)? {
    '\'' | '"' | '\\' | 'n' | 'r' | 't' => Some(SP::Simple(char::from_u32(c)?)),
    'u' | 'U' => None,
    _ if is_vertical(c) => None,
    _ => Some(SP::Bs(c)),
  }
}

fn random_scalar(rng: &mut Rng) -> u32 {
  const EDGES: [u32; 40] = [
    0x0, 0x1, 0x8, 0x9, 0xC, 0xE, 0x1F, 0x20, 0x21, 0x27, 0x2F, 0x5B, 0x5D, 0x62, 0x66, 0x7E, 0x7F, 0x80, 0x85, 0xA0, 0xD6, 0xD7, 0x7FF, 0x800, 0x2028, 0x2029, 0xD7FF, 0xE000, 0xFEFF, 0xFFFD, 0xFFFE, 0xFFFF, 0x10000, 0x1F64F,
    0xFFFFF, 0x100000, 0x10FFFE, 0x10FFFF, 0x3FFFF, 0x40000,
  ];
  loop {
    let c = match rng.below(8) {
      0 | 1 => 0x20 + rng.below(0x5F) as u32,
      2 => *rng.pick(&EDGES),
      3 => rng.below(0x80) as u32,
      4 => 0x80 + rng.below(0x780) as u32,
      5 => 0x800 + rng.below(0xF800) as u32,
      6 => 0x10000 + rng.below(0x10000) as u32,
      _ => 0x10000 + rng.below(0x100000) as u32,
    };
    if char::from_u32(c).is_some() {
      return c;
    }
  }
}

fn random_piece(rng: &mut Rng) -> SP {
  loop {
    let c = random_scalar(rng);
    let mask = if rng.chance(1, 3) { 0 } else if rng.chance(1, 2) { 0xFF } else { rng.below(256) as u32 };
    let p = match rng.below(9) {
      0 | 1 => {
        if c == 0x22 || c == 0x5C || is_vertical(c) {
          continue;
        }
        SP::Raw(c)
      }
      2 => SP::Simple(*rng.pick(&['\'', '"', '\\', 'n', 'r', 't'])),
      3 if c < 0x10000 => SP::U4(c, mask),
      4 => SP::U6(c, mask),
      5 if c >= 0x10000 => SP::Sur(c, mask),
      6 | 7 => match after_backslash(if rng.chance(2, 3) { rng.below(0x80) as u32 } else { c }) {
        Some(p) => p,
        None => continue,
      },
      _ => continue,
    };
    return p;
  }
}

// ------------------------------------------------------------------------------------------
// wide: long flat constructs of every kind
// ------------------------------------------------------------------------------------------

/// One observation of the `wide` family, made on a thread with a large stack (the trees of the chain constructs are as
/// deep as they are long; `Debug`, `PartialEq` and `Drop` of `AstNode` recurse).
struct WideObs {
  construct: &'static str,
  n: usize,
  text: String,
  ok: bool,
  got: String,
  want: String,
  /// the tree as the skeleton type, when the construct has one (sent to the reference parser up to a length bound)
  skeleton: Option<T>,
}

fn wide_lengths(thorough: bool) -> Vec<usize> {
  let mut v: Vec<usize> = vec![1, 2, 3, 5, 10, 50, 97, 98, 99, 100, 101, 102, 150, 197, 198, 199, 200, 201, 202, 250, 300, 500, 999, 1000, 1001];
  let mut p = 4usize;
  let top = if thorough { 4096 } else { 1024 };
  while p <= top {
    v.extend([p - 1, p, p + 1]);
    p *= 2;
  }
  if thorough {
    v.extend([3000, 5000]);
  }
  v.sort();
  v.dedup();
  v
}

/// Every construct of the grammar that takes a sequence of unbounded length (feel.y: `list_tail`,
/// `positional_parameters_tail`, `named_parameters_tail`, `context_entry_tail`, `formal_parameters` tail,
/// `iteration_contexts`, `quantified_contexts`, `positive_unary_tests` / `expressions`, `context_type_entry_tail`,
/// `parameter_types`, qualified names) and the chains that are flat in the text and nested in the tree (binary operators
/// of every level, unary minus, path, filter, invocation, nested parentheses, lists and `if`): the text, and the tree
/// it denotes written out directly.
fn wide_case(construct: &'static str, n: usize) -> Option<(String, AstNode, Option<T>, bool)> {
  let num = |i: usize| AstNode::Numeric(i.to_string(), String::new());
  let nm = |s: String| Name::from(s.as_str());
  let bx = |a: AstNode| Box::new(a);
  let a = || name_ast(0);
  let nums: Vec<AstNode> = (1..=n).map(num).collect();
  let num_text = |sep: &str| (1..=n).map(|i| i.to_string()).collect::<Vec<_>>().join(sep);
  let tnums: Vec<T> = (1..=n).map(T::Num).collect();
  let chain = |op: Op, mk: fn(Box<AstNode>, Box<AstNode>) -> AstNode, sym: &str| {
    let mut t = num(1);
    let mut sk = T::Num(1);
    for i in 2..=n {
      t = mk(Box::new(t), Box::new(num(i)));
      sk = T::Bin(op, Box::new(sk), Box::new(T::Num(i)));
    }
    (num_text(&format!(" {} ", sym)), t, Some(sk), false)
  };
  Some(match construct {
    "list items" => (format!("[{}]", num_text(", ")), AstNode::List(nums), Some(T::List(tnums)), false),
    "list items, no blanks" => (format!("[{}]", num_text(",")), AstNode::List(nums), None, false),
    "positional arguments" => (
      format!("a({})", num_text(", ")),
      AstNode::FunctionInvocation(bx(a()), bx(AstNode::PositionalParameters(nums))),
      Some(T::Call(Box::new(T::Name(0)), tnums)),
      false,
    ),
    "named arguments" => (
      format!("a({})", (1..=n).map(|i| format!("p{}: {}", i, i)).collect::<Vec<_>>().join(", ")),
      AstNode::FunctionInvocation(bx(a()), bx(AstNode::NamedParameters((1..=n).map(|i| AstNode::NamedParameter(bx(AstNode::ParameterName(nm(format!("p{}", i)))), bx(num(i)))).collect()))),
      None,
      false,
    ),
    "context entries" => (
      format!("{{{}}}", (1..=n).map(|i| format!("k{}: {}", i, i)).collect::<Vec<_>>().join(", ")),
      AstNode::Context((1..=n).map(|i| AstNode::ContextEntry(bx(AstNode::ContextEntryKey(nm(format!("k{}", i)))), bx(num(i)))).collect()),
      None,
      false,
    ),
    "context entries, string keys" => (
      format!("{{{}}}", (1..=n).map(|i| format!("\"k {}\": {}", i, i)).collect::<Vec<_>>().join(", ")),
      AstNode::Context((1..=n).map(|i| AstNode::ContextEntry(bx(AstNode::ContextEntryKey(nm(format!("k {}", i)))), bx(num(i)))).collect()),
      None,
      false,
    ),
    "formal parameters" => (
      format!("function ({}) p1", (1..=n).map(|i| format!("p{}", i)).collect::<Vec<_>>().join(", ")),
      AstNode::FunctionDefinition(
        bx(AstNode::FormalParameters((1..=n).map(|i| AstNode::FormalParameter(bx(AstNode::ParameterName(nm(format!("p{}", i)))), bx(AstNode::FeelType(FeelType::Any)))).collect())),
        bx(AstNode::FunctionBody(bx(AstNode::Name(nm("p1".into()))), false)),
      ),
      None,
      false,
    ),
    "typed formal parameters" => (
      format!("function ({}) p1", (1..=n).map(|i| format!("p{}: number", i)).collect::<Vec<_>>().join(", ")),
      AstNode::FunctionDefinition(
        bx(AstNode::FormalParameters((1..=n).map(|i| AstNode::FormalParameter(bx(AstNode::ParameterName(nm(format!("p{}", i)))), bx(AstNode::FeelType(FeelType::Number)))).collect())),
        bx(AstNode::FunctionBody(bx(AstNode::Name(nm("p1".into()))), false)),
      ),
      None,
      false,
    ),
    "in-list items" if n >= 2 => (
      format!("a in ({})", num_text(", ")),
      AstNode::In(bx(a()), bx(AstNode::ExpressionList(nums))),
      Some(T::InList(Box::new(T::Name(0)), tnums)),
      false,
    ),
    "iteration contexts of for" => (
      format!("for {} return x1", (1..=n).map(|i| format!("x{} in a", i)).collect::<Vec<_>>().join(", ")),
      AstNode::For(
        bx(AstNode::IterationContexts((1..=n).map(|i| AstNode::IterationContextSingle(bx(AstNode::Name(nm(format!("x{}", i)))), bx(a()))).collect())),
        bx(AstNode::EvaluatedExpression(bx(AstNode::Name(nm("x1".into()))))),
      ),
      None,
      false,
    ),
    "range iteration contexts of for" => (
      format!("for {} return x1", (1..=n).map(|i| format!("x{} in 1..{}", i, i)).collect::<Vec<_>>().join(", ")),
      AstNode::For(
        bx(AstNode::IterationContexts((1..=n).map(|i| AstNode::IterationContextRange(bx(AstNode::Name(nm(format!("x{}", i)))), bx(num(1)), bx(num(i)))).collect())),
        bx(AstNode::EvaluatedExpression(bx(AstNode::Name(nm("x1".into()))))),
      ),
      None,
      false,
    ),
    "quantified contexts of some" | "quantified contexts of every" => {
      let ctxs = bx(AstNode::QuantifiedContexts((1..=n).map(|i| AstNode::QuantifiedContext(bx(AstNode::Name(nm(format!("x{}", i)))), bx(a()))).collect()));
      let sat = bx(AstNode::Satisfies(bx(AstNode::Name(nm("x1".into())))));
      let every = construct.ends_with("every");
      (
        format!("{} {} satisfies x1", if every { "every" } else { "some" }, (1..=n).map(|i| format!("x{} in a", i)).collect::<Vec<_>>().join(", ")),
        if every { AstNode::Every(ctxs, sat) } else { AstNode::Some(ctxs, sat) },
        None,
        false,
      )
    }
    "unary tests" => (num_text(", "), AstNode::ExpressionList(nums), None, true),
    "negated unary tests" => (format!("not({})", num_text(", ")), AstNode::NegatedList(nums), None, true),
    "context type entries" => (
      format!("a instance of context<{}>", (1..=n).map(|i| format!("k{}: number", i)).collect::<Vec<_>>().join(", ")),
      AstNode::InstanceOf(bx(a()), bx(AstNode::ContextType((1..=n).map(|i| AstNode::ContextTypeEntry(bx(AstNode::ContextTypeEntryKey(nm(format!("k{}", i)))), bx(AstNode::FeelType(FeelType::Number)))).collect()))),
      None,
      false,
    ),
    "function type parameters" => (
      format!("a instance of function<{}> -> string", (1..=n).map(|_| "number").collect::<Vec<_>>().join(", ")),
      AstNode::InstanceOf(bx(a()), bx(AstNode::FunctionType(bx(AstNode::ParameterTypes((1..=n).map(|_| AstNode::FeelType(FeelType::Number)).collect())), bx(AstNode::FeelType(FeelType::String))))),
      None,
      false,
    ),
    "qualified name segments" => (
      // bound single-word names (the token boundaries of unbound names joined by `.` are C10's)
      format!("a instance of {}", (1..=n).map(|i| NAMES[i % 10].to_string()).collect::<Vec<_>>().join(".")),
      AstNode::InstanceOf(bx(a()), bx(AstNode::QualifiedName((1..=n).map(|i| AstNode::QualifiedNameSegment(Name::from(NAMES[i % 10]))).collect()))),
      None,
      false,
    ),
    // chains: flat in the text, nested in the tree
    "chain of or" => chain(Op::Or, AstNode::Or, "or"),
    "chain of and" => chain(Op::And, AstNode::And, "and"),
    "chain of +" => chain(Op::Add, AstNode::Add, "+"),
    "chain of -" => chain(Op::Sub, AstNode::Sub, "-"),
    "chain of *" => chain(Op::Mul, AstNode::Mul, "*"),
    "chain of /" => chain(Op::Div, AstNode::Div, "/"),
    "chain of **" => chain(Op::Exp, AstNode::Exp, "**"),
    "chain of in" => {
      // `in` associates to the right (feel.y:79)
      let mut t = num(n);
      let mut sk = T::Num(n);
      for i in (1..n).rev() {
        t = AstNode::In(bx(num(i)), bx(t));
        sk = T::Bin(Op::In, Box::new(T::Num(i)), Box::new(sk));
      }
      (num_text(" in "), t, Some(sk), false)
    }
    "chain of + and *" => {
      // 1 * 1 + 2 * 2 + …: sums of products
      let prod = |i: usize| AstNode::Mul(bx(num(i)), bx(num(i)));
      let mut t = prod(1);
      for i in 2..=n {
        t = AstNode::Add(bx(t), bx(prod(i)));
      }
      ((1..=n).map(|i| format!("{} * {}", i, i)).collect::<Vec<_>>().join(" + "), t, None, false)
    }
    "chain of unary minus" => {
      let mut t = num(1);
      let mut sk = T::Num(1);
      for _ in 0..n {
        t = AstNode::Neg(bx(t));
        sk = T::Neg(Box::new(sk));
      }
      (format!("{}1", "- ".repeat(n)), t, Some(sk), false)
    }
    "path segments" => {
      let mut t = a();
      for i in 1..=n {
        t = AstNode::Path(bx(t), bx(name_ast(i % 10)));
      }
      (format!("a{}", (1..=n).map(|i| format!(".{}", NAMES[i % 10])).collect::<String>()), t, None, false)
    }
    "filters in a row" => {
      let mut t = a();
      let mut sk = T::Name(0);
      for i in 1..=n {
        t = AstNode::Filter(bx(t), bx(num(i)));
        sk = T::Filter(Box::new(sk), Box::new(T::Num(i)));
      }
      (format!("a{}", (1..=n).map(|i| format!("[{}]", i)).collect::<String>()), t, Some(sk), false)
    }
    "invocations in a row" => {
      let mut t = a();
      let mut sk = T::Name(0);
      for i in 1..=n {
        t = AstNode::FunctionInvocation(bx(t), bx(AstNode::PositionalParameters(vec![num(i)])));
        sk = T::Call(Box::new(sk), vec![T::Num(i)]);
      }
      (format!("a{}", (1..=n).map(|i| format!("({})", i)).collect::<String>()), t, Some(sk), false)
    }
    "nested parentheses" => (format!("{}1{}", "(".repeat(n), ")".repeat(n)), num(1), None, false),
    "nested lists" => {
      let mut t = num(1);
      for _ in 0..n {
        t = AstNode::List(vec![t]);
      }
      (format!("{}1{}", "[".repeat(n), "]".repeat(n)), t, None, false)
    }
    "else-if chain" => {
      let mut t = num(0);
      for i in (1..=n).rev() {
        t = AstNode::If(bx(a()), bx(num(i)), bx(t));
      }
      (format!("{}0", (1..=n).map(|i| format!("if a then {} else ", i)).collect::<String>()), t, None, false)
    }
    "nested contexts" => {
      let mut t = num(1);
      for _ in 0..n {
        t = AstNode::Context(vec![AstNode::ContextEntry(bx(AstNode::ContextEntryKey(nm("k".into()))), bx(t))]);
      }
      (format!("{}1{}", "{k: ".repeat(n), "}".repeat(n)), t, None, false)
    }
    _ => return None,
  })
}

const WIDE_CONSTRUCTS: [&str; 36] = [
  "list items",
  "list items, no blanks",
  "positional arguments",
  "named arguments",
  "context entries",
  "context entries, string keys",
  "formal parameters",
  "typed formal parameters",
  "in-list items",
  "iteration contexts of for",
  "range iteration contexts of for",
  "quantified contexts of some",
  "quantified contexts of every",
  "unary tests",
  "negated unary tests",
  "context type entries",
  "function type parameters",
  "qualified name segments",
  "chain of or",
  "chain of and",
  "chain of +",
  "chain of -",
  "chain of *",
  "chain of /",
  "chain of **",
  "chain of in",
  "chain of + and *",
  "chain of unary minus",
  "path segments",
  "filters in a row",
  "invocations in a row",
  "nested parentheses",
  "nested lists",
  "else-if chain",
  "nested contexts",
  "",
];

fn wide_observations(thorough: bool) -> Vec<WideObs> {
  let lengths = wide_lengths(thorough);
  let work = move || {
    let mut out = vec![];
    for construct in WIDE_CONSTRUCTS {
      for &n in &lengths {
        // the constructs that nest are as deep as they are long: the recursive consumers of the tree set the bound
        let nests = construct.starts_with("chain") || construct.starts_with("nested") || construct.ends_with("in a row") || construct == "path segments" || construct == "else-if chain";
        if nests && n > 2100 {
          continue;
        }
        // a run of names joined by `.` is re-scanned by the lexer for every prefix of every suffix (cubic)
        // (so is a text in which words, keywords and numbers follow each other without any other token: `if a then 1 else if …`)
        if (construct == "path segments" || construct == "qualified name segments" || construct == "else-if chain") && n > 130 {
          continue;
        }
        let t0 = std::time::Instant::now();
        let (text, want, skeleton, unary) = match wide_case(construct, n) {
          Some(c) => c,
          None => continue,
        };
        crate::util::beat();
        let got = if unary { run_impl_ut(&text) } else { run_impl(&text) };
        let ok = got.as_ref().ok() == Some(&want);
        let (g, w) = if ok { (String::new(), String::new()) } else { (show(&got), short(&format!("{:?}", want))) };
        // dropping a deep tree recurses as well: do it here, on the large stack
        drop(got);
        drop(want);
        out.push(WideObs { construct, n, text, ok, got: g, want: w, skeleton: if n <= 130 { skeleton } else { None } });
        if std::env::var("VERIF_WIDE_TIMES").is_ok() && t0.elapsed().as_millis() > 200 {
          eprintln!("wide: {} of length {}: {} ms", construct, n, t0.elapsed().as_millis());
        }
      }
    }
    out
  };
  match std::thread::Builder::new().stack_size(1 << 30).spawn(work) {
    Ok(h) => h.join().unwrap_or_default(),
    Err(_) => vec![],
  }
}

fn probe() -> ! {
  use std::io::BufRead;
  let stdin = std::io::stdin();
  for line in stdin.lock().lines() {
    let line = line.unwrap();
    let line = line.replace("\\n", "\n");
    let r = if let Some(rest) = line.strip_prefix("UT:") { run_impl_ut(rest) } else { run_impl(&line) };
    println!("{:40} => {}", line, show(&r));
  }
  std::process::exit(0);
}
