//! C08 — built-in functions return their specified value for all arguments; named = positional.
//! Also the built-in part of C05(a): no built-in panics (every call runs under `guarded`).
//!
//! Implementation: `parse + evaluate` of the FEEL texts `f(a1, …)` and `f(p1: a1, …)`.
//! Model: `(c08 call checked <name> positional|named …)` — the regenerated dispatch tables
//! interpreted over `Dmn.Bif.core_*`.  Specification: `(c08 spec <name> …)` — `Dmn.Spec.apply`; for `mode` and
//! `stddev` the declarative `Dmn.Spec.mode` / `Dmn.Spec.stddev` (`Spec.applyStats`; theorems `core_mode_spec`,
//! `core_stddev_spec`), compared with the exact representation (`stats_families`).
//!
//! Compared: implementation = model (ImplVsModel, exact representation, panics included),
//! implementation = specification (ImplVsSpec, numbers by value), named = positional on the
//! implementation alone (ImplVsSpec), no panic (ImplVsSpec `panic in <bif>`).
//! `matches` / `replace` / `split` with flags, the flag q and empty delimiters: a written-out
//! expectation (`regex_oracle`; the `regex` crate is not modelled).  `sort`: the stable arrangement
//! under the ordering function as a direct invocation evaluates it (`sort_law`).

use crate::model::Model;
use crate::report::{Kind, Report};
use crate::rng::Rng;
use crate::sexp::Sexp;
use crate::util::guarded;
use crate::vals::value_sexp;
use crate::Cfg;
use dmntk_feel::values::Value;
use dmntk_feel::Scope;
use serde_json::json;
use std::collections::HashMap;

/// parameter names of the specification (mirrors `Dmn.Spec.signatures` for the functions of C08)
fn signature(bif: &str) -> Option<(Vec<&'static str>, usize)> {
  Some(match bif {
    "substring" => (vec!["string", "start position", "length"], 2),
    "string length" => (vec!["string"], 1),
    "substring before" | "substring after" | "contains" | "starts with" | "ends with" => (vec!["string", "match"], 2),
    "replace" => (vec!["input", "pattern", "replacement", "flags"], 3),
    "matches" => (vec!["input", "pattern", "flags"], 2),
    "split" => (vec!["string", "delimiter"], 2),
    "list contains" => (vec!["list", "element"], 2),
    "count" | "min" | "max" | "sum" | "mean" | "all" | "any" | "reverse" | "distinct values" | "flatten" | "median" | "stddev" | "mode" => (vec!["list"], 1),
    "sublist" => (vec!["list", "start position", "length"], 2),
    "insert before" => (vec!["list", "position", "newItem"], 3),
    "remove" => (vec!["list", "position"], 2),
    "index of" => (vec!["list", "match"], 2),
    "sort" => (vec!["list", "precedes"], 2),
    "get value" => (vec!["m", "key"], 2),
    "get entries" => (vec!["m"], 1),
    "not" => (vec!["negand"], 1),
    "number" => (vec!["from", "grouping separator", "decimal separator"], 3),
    "string" => (vec!["from"], 1),
    _ => return None,
  })
}

pub const BIFS: &[&str] = &[
  "substring", "string length", "contains", "starts with", "ends with", "substring before", "substring after", "matches", "replace", "split",
  "count", "min", "max", "sum", "mean", "median", "mode", "stddev", "all", "any", "sublist", "append", "concatenate", "insert before", "remove",
  "reverse", "index of", "union", "distinct values", "flatten", "sort", "list contains", "get value", "get entries", "not", "number", "string",
];

/// the built-ins of the property that take any number of arguments (`positional.rs`: an arm `_ =>` / `parameters.len() > 1`)
pub const VARIADIC: &[&str] = &["all", "any", "append", "concatenate", "max", "mean", "median", "min", "mode", "stddev", "sum", "union"];

#[derive(Clone)]
struct Call {
  bif: &'static str,
  args: Vec<String>,
  family: &'static str,
}

fn lit_str(s: &str) -> String {
  let mut out = String::from("\"");
  for c in s.chars() {
    match c {
      '"' => out.push_str("\\\""),
      '\\' => out.push_str("\\\\"),
      '\n' => out.push_str("\\n"),
      '\t' => out.push_str("\\t"),
      c => out.push(c),
    }
  }
  out.push('"');
  out
}

const CHARS: &[char] = &['a', 'b', 'c', 'A', ' ', 'é', 'ß', '日', '\u{FB03}', '🙏', '🐎', '𝄞', '"', '1', '.', ','];

fn rand_string(rng: &mut Rng, max: u64) -> String {
  let len = rng.below(max + 1);
  (0..len).map(|_| *rng.pick(CHARS)).collect()
}

fn fixed_strings() -> Vec<String> {
  ["", "a", "ab", "abc", "foobar", "a🙏c", "é日🙏", " x ", "🙏🙏", "🙏a🐎b𝄞c日é", "aaa", "abab", "a\"b", "日本語テキスト", "ab🙏ab🙏"].iter().map(|s| s.to_string()).collect()
}

/// scalar literals used as list items / wrong-type arguments
fn scalar_pool() -> Vec<&'static str> {
  vec!["null", "true", "false", "0", "1", "2", "3", "-1", "1.0", "1.5", "2.50", "10", "\"a\"", "\"b\"", "\"\"", "\"🙏\"", "\"é\""]
}

fn rand_item(rng: &mut Rng, depth: u32) -> String {
  let k = rng.below(if depth == 0 { 17 } else { 22 });
  match k {
    0..=16 => scalar_pool()[k as usize].to_string(),
    17 | 18 | 19 => rand_list(rng, 3, depth - 1),
    20 => format!("{{a: {}}}", rand_item(rng, depth - 1)),
    _ => format!("{{a: {}, b: {}}}", rand_item(rng, depth - 1), rand_item(rng, depth - 1)),
  }
}

fn rand_list(rng: &mut Rng, max: u64, depth: u32) -> String {
  let len = rng.below(max + 1);
  let mut items: Vec<String> = vec![];
  for _ in 0..len {
    if !items.is_empty() && rng.chance(1, 4) {
      // a duplicate
      let d = rng.pick(&items).clone();
      items.push(d);
    } else {
      items.push(rand_item(rng, depth));
    }
  }
  format!("[{}]", items.join(", "))
}

fn list_of_len(rng: &mut Rng, len: usize) -> String {
  let mut items: Vec<String> = vec![];
  for _ in 0..len {
    if !items.is_empty() && rng.chance(1, 4) {
      let d = rng.pick(&items).clone();
      items.push(d);
    } else {
      items.push(rand_item(rng, 1));
    }
  }
  format!("[{}]", items.join(", "))
}

/// every position / length from -(n+2) to n+2, non-integers, integers written with a fraction, bounds of usize / isize
fn positions(n: usize) -> Vec<String> {
  let n = n as i64;
  let mut v: Vec<String> = (-(n + 2)..=(n + 2)).map(|i| i.to_string()).collect();
  for s in ["1.5", "0.5", "-1.5", "2.0", "1.0", "-1.0", "-0", "0.0", "1.00"] {
    v.push(s.to_string());
  }
  v
}

fn extreme_numbers() -> Vec<&'static str> {
  vec![
    "18446744073709551615",
    "18446744073709551616",
    "18446744073709551614",
    "9223372036854775807",
    "9223372036854775808",
    "-9223372036854775808",
    "-9223372036854775809",
    "-18446744073709551615",
    "1000000000000000000000000000000",
    "-1000000000000000000000000000000",
    "0.000000001",
  ]
}

// ------------------------------------------------------------------------------------------------
// Written-out expectation for `matches` / `replace` / `split` (the `regex` crate is not modelled):
// the meaning of a pattern is known here when it is a literal (no metacharacters), under the flags
// "", s, m, x (no effect on a literal), i (letter case ignored; only where no character has a non-ASCII
// case mapping), and for ANY pattern text under the flag q of `replace` (every character stands for
// itself, XPath F&O 3.0 5.6.1.1; q may be combined with i).  Flags outside the domain: a value that is
// not a string (null = absent is left out), for `matches` also a string with a letter other than s m i x
// (XPath F&O 2.0 7.6.1.1, error FORX0001 = null in FEEL).  A delimiter of `split` that matches the empty
// string is an error of fn:tokenize (FORX0003) = null.

/// sampling divisor: the thorough tier takes (nearly) the whole grid
fn scale_div(thorough: bool) -> u64 {
  if thorough {
    1
  } else {
    2
  }
}

/// inverse of `lit_str`
fn unlit(t: &str) -> Option<String> {
  if t.len() < 2 {
    return None;
  }
  let inner = t.strip_prefix('"')?.strip_suffix('"')?;
  let mut out = String::new();
  let mut it = inner.chars();
  while let Some(c) = it.next() {
    match c {
      '\\' => match it.next()? {
        '"' => out.push('"'),
        '\\' => out.push('\\'),
        'n' => out.push('\n'),
        't' => out.push('\t'),
        _ => return None,
      },
      '"' => return None,
      c => out.push(c),
    }
  }
  Some(out)
}

/// mirrors `Dmn.Bif.isMeta` (white space and `#` matter under the flag x)
fn is_meta(c: char) -> bool {
  "\\.+*?()|[]{}^$#&-~".contains(c) || c.is_whitespace()
}

fn literal_pattern(p: &str) -> bool {
  !p.is_empty() && !p.chars().any(is_meta)
}

/// no character of the text has a case mapping outside ASCII (so "letter case ignored" is ASCII case folding)
fn ascii_case_only(t: &str) -> bool {
  t.chars().all(|c| c.is_ascii() || (c.to_lowercase().eq(std::iter::once(c)) && c.to_uppercase().eq(std::iter::once(c))))
}

fn same_char(a: char, b: char, ci: bool) -> bool {
  if ci {
    a.to_ascii_lowercase() == b.to_ascii_lowercase()
  } else {
    a == b
  }
}

/// pieces of `s` between the non-overlapping occurrences (from the left) of the non-empty text `pat`
fn split_lit(s: &str, pat: &str, ci: bool) -> Vec<String> {
  let cs: Vec<char> = s.chars().collect();
  let ps: Vec<char> = pat.chars().collect();
  let mut out = vec![];
  let mut cur = String::new();
  let mut i = 0;
  while i < cs.len() {
    if i + ps.len() <= cs.len() && (0..ps.len()).all(|k| same_char(cs[i + k], ps[k], ci)) {
      out.push(std::mem::take(&mut cur));
      i += ps.len();
    } else {
      cur.push(cs[i]);
      i += 1;
    }
  }
  out.push(cur);
  out
}

enum Want {
  Null,
  Bool(bool),
  Str(String),
  Strs(Vec<String>),
}

impl Want {
  fn show(&self) -> String {
    match self {
      Want::Null => "null".to_string(),
      Want::Bool(b) => b.to_string(),
      Want::Str(s) => lit_str(s),
      Want::Strs(v) => format!("[{}]", v.iter().map(|x| lit_str(x)).collect::<Vec<_>>().join(", ")),
    }
  }
  fn is(&self, v: &Value) -> bool {
    match (self, v) {
      (Want::Null, Value::Null(_)) => true,
      (Want::Bool(a), Value::Boolean(b)) => a == b,
      (Want::Str(a), Value::String(b)) => a == b,
      (Want::Strs(a), Value::List(items)) => {
        let items = items.as_vec();
        items.len() == a.len() && items.iter().zip(a.iter()).all(|(i, w)| matches!(i, Value::String(x) if x == w))
      }
      _ => false,
    }
  }
}

/// how a flags argument reads
enum Flags {
  Absent,
  /// a string of distinct letters out of s m i x q
  Letters(String),
  /// a string with another character, or with a repeated letter
  OtherString(String),
  /// the literal null (absent or outside the domain: left open)
  NullLiteral,
  /// a value that is not a string
  NotAString,
}

fn read_flags(arg: Option<&String>) -> Flags {
  match arg {
    None => Flags::Absent,
    Some(t) if t == "null" => Flags::NullLiteral,
    Some(t) => match unlit(t) {
      Some(f) => {
        let distinct = f.chars().enumerate().all(|(i, c)| !f.chars().take(i).any(|d| d == c));
        if f.chars().all(|c| "smixq".contains(c)) && distinct {
          Flags::Letters(f)
        } else {
          Flags::OtherString(f)
        }
      }
      None if t.starts_with('"') => Flags::OtherString(t.clone()),
      None => Flags::NotAString,
    },
  }
}

/// The specified value of a `matches` / `replace` / `split` call and the signature of a deviation, where this
/// module knows it (see above); arguments are the literal texts of the call.
fn regex_oracle_literal(call: &Call) -> Option<(Want, &'static str)> {
  let a = &call.args;
  match (call.bif, a.len()) {
    ("matches", 2) | ("matches", 3) => {
      let (s, p) = (unlit(&a[0])?, unlit(&a[1])?);
      let verdict = |ci: bool| -> Option<Want> {
        if p.is_empty() {
          Some(Want::Bool(true))
        } else if literal_pattern(&p) && (!ci || (ascii_case_only(&p) && ascii_case_only(&s))) {
          Some(Want::Bool(split_lit(&s, &p, ci).len() > 1))
        } else {
          None
        }
      };
      match read_flags(a.get(2)) {
        Flags::Absent => Some((verdict(false)?, "matches differs from the literal-pattern semantics")),
        Flags::Letters(f) if f.is_empty() => Some((verdict(false)?, "matches: an empty flags string is rejected")),
        Flags::Letters(f) if !f.contains('q') => Some((verdict(f.contains('i'))?, "matches differs from the literal-pattern semantics under the flags s m i x")),
        Flags::Letters(_) => None,
        Flags::OtherString(f) if unlit(&a[2]).is_some() && f.chars().any(|c| !"smixq".contains(c)) => Some((Want::Null, "matches: a flags string with a letter other than s m i x is accepted")),
        Flags::OtherString(_) | Flags::NullLiteral => None,
        Flags::NotAString => Some((Want::Null, "matches: flags that are not a string are ignored")),
      }
    }
    ("replace", 3) | ("replace", 4) => {
      let (s, p, r) = (unlit(&a[0])?, unlit(&a[1])?, unlit(&a[2])?);
      if p.is_empty() || r.contains('$') || r.contains('\\') {
        return None;
      }
      let verdict = |ci: bool, quoted: bool| -> Option<Want> {
        if (quoted || literal_pattern(&p)) && (!ci || (ascii_case_only(&p) && ascii_case_only(&s))) {
          Some(Want::Str(split_lit(&s, &p, ci).join(&r)))
        } else {
          None
        }
      };
      match read_flags(a.get(3)) {
        Flags::Absent => Some((verdict(false, false)?, "replace differs from the literal-pattern semantics")),
        Flags::Letters(f) => {
          let ci = f.contains('i');
          if f.contains('q') && !f.chars().any(|c| "smx".contains(c)) {
            // q alone or with i: every pattern text is a literal
            Some((verdict(ci, true)?, "replace: under the flag q a character of the pattern does not stand for itself"))
          } else {
            // q with s / m / x: XPath lets q win, the code lets the other flag win; both agree on a literal pattern
            Some((verdict(ci, false)?, "replace differs from the literal-pattern semantics under flags"))
          }
        }
        // unknown letters are ignored by `replace` (pinned by the repository test bif_replace::_0031): left open
        Flags::OtherString(_) | Flags::NullLiteral => None,
        Flags::NotAString => Some((Want::Null, "replace: flags that are not a string are ignored")),
      }
    }
    ("split", 2) => {
      let (s, d) = (unlit(&a[0])?, unlit(&a[1])?);
      if d.is_empty() {
        Some((Want::Null, "split: a delimiter that matches the empty string is accepted"))
      } else if literal_pattern(&d) {
        Some((Want::Strs(split_lit(&s, &d, false)), "split differs from the literal-delimiter semantics"))
      } else {
        None
      }
    }
    _ => None,
  }
}

/// The same for patterns that are regular expressions proper: the verdict of the second implementation `rx`
/// (counted repetitions, alternation, classes, groups, anchors, the flags s m i x, `$N` in the replacement).
fn regex_oracle_rx(call: &Call) -> Option<(Want, &'static str)> {
  let a = &call.args;
  let letters = |arg: Option<&String>| -> Option<String> {
    match read_flags(arg) {
      Flags::Absent => Some(String::new()),
      Flags::Letters(f) if !f.contains('q') => Some(f),
      _ => None,
    }
  };
  match (call.bif, a.len()) {
    ("matches", 2) | ("matches", 3) => {
      let (s, p) = (unlit(&a[0])?, unlit(&a[1])?);
      match rx::verdict('m', &s, &p, &letters(a.get(2))?, "")? {
        rx::Verdict::Invalid => Some((Want::Null, "matches: a pattern that is not a regular expression is accepted")),
        rx::Verdict::Matches(b) => Some((Want::Bool(b), "matches differs from the regular-expression semantics (second implementation)")),
        _ => None,
      }
    }
    ("replace", 3) | ("replace", 4) => {
      let (s, p, r) = (unlit(&a[0])?, unlit(&a[1])?, unlit(&a[2])?);
      match rx::verdict('r', &s, &p, &letters(a.get(3))?, &r)? {
        rx::Verdict::Invalid => Some((Want::Null, "replace: a pattern that is not a regular expression is accepted")),
        rx::Verdict::Replaced(t) => Some((Want::Str(t), "replace differs from the regular-expression semantics (second implementation)")),
        _ => None,
      }
    }
    ("split", 2) => {
      let (s, d) = (unlit(&a[0])?, unlit(&a[1])?);
      match rx::verdict('s', &s, &d, "", "")? {
        rx::Verdict::Invalid => Some((Want::Null, "split: a delimiter that is not a regular expression is accepted")),
        rx::Verdict::MatchesEmpty => Some((Want::Null, "split: a delimiter that matches the empty string is accepted")),
        rx::Verdict::Pieces(v) => Some((Want::Strs(v), "split differs from the regular-expression semantics (second implementation)")),
        _ => None,
      }
    }
    _ => None,
  }
}

fn regex_oracle(call: &Call) -> Option<(Want, &'static str)> {
  regex_oracle_literal(call).or_else(|| regex_oracle_rx(call))
}

/// Patterns built from every construct `rx` knows, each with a text it matches: (pattern, the same pattern
/// written for the flag x, a matching text).
fn rx_pattern(rng: &mut Rng) -> (String, String, String) {
  const ALPHA: &[char] = &['a', 'b', 'c', 'x', '1', '2', ',', '-', ' ', 'é'];
  const META: &[char] = &['.', '+', '*', '?', '(', ')', '|', '[', ']', '{', '}', '^', '$', '\\', '-'];
  // (text, sample, can match the empty string)
  fn atom(rng: &mut Rng, depth: u32) -> (String, String, bool) {
    match rng.below(if depth == 0 { 9 } else { 12 }) {
      0..=2 => {
        let c = *rng.pick(ALPHA);
        (c.to_string(), c.to_string(), false)
      }
      3 => {
        let c = *rng.pick(META);
        (format!("\\{}", c), c.to_string(), false)
      }
      4 => (".".to_string(), rng.pick(ALPHA).to_string(), false),
      5 | 6 => {
        let negated = rng.chance(1, 4);
        let (body, member, outsider) = match rng.below(6) {
          0 => ("abc", 'b', 'x'),
          1 => ("a-c", 'c', '1'),
          2 => ("0-9", '2', 'a'),
          3 => ("a1,", ',', 'b'),
          4 => ("-a", '-', 'c'),
          _ => ("\\dx", 'x', 'a'),
        };
        (format!("[{}{}]", if negated { "^" } else { "" }, body), (if negated { outsider } else { member }).to_string(), false)
      }
      7 => {
        let (t, c) = *rng.pick(&[("\\d", '1'), ("\\D", 'a'), ("\\s", ' '), ("\\S", 'b'), ("\\w", 'c'), ("\\W", ',')]);
        (t.to_string(), c.to_string(), false)
      }
      8 => {
        let c = *rng.pick(&['a', 'b', ',', '-']);
        (c.to_string(), c.to_string(), false)
      }
      _ => {
        let (t, s, n) = alt(rng, depth - 1, 2);
        (format!("{}{})", if rng.chance(1, 4) { "(?:" } else { "(" }, t), s, n)
      }
    }
  }
  fn piece(rng: &mut Rng, depth: u32) -> (String, String, bool) {
    let (t, s, nullable) = atom(rng, depth);
    if nullable || rng.chance(2, 5) {
      return (t, s, nullable);
    }
    let (q, times, zero): (String, usize, bool) = match rng.below(8) {
      0 => ("?".into(), rng.below(2) as usize, true),
      1 => ("*".into(), rng.below(3) as usize, true),
      2 => ("+".into(), 1 + rng.below(2) as usize, false),
      3 | 4 => {
        let n = rng.below(4) as usize;
        (format!("{{{}}}", n), n, n == 0)
      }
      5 => {
        let n = rng.below(3) as usize;
        (format!("{{{},}}", n), n + rng.below(2) as usize, n == 0)
      }
      _ => {
        let n = rng.below(3) as usize;
        let m = n + rng.below(3) as usize;
        (format!("{{{},{}}}", n, m), n + rng.below((m - n) as u64 + 1) as usize, n == 0)
      }
    };
    let lazy = if rng.chance(1, 6) { "?" } else { "" };
    (format!("{}{}{}", t, q, lazy), s.repeat(times), zero)
  }
  fn branch(rng: &mut Rng, depth: u32) -> (Vec<String>, String, bool) {
    let n = 1 + rng.below(3);
    let (mut ts, mut s, mut nullable) = (vec![], String::new(), true);
    for _ in 0..n {
      let (t, x, e) = piece(rng, depth);
      ts.push(t);
      s.push_str(&x);
      nullable = nullable && e;
    }
    (ts, s, nullable)
  }
  fn alt(rng: &mut Rng, depth: u32, max: u64) -> (String, String, bool) {
    let n = 1 + rng.below(max);
    let bs: Vec<(Vec<String>, String, bool)> = (0..n).map(|_| branch(rng, depth)).collect();
    let pick = rng.below(n) as usize;
    (bs.iter().map(|b| b.0.concat()).collect::<Vec<_>>().join("|"), bs[pick].1.clone(), bs.iter().any(|b| b.2))
  }
  let n = 1 + rng.below(3);
  let bs: Vec<(Vec<String>, String, bool)> = (0..n).map(|_| branch(rng, 2)).collect();
  let pick = rng.below(n) as usize;
  let (pre, post) = (if rng.chance(1, 8) { "^" } else { "" }, if rng.chance(1, 8) { "$" } else { "" });
  let plain = format!("{}{}{}", pre, bs.iter().map(|b| b.0.concat()).collect::<Vec<_>>().join("|"), post);
  // (a literal space vanishes under the flag x, in both notations)
  let spaced = format!("{} {} {}", pre, bs.iter().map(|b| b.0.join(" ")).collect::<Vec<_>>().join("\n| "), post);
  (plain, spaced, bs[pick].1.clone())
}

/// `matches` / `replace` / `split` with regular expressions proper (expectation: `regex_oracle_rx`).
fn regex_families(rng: &mut Rng, scale: u64, add: &mut dyn FnMut(&'static str, Vec<String>, &'static str)) {
  // (pattern, inputs): witnesses of every construct, always run
  let fixed: Vec<(&str, Vec<&str>)> = vec![
    (",{2}", vec!["a,,b,c", "a,b", ",,,,", ""]),
    ("-{1,2}", vec!["x--y-z", "x---y", "xyz"]),
    ("a{2,}", vec!["aaa-a-aa", "a", "baab"]),
    ("a{0,1}b", vec!["ab", "b", "aab"]),
    ("(ab){2}", vec!["ababab", "ab", "xababx"]),
    ("[0-9]{3}", vec!["12-345-6789", "12", "1234"]),
    ("[a-c]{2,3}x", vec!["abcx", "ax", "aabbccx"]),
    (".{2}", vec!["abcde", "a", "ab"]),
    ("\\d+", vec!["a1b22c333", "abc", "12"]),
    ("\\d{2}-\\d{2}", vec!["12-34", "1-23", "x12-345"]),
    ("\\s+", vec!["a b  c", "abc", " a "]),
    ("\\w+", vec!["ab, cd", ",,", "a"]),
    ("a|b", vec!["cab", "ccc", "ba"]),
    ("ab|a", vec!["ab", "aab", "b"]),
    ("a|ab", vec!["ab", "xabx"]),
    ("(a|b)c", vec!["acbc", "cc", "abc"]),
    ("^a", vec!["aaa", "baa", "a"]),
    ("a$", vec!["aaa", "aab", "a"]),
    ("^a+$", vec!["aaa", "aab", ""]),
    ("x*y", vec!["xxyy", "y", "x"]),
    ("x+?", vec!["xxx", "y"]),
    ("a.c", vec!["abc", "a.c", "ac", "a-c-abc"]),
    ("[^a]", vec!["aba", "aaa", ""]),
    ("[,;-]", vec!["a,b;c-d", "abc"]),
    ("\\.", vec!["a.b.c", "abc"]),
    ("\\{2\\}", vec!["a{2}b", "aa"]),
    ("\\(a\\)", vec!["(a)", "a"]),
    ("a\\|b", vec!["a|b", "a", "b"]),
    ("(?:ab)+c", vec!["ababc", "c", "abc"]),
    ("(a)(b)?", vec!["ab", "a", "ba"]),
    ("é{2}", vec!["éé", "é", "aééé"]),
    // texts that are no regular expressions (in XPath and for the `regex` crate alike)
    ("{2}", vec!["a{2}b", "aa"]),
    ("a{2", vec!["aa", "a{2"]),
    ("a{", vec!["a{", "a"]),
    ("a{2,1}", vec!["aa", "a"]),
    ("*a", vec!["a", "*a"]),
    ("+", vec!["a+b", "+"]),
    ("?", vec!["a?b"]),
    ("a|*", vec!["a"]),
    ("(", vec!["(", "a(b"]),
    (")", vec![")", "a)b"]),
    ("(a", vec!["a", "(a"]),
    ("a)", vec!["a", "a)"]),
    ("[a", vec!["a", "[a"]),
    ("[z-a]", vec!["a", "z"]),
    ("a\\", vec!["a", "a\\"]),
  ];
  let flag_sets = ["\"i\"", "\"s\"", "\"m\"", "\"x\"", "\"is\"", "\"mx\"", "\"smix\"", "\"\""];
  let repls = ["#", "", "[$0]", "<$1>", "$2$1", "X Y", "[$0x]", "$0_$1y", "$0é$0"];
  for (p, inputs) in &fixed {
    for s in inputs {
      let (ls, lp) = (lit_str(s), lit_str(p));
      add("matches", vec![ls.clone(), lp.clone()], "regex-rx-fixed");
      add("split", vec![ls.clone(), lp.clone()], "regex-rx-fixed");
      for r in ["#", "[$0]", "<$1>", "[$0x]", "$1_$0A"] {
        add("replace", vec![ls.clone(), lp.clone(), lit_str(r)], "regex-rx-fixed");
      }
      for fl in ["\"i\"", "\"x\"", "\"sm\""] {
        add("matches", vec![ls.clone(), lp.clone(), fl.into()], "regex-rx-fixed");
        add("replace", vec![ls.clone(), lp.clone(), lit_str("#"), fl.into()], "regex-rx-fixed");
      }
    }
  }
  const CONTEXT: &[char] = &['a', 'b', 'c', 'x', '1', '2', ',', '-', ' ', 'é', 'A', 'B', 'z'];
  for _ in 0..(110 * scale) {
    let (plain, spaced, sample) = rx_pattern(rng);
    let ctx = |rng: &mut Rng, max: u64| -> String { (0..rng.below(max + 1)).map(|_| *rng.pick(CONTEXT)).collect() };
    let mut inputs: Vec<String> = vec![sample.clone(), format!("{}{}{}", ctx(rng, 3), sample, ctx(rng, 3)), format!("{}{}{}{}", sample, ctx(rng, 2), sample, ctx(rng, 2)), ctx(rng, 6)];
    if !sample.is_empty() {
      let cs: Vec<char> = sample.chars().collect();
      let k = rng.below(cs.len() as u64) as usize;
      inputs.push(cs.iter().enumerate().filter(|(i, _)| *i != k).map(|(_, c)| *c).collect());
    }
    inputs.push(format!("{}\n{}", sample, ctx(rng, 2)));
    inputs.push(format!("{}\n{}\n", ctx(rng, 2), sample));
    let lp = lit_str(&plain);
    for s in &inputs {
      let ls = lit_str(s);
      add("matches", vec![ls.clone(), lp.clone()], "regex-rx");
      add("split", vec![ls.clone(), lp.clone()], "regex-rx");
      add("replace", vec![ls.clone(), lp.clone(), lit_str(*rng.pick(&repls[..]))], "regex-rx");
      let fl = *rng.pick(&flag_sets);
      // the flag i with the letter case of the input changed, the flag x with the pattern spread out
      let swapped: String = s.chars().map(|c| if c.is_ascii_lowercase() { c.to_ascii_uppercase() } else if c.is_ascii_uppercase() { c.to_ascii_lowercase() } else { c }).collect();
      let s2 = if fl.contains('i') { lit_str(&swapped) } else { ls.clone() };
      let p2 = if fl.contains('x') { lit_str(&spaced) } else { lp.clone() };
      add("matches", vec![s2.clone(), p2.clone(), fl.into()], "regex-rx-flags");
      add("replace", vec![s2.clone(), p2.clone(), lit_str(*rng.pick(&repls[..])), fl.into()], "regex-rx-flags");
      if fl.contains('i') {
        add("matches", vec![s2.clone(), lp.clone()], "regex-rx-flags");
      }
    }
  }
}

/// ordering functions with typed parameters and the name of the relation the driver knows them by
const TYPED_ORDERINGS: &[(&str, &str)] = &[
  ("function(x: number, y: number) x < y", "lt:number"),
  ("function(x: number, y: number) x > y", "gt:number"),
  ("function(x: string, y: string) x < y", "lt:string"),
  ("function(x: string, y: string) x >= y", "ge:string"),
  ("function(x: boolean, y: boolean) x != y", "ne:boolean"),
  ("function(x: Any, y: Any) x < y", "lt:Any"),
];

/// `sort(list, f)` against the law: when the relation `f(x, y) = true`, with `f` invoked directly (so with the
/// conversions of an invocation), is a strict weak order on the items, the result is the one stable arrangement of
/// the items in that order.  `None`: the law does not apply (the list or the relation is not of that kind).
/// This is the executable form of the theorems `core_sort_stable_spec` / `core_sort_eq_stable_arrangement` of
/// `lean/Dmn/Props/C08.lean`: the four conditions tested below are `Spec.StrictWeakOrderOn` (on the items only), the
/// insertion loop is `Spec.stableArrangement`, and the theorem says that the merge sort of `core::sort` returns that
/// list; `stable_sort_unique`: there is no other stable arrangement.
fn sort_law(scope: &Scope, list: &str, f: &str) -> Option<Vec<String>> {
  let items: Vec<String> = match run_impl(scope, list) {
    Impl::Val(Value::List(items)) => items.as_vec().iter().map(|v| value_sexp(v).map(|s| s.to_string())).collect::<Option<Vec<_>>>()?,
    _ => return None,
  };
  let n = items.len();
  if n > 12 {
    return None;
  }
  let table = match run_impl(scope, &format!("{{l: {}, f: {}, r: for i in l return for j in l return f(i, j)}}.r", list, f)) {
    Impl::Val(Value::List(rows)) => rows,
    _ => return None,
  };
  let mut r = vec![vec![false; n]; n];
  if table.as_vec().len() != n {
    return None;
  }
  for (i, row) in table.as_vec().iter().enumerate() {
    match row {
      Value::List(cells) if cells.as_vec().len() == n => {
        for (j, c) in cells.as_vec().iter().enumerate() {
          r[i][j] = matches!(c, Value::Boolean(true));
        }
      }
      _ => return None,
    }
  }
  // strict weak order: irreflexive, transitive, incomparability transitive
  let inc = |i: usize, j: usize| !r[i][j] && !r[j][i];
  for i in 0..n {
    if r[i][i] {
      return None;
    }
    for j in 0..n {
      if r[i][j] && r[j][i] {
        return None;
      }
      for k in 0..n {
        if (r[i][j] && r[j][k] && !r[i][k]) || (inc(i, j) && inc(j, k) && !inc(i, k)) {
          return None;
        }
      }
    }
  }
  let mut order: Vec<usize> = vec![];
  for i in 0..n {
    let mut k = order.len();
    while k > 0 && r[i][order[k - 1]] {
      k -= 1;
    }
    order.insert(k, i);
  }
  Some(order.into_iter().map(|i| items[i].clone()).collect())
}

fn generate(rng: &mut Rng, thorough: bool) -> Vec<Call> {
  let mut calls: Vec<Call> = vec![];
  let mut add = |bif: &'static str, args: Vec<String>, family: &'static str| calls.push(Call { bif, args, family });
  let scale = if thorough { 6 } else { 1 };

  // ---------------------------------------------------------------- substring: all positions × lengths
  let mut strings = fixed_strings();
  for _ in 0..(6 * scale) {
    strings.push(rand_string(rng, 8));
  }
  for s in &strings {
    let n = s.chars().count();
    if n > 8 {
      continue;
    }
    let ps = positions(n);
    for p in &ps {
      add("substring", vec![lit_str(s), p.clone()], "substring2");
      add("substring", vec![lit_str(s), p.clone(), "null".into()], "substring3null");
      for l in &ps {
        // the full grid for short strings, a sample for longer ones
        if n <= 3 || rng.chance(1, 4) {
          add("substring", vec![lit_str(s), p.clone(), l.clone()], "substring3");
        }
      }
    }
    for x in extreme_numbers() {
      add("substring", vec![lit_str(s), x.into()], "substring-extreme");
      add("substring", vec![lit_str(s), "1".into(), x.into()], "substring-extreme");
      add("substring", vec![lit_str(s), "2".into(), x.into()], "substring-extreme");
      add("substring", vec![lit_str(s), "-1".into(), x.into()], "substring-extreme");
      add("substring", vec![lit_str(s), x.into(), x.into()], "substring-extreme");
    }
    add("string length", vec![lit_str(s)], "string length");
  }

  // ---------------------------------------------------------------- two-string functions
  for s in &strings {
    let cs: Vec<char> = s.chars().collect();
    let mut ms: Vec<String> = vec!["".into(), s.clone(), format!("{}x", s), "zz".into(), "🙏".into()];
    for _ in 0..4 {
      if !cs.is_empty() {
        let a = rng.below(cs.len() as u64) as usize;
        let b = a + rng.below((cs.len() - a) as u64 + 1) as usize;
        ms.push(cs[a..b].iter().collect());
      }
    }
    for m in &ms {
      for f in ["contains", "starts with", "ends with", "substring before", "substring after"] {
        add(f, vec![lit_str(s), lit_str(m)], "string-pair");
      }
      // literal patterns only (the model and the specification cover nothing else)
      add("matches", vec![lit_str(s), lit_str(m)], "regex-literal");
      add("split", vec![lit_str(s), lit_str(m)], "regex-literal");
      for r in ["", "X", "xy", "$1", "[$0]", "$$", "$12a", "$a", " ", "[$0x]", "$0_", "$0a$0", "$1x", "$00", "$01"] {
        add("replace", vec![lit_str(s), lit_str(m), lit_str(r)], "regex-literal");
      }
      for fl in ["\"\"", "\"q\"", "\"i\"", "\"sm\"", "\"qi\"", "\"qx\"", "null"] {
        add("replace", vec![lit_str(s), lit_str(m), lit_str("X"), fl.into()], "regex-flags");
      }
      // the same pattern text with and without the flag that changes its meaning, one after the other
      // (an evaluation must not depend on what was evaluated before it)
      let swapped: String = m.chars().map(|c| if c.is_ascii_lowercase() { c.to_ascii_uppercase() } else if c.is_ascii_uppercase() { c.to_ascii_lowercase() } else { c }).collect();
      if &swapped != m {
        add("matches", vec![lit_str(s), lit_str(&swapped)], "regex-flag-sequence");
        add("matches", vec![lit_str(s), lit_str(&swapped), "\"i\"".into()], "regex-flag-sequence");
        add("matches", vec![lit_str(s), lit_str(&swapped)], "regex-flag-sequence");
        add("replace", vec![lit_str(s), lit_str(&swapped), lit_str("X"), "\"i\"".into()], "regex-flag-sequence");
        add("replace", vec![lit_str(s), lit_str(&swapped), lit_str("X")], "regex-flag-sequence");
        add("split", vec![lit_str(s), lit_str(&swapped)], "regex-flag-sequence");
      }
    }
  }

  // ---------------------------------------------------------------- flags of matches / replace, the flag q, empty delimiters
  // (expectation: `regex_oracle`)
  {
    let inputs = ["abc", "a.c", "A.C", "a.c.abc", "1+1=2", "x*y", "(a)", "a|b", "[a]", "a\\b", "^a$", "ab d", "aXbxc", "abcABC", "", "日本.語", "a🙏.c"];
    let patterns = ["b", "a", "B", ".", "a.c", "+", "1+1", "*", "x*", "(a)", "a|b", "|", "[a]", "\\", "\\b", "\\d", "^a", "$", "b d", "x", "abc", "本.", "🙏.", ""];
    let string_flags = ["\"\"", "\"i\"", "\"s\"", "\"m\"", "\"x\"", "\"q\"", "\"qi\"", "\"iq\"", "\"sm\"", "\"smix\"", "\"xi\"", "\"qs\"", "\"xq\"", "\"qm\""];
    let other_flags = ["5", "true", "[\"i\"]", "{a: 1}", "0", "[]"];
    let bad_letters = ["\"z\"", "\"I\"", "\"i \"", "\"si!\"", "\" \""];
    for (n, s) in inputs.iter().enumerate() {
      for (k, p) in patterns.iter().enumerate() {
        // the witnesses in full, the rest of the grid sampled
        let core = n < 4 && k < 6;
        let (ls, lp) = (format!("\"{}\"", s), format!("\"{}\"", p));
        if core || rng.chance(1, 3) {
          add("matches", vec![ls.clone(), lp.clone()], "regex-oracle");
          add("replace", vec![ls.clone(), lp.clone(), "\"#\"".into()], "regex-oracle");
          add("split", vec![ls.clone(), lp.clone()], "regex-oracle");
        }
        for fl in string_flags {
          if core || rng.chance(1, 4 * scale_div(thorough)) {
            add("matches", vec![ls.clone(), lp.clone(), fl.into()], "regex-oracle");
            add("replace", vec![ls.clone(), lp.clone(), "\"#\"".into(), fl.into()], "regex-oracle");
          }
        }
        for fl in other_flags {
          if (core && k < 2) || rng.chance(1, 12 * scale_div(thorough)) {
            add("matches", vec![ls.clone(), lp.clone(), fl.into()], "regex-oracle-flags-type");
            add("replace", vec![ls.clone(), lp.clone(), "\"#\"".into(), fl.into()], "regex-oracle-flags-type");
          }
        }
        for fl in bad_letters {
          if (core && k < 2) || rng.chance(1, 16 * scale_div(thorough)) {
            add("matches", vec![ls.clone(), lp.clone(), fl.into()], "regex-oracle-flags-type");
          }
        }
      }
    }
    for s in &strings {
      add("split", vec![lit_str(s), "\"\"".into()], "regex-oracle");
    }
  }

  // ---------------------------------------------------------------- positions in lists
  let mut lists: Vec<String> = vec![];
  for len in 0..=8usize {
    for _ in 0..(2 * scale) {
      lists.push(list_of_len(rng, len));
    }
  }
  for l in &lists {
    let n = l.matches(',').count(); // upper bound good enough for the grid; exact length below
    let _ = n;
  }
  let scope = Scope::default();
  for l in &lists {
    let n = match crate::c09::eval_text(&scope, l) {
      Value::List(v) => v.as_vec().len(),
      _ => continue,
    };
    let ps = positions(n);
    for p in &ps {
      add("sublist", vec![l.clone(), p.clone()], "sublist2");
      // an explicit null for the optional length (positional and named)
      add("sublist", vec![l.clone(), p.clone(), "null".into()], "sublist3null");
      add("remove", vec![l.clone(), p.clone()], "remove");
      add("insert before", vec![l.clone(), p.clone(), rand_item(rng, 1)], "insert before");
      for k in &ps {
        if n <= 3 || rng.chance(1, 5) {
          add("sublist", vec![l.clone(), p.clone(), k.clone()], "sublist3");
        }
      }
    }
    for x in extreme_numbers() {
      add("sublist", vec![l.clone(), x.into()], "list-extreme");
      add("sublist", vec![l.clone(), "1".into(), x.into()], "list-extreme");
      add("sublist", vec![l.clone(), "2".into(), x.into()], "list-extreme");
      add("sublist", vec![l.clone(), "-1".into(), x.into()], "list-extreme");
      add("sublist", vec![l.clone(), x.into(), "1".into()], "list-extreme");
      add("remove", vec![l.clone(), x.into()], "list-extreme");
      add("insert before", vec![l.clone(), x.into(), "0".into()], "list-extreme");
    }
    for f in ["count", "reverse", "distinct values", "flatten"] {
      add(f, vec![l.clone()], "list-unary");
    }
    for _ in 0..3 {
      let e = rand_item(rng, 1);
      add("index of", vec![l.clone(), e.clone()], "list-element");
      add("list contains", vec![l.clone(), e], "list-element");
    }
    add("append", vec![l.clone(), rand_item(rng, 1)], "append");
    add("append", vec![l.clone(), rand_item(rng, 1), rand_item(rng, 1)], "append");
    let other = rng.pick(&lists).clone();
    add("concatenate", vec![l.clone(), other.clone()], "concatenate");
    add("union", vec![l.clone(), other.clone()], "union");
    add("union", vec![l.clone(), other, rand_list(rng, 3, 1)], "union");
    add("concatenate", vec![l.clone()], "concatenate");
    add("sort", vec![l.clone(), "function(x,y) x < y".into()], "sort");
  }
  // items taken from the list itself
  for l in ["[1, 2, 1.0, \"a\", null, [1], [1.0], {a: 1}]", "[null, null]", "[[1, 2], [1, 2.0], [2, 1]]", "[{a: 1}, {a: 1.0}, {b: 1}]"] {
    for e in ["1", "1.0", "2", "\"a\"", "null", "[1]", "[1.00]", "{a: 1}", "{a: 1.0}", "[1, 2]", "true"] {
      add("index of", vec![l.into(), e.into()], "list-element");
      add("list contains", vec![l.into(), e.into()], "list-element");
    }
    add("distinct values", vec![l.into()], "list-unary");
    add("union", vec![l.into(), l.into()], "union");
  }
  // nulls that were computed (they carry a trace message) beside literal nulls: all are the one value null
  for l in ["[1, 1/0, 3, null]", "[null, 1/0]", "[1/0, number(\"x\", \",\", \".\"), null, 2]", "[[1/0], [null]]", "[{a: 1/0}, {a: null}]"] {
    for e in ["null", "1/0", "3", "[null]", "[1/0]", "{a: null}", "{a: 1/0}"] {
      add("index of", vec![l.into(), e.into()], "list-computed-null");
      add("list contains", vec![l.into(), e.into()], "list-computed-null");
      add("append", vec![l.into(), e.into()], "list-computed-null");
    }
    add("distinct values", vec![l.into()], "list-computed-null");
    add("union", vec![l.into(), "[1/0, 2, null]".into()], "list-computed-null");
    add("union", vec!["[null]".into(), l.into()], "list-computed-null");
    add("count", vec![l.into()], "list-computed-null");
  }
  // zeros of every spelling, among them zeros that were computed (and carry a sign): all are the one value 0
  for l in ["[0, 1, 0.0]", "[0 * -1, 1]", "[-0, 0.00, 0 / -3, 2]", "[[0], [-1 * 0]]", "[{a: 0}, {a: 0 * -1}]", "[1, 2]"] {
    for e in ["0", "0 * -1", "-1 * 0", "0 / -3", "0.0", "-0", "[0]", "[0 * -1]", "{a: -1 * 0}"] {
      add("index of", vec![l.into(), e.into()], "list-computed-zero");
      add("list contains", vec![l.into(), e.into()], "list-computed-zero");
    }
    add("distinct values", vec![l.into()], "list-computed-zero");
    add("union", vec![l.into(), "[0 * -1, 0, -0.0]".into()], "list-computed-zero");
    add("mode", vec![l.into()], "list-computed-zero");
  }
  add("mode", vec!["[0, 0 * -1, 1, 1]".into()], "list-computed-zero");
  add("mode", vec!["[0 / -3, 0, 0.0, 1, 1]".into()], "list-computed-zero");
  add("min", vec!["[0 * -1, 0]".into()], "list-computed-zero");
  add("max", vec!["[0, 0 * -1]".into()], "list-computed-zero");
  add("flatten", vec!["[[1, [2, [3, [4, []]]]], 5, [[]], [[6]]]".into()], "list-unary");
  add("sort", vec!["[3, 1, 2, 1.0, 3.0]".into(), "function(x,y) x < y".into()], "sort");
  add("sort", vec!["[3, 1, 2]".into(), "function(x,y) x > y".into()], "sort");
  add("sort", vec!["[\"b\", \"a\", \"c\"]".into(), "function(a,b) a < b".into()], "sort");
  add("sort", vec!["[3, 1, 2]".into(), "function(x) x".into()], "sort");
  add("sort", vec!["[3, 1, 2]".into(), "1".into()], "sort");
  // sort with an ordering function that has typed parameters: the items are converted as in an invocation
  // (a string given to a parameter of type number is null, a list of one number is that number)
  {
    let mut typed_lists: Vec<String> = ["[\"b\", \"a\"]", "[\"b\", \"a\", \"c\", \"a\"]", "[3, 1, 2]", "[3, 1, 2, 1.0, 3.0]", "[2, \"a\", 1]", "[[2], [1]]", "[[2], 1, [3]]", "[null, 2, 1]", "[true, false, true]", "[[2, 1], [1]]", "[]", "[\"b\"]", "[{a: 1}, 2, 1]"]
      .iter()
      .map(|x| x.to_string())
      .collect();
    for _ in 0..(if thorough { 120 } else { 12 }) {
      let len = rng.below(6) as usize;
      typed_lists.push(list_of_len(rng, len));
    }
    for l in &typed_lists {
      for (f, _) in TYPED_ORDERINGS {
        add("sort", vec![l.clone(), (*f).into()], "sort-typed");
      }
      // the two parameters of different types: each item is converted to the type of the parameter it is given to
      // (judged by `sort_law`: the relation is what a direct invocation f(i, j) answers)
      for f in [
        "function(x: list<number>, y: number) x[1] < y",
        "function(x: number, y: list<number>) x < y[1]",
        "function(x: number, y: list<number>) x > y[1]",
        "function(x: Any, y: number) x < y",
        "function(x: number, y: string) x != null and y = null",
        "function(x: string, y: number) string length(x) < y",
      ] {
        add("sort", vec![l.clone(), f.into()], "sort-typed-mixed");
      }
    }
  }
  // sort with ordering functions that are and are not total orders, on lists long enough for a library sort to notice
  for _ in 0..(if thorough { 600 } else { 60 }) {
    let n = rng.below(45) as usize;
    let items: Vec<String> = (0..n)
      .map(|_| match rng.below(12) {
        0 => "null".to_string(),
        1 => format!("\"{}\"", rng.pick(&["a", "b", "ab", ""])),
        2 => format!("{}.0", rng.below(6)),
        _ => format!("{}", rng.below(12)),
      })
      .collect();
    let f = *rng.pick(&["function(x,y) x < y", "function(x,y) x > y", "function(x,y) x <= y", "function(x,y) x != y", "function(x,y) x = y", "function(x,y) true", "function(x,y) false"]);
    add("sort", vec![format!("[{}]", items.join(", ")), f.into()], "sort-ordering");
  }

  // ---------------------------------------------------------------- three-valued all / any: every list over {true,false,null,1} up to length 3
  let tv = ["true", "false", "null", "1"];
  let mut tuples: Vec<Vec<&str>> = vec![vec![]];
  let mut frontier: Vec<Vec<&str>> = vec![vec![]];
  for _ in 0..3 {
    let mut next = vec![];
    for t in &frontier {
      for x in tv {
        let mut u = t.clone();
        u.push(x);
        next.push(u);
      }
    }
    tuples.extend(next.iter().cloned());
    frontier = next;
  }
  for t in &tuples {
    for f in ["all", "any"] {
      add(f, vec![format!("[{}]", t.join(", "))], "three-valued");
      if !t.is_empty() {
        add(f, t.iter().map(|s| s.to_string()).collect(), "three-valued-varargs");
      }
    }
  }
  for f in ["all", "any"] {
    for x in ["true", "false", "null", "1", "\"a\"", "[[true]]"] {
      add(f, vec![x.into()], "three-valued");
    }
  }

  // ---------------------------------------------------------------- aggregates
  let nums = ["0", "1", "2", "3", "6", "-1", "-2.5", "1.0", "1.5", "2.50", "10", "100", "0.25", "7", "-0", "4"];
  for _ in 0..(60 * scale) {
    let len = rng.below(9);
    let mut items: Vec<String> = (0..len).map(|_| rng.pick(&nums).to_string()).collect();
    if rng.chance(1, 6) && !items.is_empty() {
      let i = rng.below(items.len() as u64) as usize;
      items[i] = rng.pick(&["null", "true", "\"a\"", "[1]"]).to_string();
    }
    let l = format!("[{}]", items.join(", "));
    for f in ["min", "max", "sum", "mean", "median", "mode", "stddev", "count"] {
      add(f, vec![l.clone()], "aggregate");
      if !items.is_empty() && f != "count" {
        add(f, items.clone(), "aggregate-varargs");
      }
    }
  }
  // operands whose exact sum / quotient needs more than 34 digits (the model rounds half-even as decimal128 does)
  let wide = ["9999999999999999999999999999999999", "1234567890123456789012345678901234", "0.0000000000000000000000000000000001", "5", "0.5", "3", "7", "1E+10", "-9999999999999999999999999999999999", "0.1234567890123456789012345678901234"];
  for _ in 0..(25 * scale) {
    let len = 1 + rng.below(5);
    let items: Vec<String> = (0..len).map(|_| rng.pick(&wide).to_string()).filter(|x| !x.contains('E')).collect();
    if items.is_empty() {
      continue;
    }
    let l = format!("[{}]", items.join(", "));
    // not stddev: decNumber's power(x, 2) is not the correctly rounded product for 34-digit operands
    for f in ["sum", "mean", "median", "min", "max", "mode"] {
      add(f, vec![l.clone()], "aggregate-wide");
    }
  }
  for _ in 0..(15 * scale) {
    let len = rng.below(6);
    let mut items: Vec<String> = (0..len).map(|_| lit_str(&rand_string(rng, 3))).collect();
    if rng.chance(1, 5) && !items.is_empty() {
      let i = rng.below(items.len() as u64) as usize;
      items[i] = rng.pick(&["null", "1"]).to_string();
    }
    let l = format!("[{}]", items.join(", "));
    for f in ["min", "max", "sum", "mean"] {
      add(f, vec![l.clone()], "aggregate-strings");
    }
  }
  for l in ["[1, null, 3]", "[null, 1]", "[1, 3, null]", "[\"a\", null, \"b\"]", "[null]", "[1, \"a\"]", "[[1, 2]]", "[1, 2, 6]"] {
    for f in ["min", "max", "sum", "mean", "median", "mode", "stddev"] {
      add(f, vec![l.into()], "aggregate");
    }
  }

  // ---------------------------------------------------------------- mode / stddev against their declarative specifications
  // (`Spec.mode`, `Spec.stddev`; theorems core_mode_spec / core_stddev_spec): about 2 000 calls each per quick run
  stats_families(rng, scale, &mut add);

  // ---------------------------------------------------------------- regular expressions proper (expectation: the second implementation `rx`)
  regex_families(rng, scale, &mut add);

  // ---------------------------------------------------------------- string(e) = the text of e for canonically written values (expectation: `string_oracle`)
  string_families(rng, scale, &mut add);

  // ---------------------------------------------------------------- contexts, not, number, string
  let ctxs = ["{}", "{a: 1}", "{a: 1, b: \"x\"}", "{b: 2, a: 1}", "{a: null}", "{a: {b: [1, 2]}}", "{\"a b\": 1, c: [true]}"];
  for c in ctxs {
    add("get entries", vec![c.into()], "context");
    for k in ["\"a\"", "\"b\"", "\"c\"", "\"a b\"", "\" a \"", "\"\"", "1", "null", "\"A\""] {
      add("get value", vec![c.into(), k.into()], "context");
    }
    add("string", vec![c.into()], "string");
  }
  for x in ["true", "false", "null", "1", "\"true\"", "[true]"] {
    add("not", vec![x.into()], "not");
  }
  let texts = ["1", "12", "1.5", "-1.5", "1 000", "1,000.50", "1.000,50", "1 000 000,25", "", " 1", "1e3", "+5", "5.", ".5", "abc", "1,5", "1.5.5", "-", "Infinity", "NaN", "١٢", "1_000", "00012", "0.10", "12345678901234567890123456789012345", "-0"];
  let seps = ["null", "\" \"", "\".\"", "\",\"", "\";\"", "\"\"", "1"];
  for t in texts {
    for g in seps {
      for d in ["null", "\".\"", "\",\"", "\" \"", "1"] {
        add("number", vec![lit_str(t), g.into(), d.into()], "number");
      }
    }
  }
  add("number", vec!["1".into(), "null".into(), "null".into()], "number");
  for x in ["null", "\"a\"", "\"a\\\"b\"", "true", "false", "1", "-12", "100", "[]", "[1, \"a\", true, null]", "[\"a\\\"b\"]", "[[1], [\"x\", [null]]]", "{a: \"x\\\"y\", b: [\"q\"]}", "[{a: 1}]", "{}"] {
    add("string", vec![x.into()], "string");
  }

  // ---------------------------------------------------------------- the built-ins that take any number of arguments × the shape of the arguments
  // (no argument; one scalar; one list; ONE LIST OF LISTS; one list of lists and scalars; several lists; scalars
  // and lists mixed; deeper nesting).  Only the aggregates read a single list argument as the list of their items;
  // `concatenate`, `union` and `append` take every argument as it is, whatever its items are.
  {
    let scalars = ["1", "2.5", "-3", "true", "false", "null", "\"a\"", "\"b\"", "1/0"];
    let flat_lists = ["[]", "[1]", "[1, 2]", "[2, 1, 2]", "[1, 2, 3]", "[true]", "[true, false]", "[false, null]", "[\"a\"]", "[\"b\", \"a\"]", "[null]", "[1, \"a\"]", "[1, null, 3]"];
    let lists_of_lists = [
      "[[]]", "[[], []]", "[[1]]", "[[1, 2, 3]]", "[[1], [2]]", "[[1, 2], [2, 3]]", "[[1], [2], [3]]", "[[2], [1], [2]]", "[[true]]", "[[true], [false]]", "[[false], [true, true]]", "[[\"a\"], [\"b\"]]", "[[null]]",
      "[[1], []]", "[[], [1]]", "[[1, [2]], []]", "[[[1]]]", "[[[1]], [[2]]]", "[[[1], [2]]]", "[[1], [1]]", "[[1, 2], [1, 2]]", "[[1.0], [1]]",
    ];
    let lists_mixed = ["[[1], 2]", "[1, [2]]", "[[1], 2, [3]]", "[[true], false]", "[[], 1]", "[null, [1]]", "[[1], null]", "[[\"a\"], \"b\"]", "[[1], {a: 1}]"];
    let mut pool: Vec<&str> = vec![];
    pool.extend(scalars.iter());
    pool.extend(flat_lists.iter());
    pool.extend(lists_of_lists.iter());
    pool.extend(lists_mixed.iter());
    for f in VARIADIC.iter().copied() {
      add(f, vec![], "variadic-shape:none");
      for a in scalars {
        add(f, vec![a.into()], "variadic-shape:one-scalar");
      }
      for a in flat_lists {
        add(f, vec![a.into()], "variadic-shape:one-list");
      }
      for a in lists_of_lists {
        add(f, vec![a.into()], "variadic-shape:one-list-of-lists");
      }
      for a in lists_mixed {
        add(f, vec![a.into()], "variadic-shape:one-list-of-lists-and-items");
      }
      // several lists: every ordered pair of a small set, a sample of the rest
      let few = ["[]", "[1]", "[1, 2]", "[[1]]", "[[1], [2]]", "[true]", "[\"a\"]"];
      for a in few {
        for b in few {
          add(f, vec![a.into(), b.into()], "variadic-shape:several-lists");
        }
      }
      for _ in 0..(40 * scale) {
        let n = 2 + rng.below(3) as usize;
        let lists_only = rng.chance(1, 2);
        let args: Vec<String> = (0..n)
          .map(|_| if lists_only { (*rng.pick(&pool[scalars.len()..])).to_string() } else { (*rng.pick(&pool)).to_string() })
          .collect();
        add(f, args, if lists_only { "variadic-shape:several-lists" } else { "variadic-shape:mixed" });
      }
      // generated lists of lists: 1..3 inner lists of 0..3 generated items
      for _ in 0..(20 * scale) {
        let k = 1 + rng.below(3);
        let inner: Vec<String> = (0..k).map(|_| rand_list(rng, 3, 1)).collect();
        add(f, vec![format!("[{}]", inner.join(", "))], "variadic-shape:one-list-of-lists");
      }
    }
  }

  // ---------------------------------------------------------------- every arity 0..5 with arbitrary arguments
  for bif in BIFS {
    for arity in 0..=5usize {
      for _ in 0..(3 * scale) {
        let args: Vec<String> = (0..arity)
          .map(|_| match rng.below(6) {
            0 => rand_list(rng, 4, 1),
            1 => lit_str(&rand_string(rng, 4)),
            2 => rng.pick(&positions(3)).clone(),
            3 => "{a: 1}".to_string(),
            _ => rand_item(rng, 1),
          })
          .collect();
        add(bif, args, "any-arity");
      }
    }
  }
  calls
}

/// `string(e)` for an expression written in canonical form: a number literal without superfluous zeros in front, a
/// string literal, `true` / `false` / `null`, a list `[e, e]`, a context `{k: e, k: e}` with its keys in ascending
/// order.  The text such a value is printed as (`to_feel_string`: DMN 10.3.4.1, examples `string(1.1)`,
/// `string([1, 2, 3, "foo"])`) is the text of the expression itself, so the expectation needs no printer: family
/// `string-printed`, judged by `string_oracle`.  Every value kind that can be written this way at every nesting
/// depth 0..3, numbers with 1..34 digits, 0..8 fraction digits, trailing zeros, a leading `0.000…`; strings over
/// ASCII / BMP / supplementary characters with quotation marks, and characters that delimit contexts and lists.
fn printable(rng: &mut Rng, depth: u32) -> String {
  fn number(rng: &mut Rng) -> String {
    let total = match rng.below(6) {
      0 => 1,
      1 => 34,
      2 => 1 + rng.below(34) as usize,
      _ => 1 + rng.below(9) as usize,
    };
    let frac = (rng.below(9) as usize).min(total.saturating_sub(1)).min(if rng.below(3) == 0 { 0 } else { 8 });
    let mut digits: Vec<u8> = (0..total).map(|_| rng.below(10) as u8).collect();
    let int_len = total - frac;
    // no superfluous zero in front: a one-digit integer part may be 0 when a fraction follows
    if int_len > 1 && digits[0] == 0 {
      digits[0] = 1 + rng.below(9) as u8;
    }
    if rng.below(5) == 0 && frac > 0 {
      // 0.000ddd
      for d in digits.iter_mut().take(int_len) {
        *d = 0;
      }
      digits.truncate(frac + 1);
      let mut t = String::from("0.");
      for d in &digits[1..] {
        t.push((b'0' + d) as char);
      }
      if digits[1..].iter().all(|d| *d == 0) {
        t.pop();
        t.push('7');
      }
      return if rng.below(3) == 0 { format!("-{}", t) } else { t };
    }
    let mut t = String::new();
    for (i, d) in digits.iter().enumerate() {
      if i == int_len {
        t.push('.');
      }
      t.push((b'0' + d) as char);
    }
    let zero = digits.iter().all(|d| *d == 0);
    if !zero && rng.below(3) == 0 {
      format!("-{}", t)
    } else {
      t
    }
  }
  fn string(rng: &mut Rng) -> String {
    const CS: &[char] = &['a', 'b', 'Z', ' ', 'é', 'ß', '€', '🙏', '"', ',', ':', '{', '}', '[', ']', '1', '.', '-'];
    let n = rng.below(6) as usize;
    let s: String = (0..n).map(|_| CS[rng.below(CS.len() as u64) as usize]).collect();
    lit_str(&s)
  }
  let kinds = if depth == 0 { 5 } else { 8 };
  match rng.below(kinds) {
    0 => number(rng),
    1 => string(rng),
    2 => ["true", "false"][rng.below(2) as usize].to_string(),
    3 => "null".to_string(),
    4 => number(rng),
    5 | 6 => {
      let n = rng.below(4) as usize;
      let items: Vec<String> = (0..n).map(|_| printable(rng, depth - 1)).collect();
      format!("[{}]", items.join(", "))
    }
    _ => {
      const KEYS: &[&str] = &["A", "Zz", "a", "a1", "ab", "b", "key", "x_1", "é"];
      let keys: Vec<&str> = KEYS.iter().filter(|_| rng.below(3) == 0).copied().collect();
      let entries: Vec<String> = keys.iter().map(|k| format!("{}: {}", k, printable(rng, depth - 1))).collect();
      format!("{{{}}}", entries.join(", "))
    }
  }
}

fn string_families(rng: &mut Rng, scale: u64, add: &mut dyn FnMut(&'static str, Vec<String>, &'static str)) {
  for x in [
    "null", "true", "false", "0", "1", "-1", "10", "100", "1.0", "1.50", "-2.500", "0.1", "0.000001", "0.0000001", "-0.00000015", "123456789.987654321",
    "1234567890123456789012345678901234", "0.1234567890123456789012345678901234", "1000000000000000000000000000000000", "\"\"", "\"a\"", "\"a\\\"b\"", "\"🙏\"", "[]", "{}", "[[]]", "[{}]", "{a: []}",
    "[1.50, \"a\\\"b\", null, [true]]", "{a: 1.0, b: \"x, y\", c: {d: [null]}}", "[\"{\", \"}\", \":\", \",\"]",
    // temporal values, top level: the lexical form of the value (DMN 10.3.4.1: string(date("2012-12-25")) = "2012-12-25")
    "date(\"2021-01-05\")", "date(\"1999-12-31\")", "time(\"10:20:30\")", "time(\"00:00:00\")", "time(\"10:20:30+02:00\")", "date and time(\"2021-01-05T10:20:30\")", "duration(\"P1DT2H\")", "duration(\"PT1H30M\")",
    "duration(\"P1Y2M\")", "duration(\"P2Y\")",
  ] {
    add("string", vec![x.into()], "string-printed");
  }
  for i in 0..(400 * scale) {
    let e = printable(rng, (i % 4) as u32);
    add("string", vec![e], "string-printed");
  }
}

/// The expectation of family `string-printed`: null for null, the string for a string, the lexical form for a
/// temporal value, and the text of the (canonically written) expression for everything else.
fn string_oracle(call: &Call) -> Option<(Want, &'static str)> {
  if call.bif != "string" || call.family != "string-printed" || call.args.len() != 1 {
    return None;
  }
  let a = call.args[0].as_str();
  if a == "null" {
    return Some((Want::Null, "string(null) is not null"));
  }
  if a.starts_with('"') {
    return unlit(a).map(|s| (Want::Str(s), "string(string) is not the string"));
  }
  for f in ["date and time(\"", "date(\"", "time(\"", "duration(\""] {
    if let Some(rest) = a.strip_prefix(f) {
      return rest.strip_suffix("\")").map(|t| (Want::Str(t.to_string()), "string(temporal value) is not its lexical form"));
    }
  }
  let sig = match a.chars().next() {
    Some('[') => "string(list) is not the text of the list",
    Some('{') => "string(context) is not the text of the context",
    Some('t') | Some('f') => "string(boolean) is not true / false",
    _ => "string(number) is not the plain decimal text",
  };
  Some((Want::Str(a.to_string()), sig))
}


/// `mode`: few values in several spellings each (`1`, `1.0`, `1.00`: one value, shown in the spelling of its first
/// occurrence), so that values repeat and several of them share the greatest count; negative numbers and zeros of
/// both signs, 34-digit values, computed items (`1/3` = `2/6`, `0.1 + 0.2` = `0.3`, `0 * -1`); sometimes an item that
/// is not a number.  `stddev`: decimals of a few digits in several spellings; the lists are chosen so that the mean is
/// a short decimal (2, 4, 5 or 8 items, or integers whose sum is a multiple of the count): every square is then exact
/// and the code's `power(x, 2)` (not the correctly rounded product for 34-digit operands) cannot differ from the
/// model's multiplication; a few fixed lists of 34-digit values.  Both in the list form and the varargs form.
fn stats_families(rng: &mut Rng, scale: u64, add: &mut dyn FnMut(&'static str, Vec<String>, &'static str)) {
  let values: Vec<Vec<&str>> = vec![
    vec!["1", "1.0", "1.00", "1.000"],
    vec!["0", "-0", "0.0", "0.00", "-0.0", "0 * -1"],
    vec!["2", "2.0", "2.00"],
    vec!["-1", "-1.0", "-1.00"],
    vec!["-2.5", "-2.50", "-2.500"],
    vec!["0.5", "0.50", "1/2"],
    vec!["10", "10.0", "10.00"],
    vec!["100", "100.0"],
    vec!["3"],
    vec!["-7", "-7.0"],
    vec!["1/3", "2/6"],
    vec!["0.1 + 0.2", "0.3", "0.30"],
    vec!["9999999999999999999999999999999999"],
    vec!["-9999999999999999999999999999999999"],
    vec!["1234567890123456789012345678901234", "1234567890123456789012345678901234.0"],
    vec!["1234567890123456789012345678901233"],
    vec!["0.1234567890123456789012345678901234", "0.12345678901234567890123456789012340"],
    vec!["0.0000000000000000000000000000000001"],
    vec!["1000000000000000000000000000000000", "1000000000000000000000000000000000.0"],
  ];
  for _ in 0..(1000 * scale) {
    let k = 1 + rng.below(4) as usize;
    let chosen: Vec<&Vec<&str>> = (0..k).map(|_| rng.pick(&values)).collect();
    let len = rng.below(10) as usize;
    let mut items: Vec<String> = (0..len)
      .map(|_| {
        let v: &Vec<&str> = *rng.pick(chosen.as_slice());
        rng.pick(v.as_slice()).to_string()
      })
      .collect();
    if rng.chance(1, 8) && !items.is_empty() {
      let i = rng.below(items.len() as u64) as usize;
      items[i] = rng.pick(&["null", "true", "\"a\"", "[1]", "1/0"]).to_string();
    }
    add("mode", vec![format!("[{}]", items.join(", "))], "mode-spec");
    if !items.is_empty() {
      add("mode", items, "mode-spec-varargs");
    }
  }
  let decimals = ["1", "1.0", "1.00", "2", "3", "4", "6", "-1", "-2.5", "2.50", "0.25", "10", "100", "7", "-0", "0", "1.5", "-3", "-7.25", "1000", "12.5", "0.125", "-0.5", "2.0"];
  let integers = ["0", "1", "2", "3", "5", "-1", "-4", "7", "10", "12", "-9", "100", "1.0", "3.00", "-0"];
  for _ in 0..(1000 * scale) {
    let n = rng.below(9) as usize;
    let mut items: Vec<String> = if matches!(n, 3 | 6 | 7) {
      // integers whose sum is a multiple of the count
      let mut xs: Vec<String> = (0..n - 1).map(|_| rng.pick(&integers).to_string()).collect();
      let sum: i64 = xs.iter().map(|t| t.split('.').next().unwrap_or("0").parse::<i64>().unwrap_or(0)).sum();
      let last = (n as i64 - sum.rem_euclid(n as i64)) % n as i64 + n as i64 * rng.range(-2, 2);
      xs.push(last.to_string());
      xs
    } else {
      (0..n).map(|_| rng.pick(&decimals).to_string()).collect()
    };
    if rng.chance(1, 10) && !items.is_empty() {
      let i = rng.below(items.len() as u64) as usize;
      items[i] = rng.pick(&["null", "true", "\"a\"", "[1]"]).to_string();
    }
    add("stddev", vec![format!("[{}]", items.join(", "))], "stddev-spec");
    if !items.is_empty() {
      add("stddev", items, "stddev-spec-varargs");
    }
  }
  for l in [
    "[9999999999999999999999999999999999, 1]",
    "[9999999999999999999999999999999999, 9999999999999999999999999999999999]",
    "[9999999999999999999999999999999999, -9999999999999999999999999999999999]",
    "[1234567890123456789012345678901234, 1234567890123456789012345678901232]",
    "[0.0000000000000000000000000000000001, 0.0000000000000000000000000000000003]",
    "[1000000000000000000000000000000000, 3000000000000000000000000000000000, 2000000000000000000000000000000000]",
    "[0.1234567890123456789012345678901234, 0.1234567890123456789012345678901234]",
    "[5000000000000000000000000000000000, 1, 2, 1]",
  ] {
    add("stddev", vec![l.into()], "stddev-spec-wide");
    add("mode", vec![l.into()], "mode-spec");
  }
}

/// numbers by value: `(n neg coeff exp)` without trailing zeros, every zero alike
fn canon(s: &Sexp) -> Sexp {
  match s {
    Sexp::List(xs) => {
      if xs.len() == 4 && xs[0].as_atom() == Some("n") {
        if let (Some(neg), Some(c), Some(e)) = (xs[1].as_atom(), xs[2].as_atom(), xs[3].as_atom()) {
          let mut digits = c.trim_start_matches('0').to_string();
          let mut exp: i64 = e.parse().unwrap_or(0);
          if digits.is_empty() {
            return Sexp::tagged("n", vec![Sexp::atom("0"), Sexp::atom("0"), Sexp::atom("0")]);
          }
          while digits.ends_with('0') {
            digits.pop();
            exp += 1;
          }
          return Sexp::tagged("n", vec![Sexp::atom(neg), Sexp::atom(digits), Sexp::int(exp)]);
        }
      }
      Sexp::List(xs.iter().map(canon).collect())
    }
    a => a.clone(),
  }
}

/// The shared encoding reads a number from its plain text, which cannot show a positive
/// exponent (`1E+3` prints as `1000`): a positive exponent is written out on both sides.
/// Everything else (fraction digits, trailing zeros after the point, the sign of zero) is
/// compared exactly.
fn plain_exp(s: &Sexp) -> Sexp {
  match s {
    Sexp::List(xs) => {
      if xs.len() == 4 && xs[0].as_atom() == Some("n") {
        if let (Some(neg), Some(c), Some(e)) = (xs[1].as_atom(), xs[2].as_atom(), xs[3].as_atom()) {
          let exp: i64 = e.parse().unwrap_or(0);
          if exp > 0 && exp < 7000 {
            let digits = if c == "0" { "0".to_string() } else { format!("{}{}", c, "0".repeat(exp as usize)) };
            return Sexp::tagged("n", vec![Sexp::atom(neg), Sexp::atom(digits), Sexp::atom("0")]);
          }
        }
      }
      Sexp::List(xs.iter().map(plain_exp).collect())
    }
    a => a.clone(),
  }
}

fn same_as_model(shown: &str, ans: &str) -> bool {
  if shown == ans {
    return true;
  }
  match (Sexp::parse(shown), Sexp::parse(ans)) {
    (Some(a), Some(b)) => plain_exp(&a) == plain_exp(&b),
    _ => false,
  }
}

fn decode_str(s: &Sexp) -> String {
  match s {
    Sexp::List(xs) => xs.iter().skip(1).filter_map(|x| x.as_atom().and_then(|a| a.parse::<u32>().ok()).and_then(char::from_u32)).collect(),
    _ => String::new(),
  }
}

enum Impl {
  Val(Value),
  Panic(String),
}

fn run_impl(scope: &Scope, text: &str) -> Impl {
  crate::util::note_case(text);
  match guarded(|| crate::c09::eval_text(scope, text)) {
    Ok(v) => Impl::Val(v),
    Err(m) => Impl::Panic(m),
  }
}

fn show_impl(i: &Impl) -> String {
  match i {
    Impl::Val(v) => match value_sexp(v) {
      Some(s) => format!("(ok {})", s),
      None => format!("(unencodable {})", v),
    },
    Impl::Panic(m) => format!("(panic {})", m),
  }
}

/// has a numeric argument an integer value written with fraction digits (`2.0`)?
fn has_fractional_integer(args: &[String]) -> bool {
  args.iter().any(|a| {
    let t = a.trim_start_matches('-');
    match t.split_once('.') {
      Some((i, f)) => !i.is_empty() && i.chars().all(|c| c.is_ascii_digit()) && !f.is_empty() && f.chars().all(|c| c == '0'),
      None => false,
    }
  })
}

/// A stable, specific name for the way an implementation answer misses the specification.
fn classify(call: &Call, imp: &Impl, spec: &Sexp) -> String {
  let bif = call.bif;
  if let Impl::Panic(_) = imp {
    return format!("panic in {}", bif);
  }
  let impl_null = matches!(imp, Impl::Val(Value::Null(_)));
  match bif {
    "substring" | "sublist" | "insert before" | "remove" if impl_null && has_fractional_integer(&call.args) => {
      format!("{}: integer-valued number written with fraction digits is rejected", bif)
    }
    "all" | "any" => format!("{}: result depends on the order of null / non-boolean items", bif),
    "max" if call.args.iter().any(|a| a.contains("null")) => "max: null items after the first are skipped".to_string(),
    "replace" => {
      if let (Impl::Val(Value::String(s)), Some(_)) = (imp, spec.as_list()) {
        if decode_str(spec).trim() == s.as_str() {
          return "replace: the result is trimmed".to_string();
        }
      }
      "replace deviates from its specification".to_string()
    }
    "get value" if call.args.len() == 2 && call.args[1].contains(' ') => "get value: the key is trimmed".to_string(),
    "number" if !impl_null && spec.as_atom() == Some("null") => "number: text that is not a FEEL numeric literal is accepted".to_string(),
    _ => format!("{} deviates from its specification", bif),
  }
}

fn input_of(call: &Call, text: &str) -> String {
  let mut v = vec![call.bif.to_string()];
  v.extend(call.args.iter().cloned());
  format!("{} ;; {}", text, serde_json::to_string(&v).unwrap())
}

/// Regular-expression built-ins with a literal pattern, with and without the flag `i`, in sequences: the value of
/// a call is that of the literal-pattern semantics whatever was evaluated before it (expectations computed here,
/// on ASCII letters and digits only). Shared with C13 (evaluation is pure).
pub fn regex_sequences(rep: &mut Report, rng: &mut Rng, n_seq: usize) {
  let scope = Scope::default();
  let words = ["FooBar", "foobar", "FOOBAR", "abcABC", "xYz", "b", "B", "oo", "OO", "Ab", "aB", "Zz9"];
  for _ in 0..n_seq {
    let input = (*rng.pick(&words)).to_string();
    let pattern = {
      let w: Vec<char> = rng.pick(&words).chars().collect();
      let a = rng.below(w.len() as u64) as usize;
      let b = a + 1 + rng.below((w.len() - a) as u64) as usize;
      w[a..b.min(w.len())].iter().collect::<String>()
    };
    // one pattern text, several calls in a random order
    let mut seq: Vec<(String, String)> = vec![];
    for _ in 0..(2 + rng.below(4)) {
      let ci = rng.chance(1, 2);
      let hit = if ci { input.to_lowercase().contains(&pattern.to_lowercase()) } else { input.contains(&pattern) };
      match rng.below(3) {
        0 => seq.push((
          format!("matches(\"{}\", \"{}\"{})", input, pattern, if ci { ", \"i\"" } else { "" }),
          hit.to_string(),
        )),
        1 => {
          let expect = if ci {
            // replace every occurrence, letter case ignored
            let (li, lp) = (input.to_lowercase(), pattern.to_lowercase());
            let mut out = String::new();
            let mut i = 0;
            while i < input.len() {
              if li[i..].starts_with(&lp) {
                out.push('#');
                i += lp.len();
              } else {
                out.push_str(&input[i..i + 1]);
                i += 1;
              }
            }
            out
          } else {
            input.replace(&pattern, "#")
          };
          seq.push((
            format!("replace(\"{}\", \"{}\", \"#\"{})", input, pattern, if ci { ", \"i\"" } else { "" }),
            format!("\"{}\"", expect),
          ));
        }
        _ => {
          let parts: Vec<String> = input.split(pattern.as_str()).map(|x| format!("\"{}\"", x)).collect();
          seq.push((format!("split(\"{}\", \"{}\")", input, pattern), format!("[{}]", parts.join(", "))));
        }
      }
    }
    for (k, (text, want)) in seq.iter().enumerate() {
      rep.case(&format!("regex-sequence {} {}", k, text), true);
      rep.hit("family:regex-sequence");
      let got = match run_impl(&scope, text) {
        Impl::Val(v) => v.to_string(),
        Impl::Panic(m) => format!("panic {}", m),
      };
      if &got != want {
        let before: Vec<&str> = seq[..k].iter().map(|(t, _)| t.as_str()).collect();
        rep.disagree(
          Kind::ImplVsSpec,
          "regex-sequence",
          "matches / replace / split with a literal pattern differ from the literal-pattern semantics (possibly depending on what was evaluated before)",
          &format!("{}   after: {}", text, before.join(" ; ")),
          &got,
          want,
        );
      }
    }
  }
}

pub fn run(cfg: &Cfg) -> Report {
  let scope = Scope::default();
  if cfg.extra.iter().any(|x| x == "--probe") {
    use std::io::BufRead;
    for line in std::io::stdin().lock().lines() {
      let line = line.unwrap();
      println!("{}  =>  {}", line, show_impl(&run_impl(&scope, &line)));
    }
    std::process::exit(0);
  }
  let mut rep = Report::new(
    "C08",
    "FEEL invocations f(args) and f(name: arg, …) of the 37 built-ins of the property: substring over strings of 0..8 ASCII / BMP / supplementary characters with every position and length in -(n+2)..n+2, 0, non-integers, 2.0-style integers and usize/isize bounds; sublist / insert before / remove over lists of length 0..8 (duplicates, nested lists, nulls, contexts) with the same position grid; string pairs with the match taken from every cut of the input; all/any over every list of {true,false,null,1} up to length 3; aggregates over random number / string lists incl. the varargs form; mode over few values in several spellings each (1, 1.0, 1.00), zeros of both signs, negative, computed and 34-digit values, and stddev over short decimals with a short mean plus fixed 34-digit lists, both against their declarative specification (about 2 000 calls each); number() over a text × separator grid; every built-in with every arity 0..5 and arbitrary arguments. Non-trivial: the implementation's positional answer is not null; distinct by request line.",
  );
  let mut model = Model::start(&cfg.driver);
  let mut rng = Rng::new(cfg.seed);
  let thorough = cfg.tier == "thorough";

  if cfg.replay.is_none() {
    regex_sequences(&mut rep, &mut rng, if thorough { 4000 } else { 300 });
  }

  let calls: Vec<Call> = if let Some(path) = &cfg.replay {
    // a replay file carries the call after " ;; " as a JSON array [bif, arg…]
    let text = std::fs::read_to_string(path).expect("replay file");
    let j: serde_json::Value = serde_json::from_str(&text).expect("replay json");
    let input = j["input"].as_str().unwrap_or("");
    let tail = input.split(" ;; ").nth(1).unwrap_or("[]");
    let v: Vec<String> = serde_json::from_str(tail).unwrap_or_default();
    match v.split_first() {
      Some((b, args)) => match BIFS.iter().find(|x| **x == b.as_str()) {
        Some(bif) => vec![Call { bif, args: args.to_vec(), family: "replay" }],
        None => vec![],
      },
      None => vec![],
    }
  } else {
    generate(&mut rng, thorough)
  };

  // the tables the driver was built from: which signatures differ
  let off = model.ask("(c08 offending)");
  rep.extra.insert("offending_signatures".into(), json!(off));

  // argument text -> S-expression of the value the implementation gives it
  let mut arg_cache: HashMap<String, Option<String>> = HashMap::new();
  let mut enc = |text: &str| -> Option<String> {
    if let Some(r) = arg_cache.get(text) {
      return r.clone();
    }
    let r = match guarded(|| crate::c09::eval_text(&scope, text)) {
      // an argument that does not evaluate (parse error …); `1/0` is a deliberate computed null
      Ok(Value::Null(Some(_))) if text != "1/0" => None,
      Ok(v) => value_sexp(&v).map(|s| s.to_string()),
      Err(_) => None,
    };
    arg_cache.insert(text.to_string(), r.clone());
    r
  };

  struct Done {
    call: Call,
    pos_text: String,
    pos: Impl,
    named_text: Option<String>,
    named: Option<Impl>,
    req_pos: Option<usize>,
    req_named: Option<usize>,
    req_spec: Option<usize>,
  }
  let mut done: Vec<Done> = vec![];
  let mut reqs: Vec<String> = vec![];
  for call in calls {
    let pos_text = format!("{}({})", call.bif, call.args.join(", "));
    let pos = run_impl(&scope, &pos_text);
    let encs: Option<Vec<String>> = call.args.iter().map(|a| enc(a)).collect();
    let name_sexp = Sexp::str(call.bif).to_string();
    let (mut req_pos, mut req_named, mut req_spec) = (None, None, None);
    let mut named_text = None;
    let mut named = None;
    let sig = signature(call.bif);
    let named_ok = match &sig {
      Some((names, required)) => call.args.len() >= *required && call.args.len() <= names.len(),
      None => false,
    };
    if named_ok {
      let (names, _) = sig.as_ref().unwrap();
      let parts: Vec<String> = names.iter().zip(call.args.iter()).map(|(n, a)| format!("{}: {}", n, a)).collect();
      let t = format!("{}({})", call.bif, parts.join(", "));
      named = Some(run_impl(&scope, &t));
      named_text = Some(t);
    }
    // `sort` with one of the fixed ordering functions: the model's merge sort on the named relation
    let sort_rel = if call.bif == "sort" && call.args.len() == 2 {
      match call.args[1].as_str() {
        "function(x,y) x < y" => Some("lt"),
        "function(x,y) x > y" => Some("gt"),
        "function(x,y) x <= y" => Some("le"),
        "function(x,y) x != y" => Some("ne"),
        "function(x,y) x = y" => Some("eq"),
        "function(x,y) true" => Some("true"),
        "function(x,y) false" => Some("false"),
        f => TYPED_ORDERINGS.iter().find(|(t, _)| *t == f).map(|(_, r)| *r),
      }
    } else {
      None
    };
    if let Some(rel) = sort_rel {
      if let Some(l) = enc(&call.args[0]) {
        req_pos = Some(reqs.len());
        reqs.push(format!("(c08 sort {} {})", rel, l));
      }
    }
    if let Some(encs) = &encs {
      // other function values are not sent to the model
      if !call.args.iter().any(|a| a.starts_with("function")) {
        req_pos = Some(reqs.len());
        reqs.push(format!("(c08 call checked {} positional {})", name_sexp, encs.join(" ")));
        req_spec = Some(reqs.len());
        reqs.push(format!("(c08 spec {} {})", name_sexp, encs.join(" ")));
        if named_ok {
          let (names, _) = sig.as_ref().unwrap();
          let kvs: Vec<String> = names.iter().zip(encs.iter()).map(|(n, e)| format!("({} {})", Sexp::str(n), e)).collect();
          req_named = Some(reqs.len());
          reqs.push(format!("(c08 call checked {} named {})", name_sexp, kvs.join(" ")));
        }
      }
    }
    done.push(Done { call, pos_text, pos, named_text, named, req_pos, req_named, req_spec });
  }
  let answers = model.ask_batch(&reqs);

  let mut rxdump = std::env::var("VERIF_C08_RXDUMP").ok().and_then(|p| std::fs::File::create(p).ok());
  let mut unmodelled = 0u64;
  let mut nospec = 0u64;
  for d in &done {
    let bif = d.call.bif;
    let nontrivial = matches!(&d.pos, Impl::Val(v) if !matches!(v, Value::Null(_)));
    rep.case(&d.pos_text, nontrivial);
    rep.hit(&format!("family:{}", d.call.family));
    rep.hit(&format!("bif:{}", bif));
    rep.hit(&format!("arity:{}", d.call.args.len()));
    rep.hit(match &d.pos {
      Impl::Val(Value::Null(_)) => "result:null",
      Impl::Val(_) => "result:value",
      Impl::Panic(_) => "result:panic",
    });
    let input = input_of(&d.call, &d.pos_text);
    let shown = show_impl(&d.pos);
    // ---- no panic (C05 a)
    if let Impl::Panic(m) = &d.pos {
      rep.disagree(Kind::ImplVsSpec, "no_panic", &format!("panic in {} ({})", bif, m), &input, &format!("panic: {}", m), "a value (null outside the domain)");
    }
    if let (Some(Impl::Panic(m)), Some(t)) = (&d.named, &d.named_text) {
      rep.disagree(Kind::ImplVsSpec, "no_panic", &format!("panic in {} ({})", bif, m), &input_of(&d.call, t), &format!("panic: {}", m), "a value (null outside the domain)");
    }
    // ---- implementation = model (positional)
    if let Some(i) = d.req_pos {
      let ans = &answers[i];
      if ans == "(unmodelled)" {
        unmodelled += 1;
        rep.hit(&format!("unmodelled:{}", bif));
      } else {
        let same = match &d.pos {
          Impl::Val(_) => same_as_model(&shown, ans),
          Impl::Panic(_) => ans.starts_with("(panic "),
        };
        rep.hit(if ans.starts_with("(panic ") { "model:panic" } else { "model:ok" });
        if !same {
          rep.disagree(Kind::ImplVsModel, "core", &format!("{} differs from the model (positional)", bif), &input, &shown, ans);
        }
        if rep.samples.len() < 10 && nontrivial && rep.samples.iter().all(|s| s["bif"] != json!(bif)) {
          rep.sample(json!({"bif": bif, "expression": d.pos_text, "request": reqs[i], "implementation": shown, "model": ans}));
        }
      }
    }
    // ---- implementation = model (named)
    if let (Some(i), Some(n), Some(t)) = (d.req_named, &d.named, &d.named_text) {
      let ans = &answers[i];
      if ans != "(unmodelled)" {
        let sn = show_impl(n);
        let same = match n {
          Impl::Val(_) => same_as_model(&sn, ans),
          Impl::Panic(_) => ans.starts_with("(panic "),
        };
        if !same {
          rep.disagree(Kind::ImplVsModel, "named", &format!("{} differs from the model (named)", bif), &input_of(&d.call, t), &sn, ans);
        }
      }
    }
    // ---- implementation = specification
    if let Some(i) = d.req_spec {
      let ans = &answers[i];
      if ans == "(nospec)" {
        nospec += 1;
      } else if let Some(Sexp::List(xs)) = Sexp::parse(ans) {
        if xs.len() == 3 && xs[0].as_atom() == Some("specs-differ") {
          // the executable form `Spec.modeV` and the declarative form `Spec.mode` of the specification disagree
          rep.disagree(Kind::ImplVsModel, "spec", &format!("{}: the two forms of the specification differ", bif), &input, &format!("(ok {})", xs[1]), &format!("(ok {})", xs[2]));
        }
        if xs.len() == 2 && xs[0].as_atom() == Some("spec") {
          // `mode` and `stddev` have a declarative specification that fixes the representation as well (the
          // spelling of the first occurrence; the reduced result of the last operation): compared exactly
          let exact = bif == "mode" || bif == "stddev";
          if exact {
            rep.hit(&format!("declarative-spec:{}", bif));
          }
          let want = canon(&xs[1]);
          let ok = match &d.pos {
            Impl::Val(v) if exact => value_sexp(v).map(|s| plain_exp(&s) == plain_exp(&xs[1])).unwrap_or(false),
            Impl::Val(v) => value_sexp(v).map(|s| canon(&s) == want).unwrap_or(false),
            Impl::Panic(_) => false,
          };
          rep.hit(if ok { "spec:agrees" } else { "spec:differs" });
          if !ok {
            if let Impl::Val(_) = &d.pos {
              rep.disagree(Kind::ImplVsSpec, "spec", &classify(&d.call, &d.pos, &xs[1]), &input, &shown, &format!("(ok {})", xs[1]));
            }
          }
        }
      }
    }
    // ---- matches / replace / split against the written-out expectation (flags, q, empty delimiter)
    if let Some((want, sig)) = regex_oracle(&d.call) {
      rep.hit("regex-oracle:judged");
      if regex_oracle_literal(&d.call).is_none() {
        rep.hit(&format!("regex-oracle:second implementation:{}", bif));
      }
      // for lib/regex_second_opinion.py (python3's `re` on the judged calls)
      if let Some(f) = rxdump.as_mut() {
        use std::io::Write;
        let _ = writeln!(f, "{}", json!({"bif": bif, "args": d.call.args, "want": want.show()}));
      }
      let forms: Vec<(&Impl, String)> = std::iter::once((&d.pos, input.clone())).chain(d.named.iter().zip(d.named_text.iter()).map(|(n, t)| (n, input_of(&d.call, t)))).collect();
      for (imp, inp) in forms {
        if let Impl::Val(v) = imp {
          if !want.is(v) {
            let trimmed = matches!((&want, v), (Want::Str(w), Value::String(g)) if w.trim() == g.as_str());
            // `$0` directly followed by a letter, a digit-free name character: the whole match, then that character
            let group0_name = bif == "replace"
              && d.call.args.get(2).and_then(|r| unlit(r)).map_or(false, |r| {
                let cs: Vec<char> = r.chars().collect();
                cs.windows(3).any(|w| w[0] == '$' && w[1] == '0' && (w[2].is_ascii_alphabetic() || w[2] == '_'))
              });
            let sig = if trimmed {
              "replace: the result is trimmed"
            } else if group0_name {
              "replace: $0 followed by a name character is replaced by nothing"
            } else {
              sig
            };
            rep.disagree(Kind::ImplVsSpec, "regex-oracle", sig, &inp, &show_impl(imp), &want.show());
          }
        }
      }
    }
    // ---- string(e) against the text of the canonically written expression (family string-printed), both forms
    if let Some((want, sig)) = string_oracle(&d.call) {
      rep.hit("string-oracle:judged");
      let forms: Vec<(&Impl, String)> = std::iter::once((&d.pos, input.clone())).chain(d.named.iter().zip(d.named_text.iter()).map(|(n, t)| (n, input_of(&d.call, t)))).collect();
      for (imp, inp) in forms {
        if let Impl::Val(v) = imp {
          if !want.is(v) {
            rep.disagree(Kind::ImplVsSpec, "string-oracle", sig, &inp, &show_impl(imp), &want.show());
          }
        }
      }
    }
    // ---- sort = the stable arrangement under the ordering function as a direct invocation evaluates it
    // (ordering functions of two parameters: any other second argument is outside the domain)
    let two_parameters = |f: &str| f.strip_prefix("function(").and_then(|t| t.split_once(')')).map(|(ps, _)| ps.split(',').count() == 2 && !ps.trim().is_empty()).unwrap_or(false);
    if bif == "sort" && d.call.args.len() == 2 && two_parameters(&d.call.args[1]) {
      match sort_law(&scope, &d.call.args[0], &d.call.args[1]) {
        Some(want) => {
          rep.hit("sort-law:applies");
          let got: Option<Vec<String>> = match &d.pos {
            Impl::Val(Value::List(items)) => items.as_vec().iter().map(|v| value_sexp(v).map(|s| s.to_string())).collect(),
            _ => None,
          };
          if got.as_ref() != Some(&want) {
            rep.disagree(
              Kind::ImplVsSpec,
              "sort-law",
              "sort differs from the stable arrangement under the ordering function as a direct invocation evaluates it (parameter types)",
              &input,
              &shown,
              &format!("(ok (list {}))", want.join(" ")),
            );
          }
        }
        None => rep.hit("sort-law:not a strict weak order"),
      }
    }
    // ---- named = positional on the implementation alone
    if let (Some(n), Some(t)) = (&d.named, &d.named_text) {
      let a = show_impl(&d.pos);
      let b = show_impl(n);
      rep.evaluations += 1;
      rep.hit("named:compared");
      if a != b {
        // a single argument that is not a list, given to a parameter declared as a list
        let single_item = d.call.args.len() == 1 && !d.call.args[0].starts_with('[') && signature(bif).map(|s| s.0 == vec!["list"]).unwrap_or(false);
        let sig = if single_item {
          format!("named invocation rejects a single item for the parameter list: {}", bif)
        } else {
          format!("named invocation differs from positional: {}", bif)
        };
        rep.disagree(
          Kind::ImplVsSpec,
          "named_eq_positional",
          &sig,
          &format!("{} vs {} ;; {}", d.pos_text, t, input.split(" ;; ").nth(1).unwrap_or("")),
          &format!("named {}", b),
          &format!("positional {}", a),
        );
      }
    }
  }
  // ---- a parameter name the built-in does not have: outside the domain (null), as a surplus positional argument is
  // and as a user-defined function answers an unknown name.  Every built-in of the property that has a named
  // form × every kind of surplus name (a name no built-in has, a parameter name of other built-ins, the
  // built-in's own first parameter in another letter case, a name with a space), in the first, a middle and the
  // last place, over calls whose named form gives a value.
  {
    let mut per_bif: HashMap<&'static str, u64> = HashMap::new();
    for d in &done {
      let (names, _) = match signature(d.call.bif) {
        Some(s) => s,
        None => continue,
      };
      if !matches!(&d.named, Some(Impl::Val(v)) if !matches!(v, Value::Null(_))) {
        continue;
      }
      let k = per_bif.entry(d.call.bif).or_insert(0);
      if *k >= 48 {
        continue;
      }
      *k += 1;
      let other = ["flags", "scale", "position", "list", "string", "n"].iter().find(|n| !names.contains(n)).copied().unwrap_or("scale");
      let own_other_case = names[0].to_uppercase();
      let surplus = match *k % 4 {
        0 => "foo".to_string(),
        1 => other.to_string(),
        2 => own_other_case,
        _ => "new item".to_string(),
      };
      let mut parts: Vec<String> = names.iter().zip(d.call.args.iter()).map(|(n, a)| format!("{}: {}", n, a)).collect();
      let at = match (*k / 4) % 3 {
        0 => parts.len(),
        1 => 0,
        _ => parts.len() / 2,
      };
      parts.insert(at, format!("{}: {}", surplus, if *k % 2 == 0 { "1" } else { "null" }));
      let t = format!("{}({})", d.call.bif, parts.join(", "));
      let r = run_impl(&scope, &t);
      rep.case(&t, true);
      rep.hit("family:named-surplus");
      match &r {
        Impl::Val(Value::Null(_)) => rep.hit("named-surplus:null"),
        Impl::Val(_) => {
          rep.hit("named-surplus:value");
          rep.disagree(
            Kind::ImplVsSpec,
            "named-surplus",
            "named invocation ignores a parameter name the built-in does not have",
            &input_of(&d.call, &t),
            &show_impl(&r),
            "null",
          );
        }
        Impl::Panic(m) => rep.disagree(Kind::ImplVsSpec, "no_panic", &format!("panic in {} ({})", d.call.bif, m), &input_of(&d.call, &t), &format!("panic: {}", m), "a value (null outside the domain)"),
      }
    }
  }
  // ---- named parameters may be written in any order
  if cfg.replay.is_none() {
    let mut seen_rev = 0u64;
    for d in &done {
      if let (Some(Impl::Val(nv)), Some((names, _))) = (&d.named, signature(d.call.bif)) {
        if d.call.args.len() >= 2 && d.call.args.len() <= names.len() && seen_rev < 4000 {
          seen_rev += 1;
          let mut parts: Vec<String> = names.iter().zip(d.call.args.iter()).map(|(n, a)| format!("{}: {}", n, a)).collect();
          parts.reverse();
          let t = format!("{}({})", d.call.bif, parts.join(", "));
          let r = run_impl(&scope, &t);
          rep.evaluations += 1;
          rep.hit("named:reversed-order");
          let same = match &r {
            Impl::Val(v) => value_sexp(v).map(|x| x.to_string()) == value_sexp(nv).map(|x| x.to_string()),
            Impl::Panic(_) => false,
          };
          if !same {
            rep.disagree(
              Kind::ImplVsSpec,
              "named_order",
              &format!("named invocation depends on the order of the parameters: {}", d.call.bif),
              &input_of(&d.call, &t),
              &show_impl(&r),
              &show_impl(&Impl::Val(nv.clone())),
            );
          }
        }
      }
    }
    // ---- expressions whose arguments are not literals: (expression, FEEL text of the specified value)
    let special: Vec<(&str, &str, &str)> = vec![
      ("string([not(1)])", "\"[null]\"", "string: the trace message of a null item is printed"),
      ("string({a: not(1)})", "\"{a: null}\"", "string: the trace message of a null item is printed"),
      ("string([1, null])", "\"[1, null]\"", "string: the trace message of a null item is printed"),
      ("string length(string(not(1)))", "null", "string deviates from its specification"),
      ("count(append([1], not(1)))", "2", "append deviates from its specification"),
      ("substring(\"foobar\", 8 - 5)", "\"obar\"", "substring deviates from its specification"),
      ("sublist([1, 2, 3], 4 - 2, 3 - 2)", "[2]", "sublist deviates from its specification"),
      // regression cases of repaired findings (always run)
      ("mean(list: [1, 2, 6])", "3", "named invocation differs from positional: mean"), // F2
      ("all(list: true)", "true", "named invocation rejects a single item for the parameter list: all"), // F2c
      ("sum(list: 1)", "1", "named invocation rejects a single item for the parameter list: sum"),
      ("mode(list: 2)", "[2]", "named invocation rejects a single item for the parameter list: mode"),
      ("sublist([1, 2, 3], -5, 1)", "null", "panic in sublist"), // F5
      ("sublist([1, 2, 3], 2, 18446744073709551615)", "null", "panic in sublist"), // F5b
      ("substring(\"abc\", 2, 18446744073709551615)", "null", "panic in substring"), // F20
      ("max([1, null, 3])", "null", "max: null items after the first are skipped"), // F22
      ("substring(\"abc\", 2.0)", "\"bc\"", "substring: integer-valued number written with fraction digits is rejected"), // F19
      ("sublist([1, 2, 3], 2.0, 1.00)", "[2]", "sublist: integer-valued number written with fraction digits is rejected"),
      ("insert before([1, 2], 1.0, 9)", "[9, 1, 2]", "insert before: integer-valued number written with fraction digits is rejected"),
      ("remove([1, 2], -1.0)", "[1]", "remove: integer-valued number written with fraction digits is rejected"),
      ("string({a: \"x\\\"y\", b: [null]})", "\"{a: \\\"x\\\\\\\"y\\\", b: [null]}\"", "string deviates from its specification"), // F26: entries are written like list items
    ];
    for (expr, want, sig) in special {
      let got = run_impl(&scope, expr);
      let exp = run_impl(&scope, want);
      rep.case(expr, true);
      rep.hit("family:special");
      let same = match (&got, &exp) {
        (Impl::Val(a), Impl::Val(b)) => value_sexp(a).map(|x| canon(&x)) == value_sexp(b).map(|x| canon(&x)),
        _ => false,
      };
      if !same {
        rep.disagree(Kind::ImplVsSpec, "special", sig, &format!("{} ;; []", expr), &show_impl(&got), &show_impl(&exp));
      }
    }
  }
  rep.extra.insert("unmodelled_calls".into(), json!(unmodelled));
  rep.extra.insert("calls_without_specification".into(), json!(nospec));
  rep.extra.insert("integer_mode_observed".into(), json!("checked (the harness build has overflow checks on)"));
  rep.model_requests = model.requests;
  rep
}

// ------------------------------------------------------------------------------------------------
// A second implementation of the regular expressions of `matches` / `replace` / `split`, written from
// XPath F&O 3.0 §5.6 / XML Schema part 2 appendix F (the `regex` crate is the implementation under test and
// is not consulted): a parser for the constructs below and a backtracking matcher (leftmost match, the first
// alternative that leads to a match, greedy quantifiers unless followed by `?`).
//
//   branches `a|b`, pieces with `? * + {n} {n,} {n,m}` (and their reluctant forms), groups `( )` / `(?: )`,
//   `.`, `^`, `$`, classes `[abc] [a-z] [^…]` with the escapes below, `\d \D \s \S \w \W`, the single-character
//   escapes `\n \r \t \\ \| \. \- \^ \? \* \+ \{ \} \( \) \[ \] \$`; flags s m i x.
//
// `parse` answers `Invalid` only where both XPath and the `regex` crate reject the text (a quantifier with
// nothing before it, unbalanced parentheses, an unclosed class or `{`, a reversed range or count, a trailing
// backslash), and `Unsupported` (no verdict) wherever the two notations are known to differ or this module does
// not know: back-references, `\p{…}`, `\i \c`, `\b` and the other escapes of the `regex` crate, class
// subtraction / intersection, a bare `]` or `}`, a quantifier after a quantifier or after an anchor, `{,n}`,
// `#` or white space inside a class or before a quantifier under the flag x.  `\w`, `\s`, `.` and the flag i
// are judged only on inputs where XPath's and Unicode's definitions coincide (`rx::input_ok`).
pub mod rx {
  #[derive(Clone, Debug)]
  pub enum Item {
    Ch(char),
    Range(char, char),
    /// `\d \s \w` (false) and `\D \S \W` (true)
    Esc(char, bool),
  }

  #[derive(Clone, Debug)]
  pub enum Node {
    Char(char),
    Any,
    Class(bool, Vec<Item>),
    Start,
    End,
    Group(Box<Node>, Option<usize>),
    Cat(Vec<Node>),
    Alt(Vec<Node>),
    Rep(Box<Node>, usize, Option<usize>, bool),
  }

  #[derive(Clone, Copy, Default, Debug)]
  pub struct Flags {
    pub i: bool,
    pub s: bool,
    pub m: bool,
    pub x: bool,
  }

  impl Flags {
    pub fn of(letters: &str) -> Flags {
      Flags { i: letters.contains('i'), s: letters.contains('s'), m: letters.contains('m'), x: letters.contains('x') }
    }
  }

  pub enum Parsed {
    Ok(Node, usize),
    Invalid,
    Unsupported,
  }

  enum Stop {
    Invalid,
    Unsupported,
  }

  struct P {
    cs: Vec<char>,
    pos: usize,
    groups: usize,
  }

  const SINGLE_ESCAPES: &str = "\\|.-^?*+{}()[]$";

  fn class_escape(c: char) -> Option<Item> {
    match c {
      'd' | 's' | 'w' => Some(Item::Esc(c, false)),
      'D' | 'S' | 'W' => Some(Item::Esc(c.to_ascii_lowercase(), true)),
      _ => None,
    }
  }

  impl P {
    fn peek(&self) -> Option<char> {
      self.cs.get(self.pos).copied()
    }
    fn alt(&mut self, depth: usize) -> Result<Node, Stop> {
      let mut branches = vec![self.branch(depth)?];
      while self.peek() == Some('|') {
        self.pos += 1;
        branches.push(self.branch(depth)?);
      }
      Ok(if branches.len() == 1 { branches.pop().unwrap() } else { Node::Alt(branches) })
    }
    fn branch(&mut self, depth: usize) -> Result<Node, Stop> {
      let mut pieces = vec![];
      loop {
        match self.peek() {
          None | Some('|') => break,
          Some(')') => {
            if depth == 0 {
              return Err(Stop::Invalid);
            }
            break;
          }
          Some(_) => pieces.push(self.piece(depth)?),
        }
      }
      Ok(Node::Cat(pieces))
    }
    fn number(&mut self) -> Option<usize> {
      let start = self.pos;
      while matches!(self.peek(), Some(c) if c.is_ascii_digit()) {
        self.pos += 1;
      }
      if self.pos == start || self.pos - start > 3 {
        return None;
      }
      self.cs[start..self.pos].iter().collect::<String>().parse().ok()
    }
    fn piece(&mut self, depth: usize) -> Result<Node, Stop> {
      let atom = self.atom(depth)?;
      let (min, max) = match self.peek() {
        Some('?') => {
          self.pos += 1;
          (0, Some(1))
        }
        Some('*') => {
          self.pos += 1;
          (0, None)
        }
        Some('+') => {
          self.pos += 1;
          (1, None)
        }
        Some('{') => {
          self.pos += 1;
          if self.peek() == Some(',') {
            return Err(Stop::Unsupported);
          }
          let n = match self.number() {
            Some(n) => n,
            // `a{`, `a{x}`: not a quantifier in either notation, the `regex` crate reports an error as well
            None => return Err(if self.peek().is_none() { Stop::Invalid } else { Stop::Unsupported }),
          };
          match self.peek() {
            Some('}') => {
              self.pos += 1;
              (n, Some(n))
            }
            Some(',') => {
              self.pos += 1;
              if self.peek() == Some('}') {
                self.pos += 1;
                (n, None)
              } else {
                let m = match self.number() {
                  Some(m) => m,
                  None => return Err(if self.peek().is_none() { Stop::Invalid } else { Stop::Unsupported }),
                };
                if self.peek() != Some('}') {
                  return Err(if self.peek().is_none() { Stop::Invalid } else { Stop::Unsupported });
                }
                self.pos += 1;
                if m < n {
                  return Err(Stop::Invalid);
                }
                (n, Some(m))
              }
            }
            None => return Err(Stop::Invalid),
            Some(_) => return Err(Stop::Unsupported),
          }
        }
        _ => return Ok(atom),
      };
      if matches!(atom, Node::Start | Node::End) {
        return Err(Stop::Unsupported);
      }
      let greedy = if self.peek() == Some('?') {
        self.pos += 1;
        false
      } else {
        true
      };
      // a quantifier after a quantifier: an error in XPath, accepted by the `regex` crate
      if matches!(self.peek(), Some('?') | Some('*') | Some('+') | Some('{')) {
        return Err(Stop::Unsupported);
      }
      Ok(Node::Rep(Box::new(atom), min, max, greedy))
    }
    fn atom(&mut self, depth: usize) -> Result<Node, Stop> {
      let c = self.peek().ok_or(Stop::Invalid)?;
      self.pos += 1;
      match c {
        '.' => Ok(Node::Any),
        '^' => Ok(Node::Start),
        '$' => Ok(Node::End),
        '?' | '*' | '+' | '{' => Err(Stop::Invalid),
        '}' | ']' => Err(Stop::Unsupported),
        '(' => {
          let capture = if self.peek() == Some('?') {
            if self.cs.get(self.pos + 1) == Some(&':') {
              self.pos += 2;
              None
            } else {
              return Err(Stop::Unsupported);
            }
          } else {
            self.groups += 1;
            Some(self.groups)
          };
          let inner = self.alt(depth + 1)?;
          if self.peek() != Some(')') {
            return Err(Stop::Invalid);
          }
          self.pos += 1;
          Ok(Node::Group(Box::new(inner), capture))
        }
        '[' => self.class(),
        '\\' => {
          let e = self.peek().ok_or(Stop::Invalid)?;
          self.pos += 1;
          if SINGLE_ESCAPES.contains(e) {
            Ok(Node::Char(e))
          } else if let Some(item) = class_escape(e) {
            Ok(Node::Class(false, vec![item]))
          } else {
            match e {
              'n' => Ok(Node::Char('\n')),
              'r' => Ok(Node::Char('\r')),
              't' => Ok(Node::Char('\t')),
              _ => Err(Stop::Unsupported),
            }
          }
        }
        c => Ok(Node::Char(c)),
      }
    }
    fn class(&mut self) -> Result<Node, Stop> {
      let negated = if self.peek() == Some('^') {
        self.pos += 1;
        true
      } else {
        false
      };
      let mut items: Vec<Item> = vec![];
      let mut first = true;
      loop {
        let c = match self.peek() {
          Some(c) => c,
          None => return Err(Stop::Invalid),
        };
        self.pos += 1;
        let single = match c {
          ']' => {
            if first {
              return Err(Stop::Unsupported);
            }
            break;
          }
          '[' | '&' | '~' => return Err(Stop::Unsupported),
          '\\' => {
            let e = self.peek().ok_or(Stop::Invalid)?;
            self.pos += 1;
            if SINGLE_ESCAPES.contains(e) {
              e
            } else if let Some(item) = class_escape(e) {
              // a class escape cannot be the end of a range
              if self.peek() == Some('-') && self.cs.get(self.pos + 1) != Some(&']') {
                return Err(Stop::Unsupported);
              }
              items.push(item);
              first = false;
              continue;
            } else {
              match e {
                'n' => '\n',
                'r' => '\r',
                't' => '\t',
                _ => return Err(Stop::Unsupported),
              }
            }
          }
          '-' => {
            // a hyphen stands for itself only at the start or at the end of the class
            if first || self.peek() == Some(']') {
              '-'
            } else {
              return Err(Stop::Unsupported);
            }
          }
          c => c,
        };
        first = false;
        if self.peek() == Some('-') && self.cs.get(self.pos + 1).map_or(false, |n| *n != ']') {
          self.pos += 1;
          let hi = match self.peek() {
            Some('\\') => {
              self.pos += 1;
              let e = self.peek().ok_or(Stop::Invalid)?;
              if SINGLE_ESCAPES.contains(e) {
                e
              } else {
                return Err(Stop::Unsupported);
              }
            }
            Some('[') | Some('-') | Some('&') | Some('~') => return Err(Stop::Unsupported),
            Some(h) => h,
            None => return Err(Stop::Invalid),
          };
          self.pos += 1;
          if hi < single {
            return Err(Stop::Invalid);
          }
          items.push(Item::Range(single, hi));
        } else {
          items.push(Item::Ch(single));
        }
      }
      Ok(Node::Class(negated, items))
    }
  }

  /// under the flag x white space in the pattern is dropped (outside classes); `None`: a place where the two
  /// notations may differ
  fn strip_x(p: &str) -> Option<String> {
    let cs: Vec<char> = p.chars().collect();
    let mut out = String::new();
    let mut in_class = false;
    let mut i = 0;
    while i < cs.len() {
      let c = cs[i];
      if c == '#' {
        return None;
      }
      if c == '\\' {
        let e = *cs.get(i + 1)?;
        if e.is_whitespace() {
          return None;
        }
        out.push(c);
        out.push(e);
        i += 2;
        continue;
      }
      if in_class {
        if c.is_whitespace() {
          return None;
        }
        if c == ']' {
          in_class = false;
        }
        out.push(c);
      } else if c.is_whitespace() {
        // white space directly before a quantifier, or inside `{…}`
        let next = cs[i + 1..].iter().find(|d| !d.is_whitespace());
        if matches!(next, Some('?') | Some('*') | Some('+') | Some('{') | Some('}') | Some(',')) || matches!(next, Some(d) if d.is_ascii_digit() && out.ends_with(|e: char| e == '{' || e == ',' || e.is_ascii_digit()) && out.contains('{')) {
          return None;
        }
        if !" \t\n\r".contains(c) {
          return None;
        }
      } else {
        if c == '[' {
          in_class = true;
        }
        out.push(c);
      }
      i += 1;
    }
    Some(out)
  }

  pub fn parse(pattern: &str, flags: Flags) -> Parsed {
    let text = if flags.x {
      match strip_x(pattern) {
        Some(t) => t,
        None => return Parsed::Unsupported,
      }
    } else {
      pattern.to_string()
    };
    let mut p = P { cs: text.chars().collect(), pos: 0, groups: 0 };
    match p.alt(0) {
      Ok(node) => {
        if p.pos != p.cs.len() {
          // a closing parenthesis without an opening one
          return Parsed::Invalid;
        }
        Parsed::Ok(node, p.groups)
      }
      Err(Stop::Invalid) => Parsed::Invalid,
      Err(Stop::Unsupported) => Parsed::Unsupported,
    }
  }

  /// can the node match the empty string?
  pub fn nullable(n: &Node) -> bool {
    match n {
      Node::Char(_) | Node::Any | Node::Class(..) => false,
      Node::Start | Node::End => true,
      Node::Group(inner, _) => nullable(inner),
      Node::Cat(v) => v.iter().all(nullable),
      Node::Alt(v) => v.iter().any(nullable),
      Node::Rep(inner, min, _, _) => *min == 0 || nullable(inner),
    }
  }

  /// a quantified part that can match the empty string: the iteration rules of the engines differ, no verdict
  pub fn has_nullable_iteration(n: &Node) -> bool {
    match n {
      Node::Group(inner, _) => has_nullable_iteration(inner),
      Node::Cat(v) | Node::Alt(v) => v.iter().any(has_nullable_iteration),
      Node::Rep(inner, _, _, _) => nullable(inner) || has_nullable_iteration(inner),
      _ => false,
    }
  }

  fn uses(n: &Node, what: &dyn Fn(&Node) -> bool) -> bool {
    what(n)
      || match n {
        Node::Group(inner, _) | Node::Rep(inner, ..) => uses(inner, what),
        Node::Cat(v) | Node::Alt(v) => v.iter().any(|x| uses(x, what)),
        _ => false,
      }
  }

  fn class_uses(n: &Node, e: char) -> bool {
    uses(n, &|x| matches!(x, Node::Class(_, items) if items.iter().any(|i| matches!(i, Item::Esc(c, _) if *c == e))))
  }

  /// The input (and the literal characters of the pattern) lie where XPath's definitions and Unicode's coincide
  /// for what the pattern uses: `\s` / `.` / the flag x: white space is one of space, tab, newline; `\w`: every
  /// character is a letter or a digit (a word character in both) or one of the punctuation and separator
  /// characters that are none in both; `\d`: digits are ASCII digits or letters; the flag i: no character has a
  /// case mapping outside ASCII.
  pub fn input_ok(n: &Node, flags: Flags, texts: &[&str]) -> bool {
    let all = |f: &dyn Fn(char) -> bool| texts.iter().all(|t| t.chars().all(|c| f(c)));
    if !all(&|c| !c.is_whitespace() || " \t\n".contains(c)) {
      return false;
    }
    if !all(&|c| c != '\r') {
      return false;
    }
    if class_uses(n, 'w') && !all(&|c| c.is_alphanumeric() && !c.is_numeric() || c.is_ascii_digit() || " \t\n,.;:!?-()[]{}\"'/\\".contains(c)) {
      return false;
    }
    if class_uses(n, 'd') && !all(&|c| !c.is_numeric() || c.is_ascii_digit()) {
      return false;
    }
    if flags.i && !all(&|c| c.is_ascii() || (c.to_lowercase().eq(std::iter::once(c)) && c.to_uppercase().eq(std::iter::once(c)))) {
      return false;
    }
    true
  }

  /// the literal characters of a pattern (for `input_ok`)
  pub fn literals(n: &Node, out: &mut String) {
    match n {
      Node::Char(c) => out.push(*c),
      Node::Class(_, items) => {
        for i in items {
          match i {
            Item::Ch(c) => out.push(*c),
            Item::Range(a, b) => {
              out.push(*a);
              out.push(*b);
            }
            Item::Esc(..) => {}
          }
        }
      }
      Node::Group(inner, _) | Node::Rep(inner, ..) => literals(inner, out),
      Node::Cat(v) | Node::Alt(v) => v.iter().for_each(|x| literals(x, out)),
      _ => {}
    }
  }

  type Caps = Vec<Option<(usize, usize)>>;

  pub struct Matcher<'a> {
    pub s: &'a [char],
    pub flags: Flags,
    pub steps: std::cell::Cell<u64>,
  }

  impl<'a> Matcher<'a> {
    fn same(&self, a: char, b: char) -> bool {
      if self.flags.i {
        a.to_ascii_lowercase() == b.to_ascii_lowercase()
      } else {
        a == b
      }
    }
    fn item(&self, i: &Item, c: char) -> bool {
      let one = |c: char| match i {
        Item::Ch(x) => *x == c,
        Item::Range(a, b) => *a <= c && c <= *b,
        Item::Esc('d', neg) => c.is_ascii_digit() != *neg,
        Item::Esc('s', neg) => " \t\n\r".contains(c) != *neg,
        Item::Esc(_, neg) => c.is_alphanumeric() != *neg,
      };
      if self.flags.i && !matches!(i, Item::Esc(..)) {
        one(c.to_ascii_lowercase()) || one(c.to_ascii_uppercase())
      } else {
        one(c)
      }
    }
    fn tick(&self) -> bool {
      self.steps.set(self.steps.get() + 1);
      self.steps.get() < 400_000
    }
    fn m(&self, n: &Node, i: usize, caps: &mut Caps, k: &mut dyn FnMut(usize, &mut Caps) -> bool) -> bool {
      if !self.tick() {
        return false;
      }
      let s = self.s;
      match n {
        Node::Char(c) => i < s.len() && self.same(s[i], *c) && k(i + 1, caps),
        Node::Any => i < s.len() && (self.flags.s || s[i] != '\n') && k(i + 1, caps),
        Node::Class(neg, items) => i < s.len() && (items.iter().any(|it| self.item(it, s[i])) != *neg) && k(i + 1, caps),
        Node::Start => (i == 0 || (self.flags.m && s[i - 1] == '\n')) && k(i, caps),
        Node::End => (i == s.len() || (self.flags.m && s[i] == '\n')) && k(i, caps),
        Node::Group(inner, None) => self.m(inner, i, caps, k),
        Node::Group(inner, Some(g)) => {
          let g = *g;
          let before = caps[g];
          let ok = self.m(inner, i, caps, &mut |j, caps| {
            let saved = caps[g];
            caps[g] = Some((i, j));
            if k(j, caps) {
              true
            } else {
              caps[g] = saved;
              false
            }
          });
          if !ok {
            caps[g] = before;
          }
          ok
        }
        Node::Cat(v) => self.cat(v, 0, i, caps, k),
        Node::Alt(v) => {
          for b in v {
            if self.m(b, i, caps, k) {
              return true;
            }
          }
          false
        }
        Node::Rep(inner, min, max, greedy) => self.rep(inner, *min, *max, *greedy, 0, i, caps, k),
      }
    }
    fn cat(&self, v: &[Node], idx: usize, i: usize, caps: &mut Caps, k: &mut dyn FnMut(usize, &mut Caps) -> bool) -> bool {
      if idx == v.len() {
        k(i, caps)
      } else {
        self.m(&v[idx], i, caps, &mut |j, caps| self.cat(v, idx + 1, j, caps, k))
      }
    }
    #[allow(clippy::too_many_arguments)]
    fn rep(&self, inner: &Node, min: usize, max: Option<usize>, greedy: bool, count: usize, i: usize, caps: &mut Caps, k: &mut dyn FnMut(usize, &mut Caps) -> bool) -> bool {
      let can_more = max.map_or(true, |m| count < m);
      if count < min {
        return self.m(inner, i, caps, &mut |j, caps| self.rep(inner, min, max, greedy, count + 1, j, caps, k));
      }
      if greedy {
        if can_more && self.m(inner, i, caps, &mut |j, caps| j != i && self.rep(inner, min, max, greedy, count + 1, j, caps, k)) {
          return true;
        }
        k(i, caps)
      } else {
        if k(i, caps) {
          return true;
        }
        can_more && self.m(inner, i, caps, &mut |j, caps| j != i && self.rep(inner, min, max, greedy, count + 1, j, caps, k))
      }
    }
    /// the leftmost match at or after `from`: (start, end, groups); `Err`: out of budget
    pub fn search(&self, root: &Node, groups: usize, from: usize) -> Result<Option<(usize, usize, Caps)>, ()> {
      for start in from..=self.s.len() {
        let mut caps: Caps = vec![None; groups + 1];
        let mut end = None;
        let mut found_caps: Caps = vec![];
        let ok = self.m(root, start, &mut caps, &mut |j, caps| {
          end = Some(j);
          found_caps = caps.clone();
          true
        });
        if self.steps.get() >= 400_000 {
          return Err(());
        }
        if ok {
          return Ok(Some((start, end.unwrap(), found_caps)));
        }
      }
      Ok(None)
    }
  }

  /// the replacement string of `replace`: literal text and `$N` (one digit); `None`: anything else with `$` or `\`
  pub enum Piece {
    Text(String),
    Group(usize),
  }

  pub fn replacement(r: &str) -> Option<Vec<Piece>> {
    let cs: Vec<char> = r.chars().collect();
    let mut out = vec![];
    let mut cur = String::new();
    let mut i = 0;
    while i < cs.len() {
      match cs[i] {
        '\\' => return None,
        '$' => {
          let d = *cs.get(i + 1)?;
          if !d.is_ascii_digit() {
            return None;
          }
          // more digits: the notations differ (`$0` followed by a letter is the whole match and the letter)
          if let Some(n) = cs.get(i + 2) {
            if n.is_ascii_digit() {
              return None;
            }
          }
          if !cur.is_empty() {
            out.push(Piece::Text(std::mem::take(&mut cur)));
          }
          out.push(Piece::Group(d as usize - '0' as usize));
          i += 2;
        }
        c => {
          cur.push(c);
          i += 1;
        }
      }
    }
    if !cur.is_empty() {
      out.push(Piece::Text(cur));
    }
    Some(out)
  }

  pub enum Verdict {
    /// the text is no regular expression
    Invalid,
    Matches(bool),
    Replaced(String),
    Pieces(Vec<String>),
    /// the pattern matches the empty string (an error for replace and split)
    MatchesEmpty,
  }

  /// What `matches` (`what` = 'm'), `replace` ('r') or `split` ('s') is specified to return, where this module knows it.
  pub fn verdict(what: char, input: &str, pattern: &str, flag_letters: &str, repl: &str) -> Option<Verdict> {
    let flags = Flags::of(flag_letters);
    let (root, groups) = match parse(pattern, flags) {
      Parsed::Ok(n, g) => (n, g),
      Parsed::Invalid => return Some(Verdict::Invalid),
      Parsed::Unsupported => return None,
    };
    if has_nullable_iteration(&root) {
      return None;
    }
    let mut lits = String::new();
    literals(&root, &mut lits);
    if !input_ok(&root, flags, &[input, &lits]) {
      return None;
    }
    let s: Vec<char> = input.chars().collect();
    let mt = Matcher { s: &s, flags, steps: std::cell::Cell::new(0) };
    if what == 'm' {
      return Some(Verdict::Matches(mt.search(&root, groups, 0).ok()?.is_some()));
    }
    if nullable(&root) {
      return Some(Verdict::MatchesEmpty);
    }
    let pieces = if what == 'r' { Some(replacement(repl)?) } else { None };
    let mut out_r = String::new();
    let mut out_s: Vec<String> = vec![];
    let mut pos = 0;
    loop {
      match mt.search(&root, groups, pos).ok()? {
        None => break,
        Some((a, b, caps)) => {
          if b == a {
            return None;
          }
          let between: String = s[pos..a].iter().collect();
          if let Some(ps) = &pieces {
            out_r.push_str(&between);
            for p in ps {
              match p {
                Piece::Text(t) => out_r.push_str(t),
                Piece::Group(0) => out_r.extend(s[a..b].iter()),
                Piece::Group(g) => {
                  if let Some(Some((x, y))) = caps.get(*g) {
                    out_r.extend(s[*x..*y].iter());
                  }
                }
              }
            }
          } else {
            out_s.push(between);
          }
          pos = b;
        }
      }
    }
    let rest: String = s[pos..].iter().collect();
    if pieces.is_some() {
      out_r.push_str(&rest);
      Some(Verdict::Replaced(out_r))
    } else {
      out_s.push(rest);
      Some(Verdict::Pieces(out_s))
    }
  }
}
