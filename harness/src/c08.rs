//! C08 — built-in functions return their specified value for all arguments; named = positional.
//! Also the built-in part of C05(a): no built-in panics (every call runs under `guarded`).
//!
//! Implementation: `parse + evaluate` of the FEEL texts `f(a1, …)` and `f(p1: a1, …)`.
//! Model: `(c08 call checked <name> positional|named …)` — the regenerated dispatch tables
//! interpreted over `Dmn.Bif.core_*`.  Specification: `(c08 spec <name> …)` — `Dmn.Spec.apply`.
//!
//! Compared: implementation = model (ImplVsModel, exact representation, panics included),
//! implementation = specification (ImplVsSpec, numbers by value), named = positional on the
//! implementation alone (ImplVsSpec), no panic (ImplVsSpec `panic in <bif>`).

use crate::model::Model;
use crate::report::{Kind, Report};
use crate::rng::Rng;
use crate::sexp::Sexp;
use crate::util::guarded;
use crate::vals::value_sexp;
use crate::Cfg;
use dmntk_feel::values::Value;
use dmntk_feel::Scope;
use serde_json::json;
use std::collections::HashMap;

/// parameter names of the specification (mirrors `Dmn.Spec.signatures` for the functions of C08)
fn signature(bif: &str) -> Option<(Vec<&'static str>, usize)> {
  Some(match bif {
    "substring" => (vec!["string", "start position", "length"], 2),
    "string length" => (vec!["string"], 1),
    "substring before" | "substring after" | "contains" | "starts with" | "ends with" => (vec!["string", "match"], 2),
    "replace" => (vec!["input", "pattern", "replacement", "flags"], 3),
    "matches" => (vec!["input", "pattern", "flags"], 2),
    "split" => (vec!["string", "delimiter"], 2),
    "list contains" => (vec!["list", "element"], 2),
    "count" | "min" | "max" | "sum" | "mean" | "all" | "any" | "reverse" | "distinct values" | "flatten" | "median" | "stddev" | "mode" => (vec!["list"], 1),
    "sublist" => (vec!["list", "start position", "length"], 2),
    "insert before" => (vec!["list", "position", "newItem"], 3),
    "remove" => (vec!["list", "position"], 2),
    "index of" => (vec!["list", "match"], 2),
    "sort" => (vec!["list", "precedes"], 2),
    "get value" => (vec!["m", "key"], 2),
    "get entries" => (vec!["m"], 1),
    "not" => (vec!["negand"], 1),
    "number" => (vec!["from", "grouping separator", "decimal separator"], 3),
    "string" => (vec!["from"], 1),
    _ => return None,
  })
}

pub const BIFS: &[&str] = &[
  "substring", "string length", "contains", "starts with", "ends with", "substring before", "substring after", "matches", "replace", "split",
  "count", "min", "max", "sum", "mean", "median", "mode", "stddev", "all", "any", "sublist", "append", "concatenate", "insert before", "remove",
  "reverse", "index of", "union", "distinct values", "flatten", "sort", "list contains", "get value", "get entries", "not", "number", "string",
];

#[derive(Clone)]
struct Call {
  bif: &'static str,
  args: Vec<String>,
  family: &'static str,
}

fn lit_str(s: &str) -> String {
  let mut out = String::from("\"");
  for c in s.chars() {
    match c {
      '"' => out.push_str("\\\""),
      '\\' => out.push_str("\\\\"),
      c => out.push(c),
    }
  }
  out.push('"');
  out
}

const CHARS: &[char] = &['a', 'b', 'c', 'A', ' ', 'é', 'ß', '日', '\u{FB03}', '🙏', '🐎', '𝄞', '"', '1', '.', ','];

fn rand_string(rng: &mut Rng, max: u64) -> String {
  let len = rng.below(max + 1);
  (0..len).map(|_| *rng.pick(CHARS)).collect()
}

fn fixed_strings() -> Vec<String> {
  ["", "a", "ab", "abc", "foobar", "a🙏c", "é日🙏", " x ", "🙏🙏", "🙏a🐎b𝄞c日é", "aaa", "abab", "a\"b", "日本語テキスト", "ab🙏ab🙏"].iter().map(|s| s.to_string()).collect()
}

/// scalar literals used as list items / wrong-type arguments
fn scalar_pool() -> Vec<&'static str> {
  vec!["null", "true", "false", "0", "1", "2", "3", "-1", "1.0", "1.5", "2.50", "10", "\"a\"", "\"b\"", "\"\"", "\"🙏\"", "\"é\""]
}

fn rand_item(rng: &mut Rng, depth: u32) -> String {
  let k = rng.below(if depth == 0 { 17 } else { 22 });
  match k {
    0..=16 => scalar_pool()[k as usize].to_string(),
    17 | 18 | 19 => rand_list(rng, 3, depth - 1),
    20 => format!("{{a: {}}}", rand_item(rng, depth - 1)),
    _ => format!("{{a: {}, b: {}}}", rand_item(rng, depth - 1), rand_item(rng, depth - 1)),
  }
}

fn rand_list(rng: &mut Rng, max: u64, depth: u32) -> String {
  let len = rng.below(max + 1);
  let mut items: Vec<String> = vec![];
  for _ in 0..len {
    if !items.is_empty() && rng.chance(1, 4) {
      // a duplicate
      let d = rng.pick(&items).clone();
      items.push(d);
    } else {
      items.push(rand_item(rng, depth));
    }
  }
  format!("[{}]", items.join(", "))
}

fn list_of_len(rng: &mut Rng, len: usize) -> String {
  let mut items: Vec<String> = vec![];
  for _ in 0..len {
    if !items.is_empty() && rng.chance(1, 4) {
      let d = rng.pick(&items).clone();
      items.push(d);
    } else {
      items.push(rand_item(rng, 1));
    }
  }
  format!("[{}]", items.join(", "))
}

/// every position / length from -(n+2) to n+2, non-integers, integers written with a fraction, bounds of usize / isize
fn positions(n: usize) -> Vec<String> {
  let n = n as i64;
  let mut v: Vec<String> = (-(n + 2)..=(n + 2)).map(|i| i.to_string()).collect();
  for s in ["1.5", "0.5", "-1.5", "2.0", "1.0", "-1.0", "-0", "0.0", "1.00"] {
    v.push(s.to_string());
  }
  v
}

fn extreme_numbers() -> Vec<&'static str> {
  vec![
    "18446744073709551615",
    "18446744073709551616",
    "18446744073709551614",
    "9223372036854775807",
    "9223372036854775808",
    "-9223372036854775808",
    "-9223372036854775809",
    "-18446744073709551615",
    "1000000000000000000000000000000",
    "-1000000000000000000000000000000",
    "0.000000001",
  ]
}

fn generate(rng: &mut Rng, thorough: bool) -> Vec<Call> {
  let mut calls: Vec<Call> = vec![];
  let mut add = |bif: &'static str, args: Vec<String>, family: &'static str| calls.push(Call { bif, args, family });
  let scale = if thorough { 6 } else { 1 };

  // ---------------------------------------------------------------- substring: all positions × lengths
  let mut strings = fixed_strings();
  for _ in 0..(6 * scale) {
    strings.push(rand_string(rng, 8));
  }
  for s in &strings {
    let n = s.chars().count();
    if n > 8 {
      continue;
    }
    let ps = positions(n);
    for p in &ps {
      add("substring", vec![lit_str(s), p.clone()], "substring2");
      add("substring", vec![lit_str(s), p.clone(), "null".into()], "substring3null");
      for l in &ps {
        // the full grid for short strings, a sample for longer ones
        if n <= 3 || rng.chance(1, 4) {
          add("substring", vec![lit_str(s), p.clone(), l.clone()], "substring3");
        }
      }
    }
    for x in extreme_numbers() {
      add("substring", vec![lit_str(s), x.into()], "substring-extreme");
      add("substring", vec![lit_str(s), "1".into(), x.into()], "substring-extreme");
      add("substring", vec![lit_str(s), "2".into(), x.into()], "substring-extreme");
      add("substring", vec![lit_str(s), "-1".into(), x.into()], "substring-extreme");
      add("substring", vec![lit_str(s), x.into(), x.into()], "substring-extreme");
    }
    add("string length", vec![lit_str(s)], "string length");
  }

  // ---------------------------------------------------------------- two-string functions
  for s in &strings {
    let cs: Vec<char> = s.chars().collect();
    let mut ms: Vec<String> = vec!["".into(), s.clone(), format!("{}x", s), "zz".into(), "🙏".into()];
    for _ in 0..4 {
      if !cs.is_empty() {
        let a = rng.below(cs.len() as u64) as usize;
        let b = a + rng.below((cs.len() - a) as u64 + 1) as usize;
        ms.push(cs[a..b].iter().collect());
      }
    }
    for m in &ms {
      for f in ["contains", "starts with", "ends with", "substring before", "substring after"] {
        add(f, vec![lit_str(s), lit_str(m)], "string-pair");
      }
      // literal patterns only (the model and the specification cover nothing else)
      add("matches", vec![lit_str(s), lit_str(m)], "regex-literal");
      add("split", vec![lit_str(s), lit_str(m)], "regex-literal");
      for r in ["", "X", "xy", "$1", "[$0]", "$$", "$12a", "$a", " "] {
        add("replace", vec![lit_str(s), lit_str(m), lit_str(r)], "regex-literal");
      }
      for fl in ["\"\"", "\"q\"", "\"i\"", "\"sm\"", "\"qi\"", "\"qx\"", "null"] {
        add("replace", vec![lit_str(s), lit_str(m), lit_str("X"), fl.into()], "regex-flags");
      }
      // the same pattern text with and without the flag that changes its meaning, one after the other
      // (an evaluation must not depend on what was evaluated before it)
      let swapped: String = m.chars().map(|c| if c.is_ascii_lowercase() { c.to_ascii_uppercase() } else if c.is_ascii_uppercase() { c.to_ascii_lowercase() } else { c }).collect();
      if &swapped != m {
        add("matches", vec![lit_str(s), lit_str(&swapped)], "regex-flag-sequence");
        add("matches", vec![lit_str(s), lit_str(&swapped), "\"i\"".into()], "regex-flag-sequence");
        add("matches", vec![lit_str(s), lit_str(&swapped)], "regex-flag-sequence");
        add("replace", vec![lit_str(s), lit_str(&swapped), lit_str("X"), "\"i\"".into()], "regex-flag-sequence");
        add("replace", vec![lit_str(s), lit_str(&swapped), lit_str("X")], "regex-flag-sequence");
        add("split", vec![lit_str(s), lit_str(&swapped)], "regex-flag-sequence");
      }
    }
  }

  // ---------------------------------------------------------------- positions in lists
  let mut lists: Vec<String> = vec![];
  for len in 0..=8usize {
    for _ in 0..(2 * scale) {
      lists.push(list_of_len(rng, len));
    }
  }
  for l in &lists {
    let n = l.matches(',').count(); // upper bound good enough for the grid; exact length below
    let _ = n;
  }
  let scope = Scope::default();
  for l in &lists {
    let n = match crate::c09::eval_text(&scope, l) {
      Value::List(v) => v.as_vec().len(),
      _ => continue,
    };
    let ps = positions(n);
    for p in &ps {
      add("sublist", vec![l.clone(), p.clone()], "sublist2");
      // an explicit null for the optional length (positional and named)
      add("sublist", vec![l.clone(), p.clone(), "null".into()], "sublist3null");
      add("remove", vec![l.clone(), p.clone()], "remove");
      add("insert before", vec![l.clone(), p.clone(), rand_item(rng, 1)], "insert before");
      for k in &ps {
        if n <= 3 || rng.chance(1, 5) {
          add("sublist", vec![l.clone(), p.clone(), k.clone()], "sublist3");
        }
      }
    }
    for x in extreme_numbers() {
      add("sublist", vec![l.clone(), x.into()], "list-extreme");
      add("sublist", vec![l.clone(), "1".into(), x.into()], "list-extreme");
      add("sublist", vec![l.clone(), "2".into(), x.into()], "list-extreme");
      add("sublist", vec![l.clone(), "-1".into(), x.into()], "list-extreme");
      add("sublist", vec![l.clone(), x.into(), "1".into()], "list-extreme");
      add("remove", vec![l.clone(), x.into()], "list-extreme");
      add("insert before", vec![l.clone(), x.into(), "0".into()], "list-extreme");
    }
    for f in ["count", "reverse", "distinct values", "flatten"] {
      add(f, vec![l.clone()], "list-unary");
    }
    for _ in 0..3 {
      let e = rand_item(rng, 1);
      add("index of", vec![l.clone(), e.clone()], "list-element");
      add("list contains", vec![l.clone(), e], "list-element");
    }
    add("append", vec![l.clone(), rand_item(rng, 1)], "append");
    add("append", vec![l.clone(), rand_item(rng, 1), rand_item(rng, 1)], "append");
    let other = rng.pick(&lists).clone();
    add("concatenate", vec![l.clone(), other.clone()], "concatenate");
    add("union", vec![l.clone(), other.clone()], "union");
    add("union", vec![l.clone(), other, rand_list(rng, 3, 1)], "union");
    add("concatenate", vec![l.clone()], "concatenate");
    add("sort", vec![l.clone(), "function(x,y) x < y".into()], "sort");
  }
  // items taken from the list itself
  for l in ["[1, 2, 1.0, \"a\", null, [1], [1.0], {a: 1}]", "[null, null]", "[[1, 2], [1, 2.0], [2, 1]]", "[{a: 1}, {a: 1.0}, {b: 1}]"] {
    for e in ["1", "1.0", "2", "\"a\"", "null", "[1]", "[1.00]", "{a: 1}", "{a: 1.0}", "[1, 2]", "true"] {
      add("index of", vec![l.into(), e.into()], "list-element");
      add("list contains", vec![l.into(), e.into()], "list-element");
    }
    add("distinct values", vec![l.into()], "list-unary");
    add("union", vec![l.into(), l.into()], "union");
  }
  // nulls that were computed (they carry a trace message) beside literal nulls: all are the one value null
  for l in ["[1, 1/0, 3, null]", "[null, 1/0]", "[1/0, number(\"x\", \",\", \".\"), null, 2]", "[[1/0], [null]]", "[{a: 1/0}, {a: null}]"] {
    for e in ["null", "1/0", "3", "[null]", "[1/0]", "{a: null}", "{a: 1/0}"] {
      add("index of", vec![l.into(), e.into()], "list-computed-null");
      add("list contains", vec![l.into(), e.into()], "list-computed-null");
      add("append", vec![l.into(), e.into()], "list-computed-null");
    }
    add("distinct values", vec![l.into()], "list-computed-null");
    add("union", vec![l.into(), "[1/0, 2, null]".into()], "list-computed-null");
    add("union", vec!["[null]".into(), l.into()], "list-computed-null");
    add("count", vec![l.into()], "list-computed-null");
  }
  // zeros of every spelling, among them zeros that were computed (and carry a sign): all are the one value 0
  for l in ["[0, 1, 0.0]", "[0 * -1, 1]", "[-0, 0.00, 0 / -3, 2]", "[[0], [-1 * 0]]", "[{a: 0}, {a: 0 * -1}]", "[1, 2]"] {
    for e in ["0", "0 * -1", "-1 * 0", "0 / -3", "0.0", "-0", "[0]", "[0 * -1]", "{a: -1 * 0}"] {
      add("index of", vec![l.into(), e.into()], "list-computed-zero");
      add("list contains", vec![l.into(), e.into()], "list-computed-zero");
    }
    add("distinct values", vec![l.into()], "list-computed-zero");
    add("union", vec![l.into(), "[0 * -1, 0, -0.0]".into()], "list-computed-zero");
    add("mode", vec![l.into()], "list-computed-zero");
  }
  add("mode", vec!["[0, 0 * -1, 1, 1]".into()], "list-computed-zero");
  add("mode", vec!["[0 / -3, 0, 0.0, 1, 1]".into()], "list-computed-zero");
  add("min", vec!["[0 * -1, 0]".into()], "list-computed-zero");
  add("max", vec!["[0, 0 * -1]".into()], "list-computed-zero");
  add("flatten", vec!["[[1, [2, [3, [4, []]]]], 5, [[]], [[6]]]".into()], "list-unary");
  add("sort", vec!["[3, 1, 2, 1.0, 3.0]".into(), "function(x,y) x < y".into()], "sort");
  add("sort", vec!["[3, 1, 2]".into(), "function(x,y) x > y".into()], "sort");
  add("sort", vec!["[\"b\", \"a\", \"c\"]".into(), "function(a,b) a < b".into()], "sort");
  add("sort", vec!["[3, 1, 2]".into(), "function(x) x".into()], "sort");
  add("sort", vec!["[3, 1, 2]".into(), "1".into()], "sort");
  // sort with ordering functions that are and are not total orders, on lists long enough for a library sort to notice
  for _ in 0..(if thorough { 600 } else { 60 }) {
    let n = rng.below(45) as usize;
    let items: Vec<String> = (0..n)
      .map(|_| match rng.below(12) {
        0 => "null".to_string(),
        1 => format!("\"{}\"", rng.pick(&["a", "b", "ab", ""])),
        2 => format!("{}.0", rng.below(6)),
        _ => format!("{}", rng.below(12)),
      })
      .collect();
    let f = *rng.pick(&["function(x,y) x < y", "function(x,y) x > y", "function(x,y) x <= y", "function(x,y) x != y", "function(x,y) x = y", "function(x,y) true", "function(x,y) false"]);
    add("sort", vec![format!("[{}]", items.join(", ")), f.into()], "sort-ordering");
  }

  // ---------------------------------------------------------------- three-valued all / any: every list over {true,false,null,1} up to length 3
  let tv = ["true", "false", "null", "1"];
  let mut tuples: Vec<Vec<&str>> = vec![vec![]];
  let mut frontier: Vec<Vec<&str>> = vec![vec![]];
  for _ in 0..3 {
    let mut next = vec![];
    for t in &frontier {
      for x in tv {
        let mut u = t.clone();
        u.push(x);
        next.push(u);
      }
    }
    tuples.extend(next.iter().cloned());
    frontier = next;
  }
  for t in &tuples {
    for f in ["all", "any"] {
      add(f, vec![format!("[{}]", t.join(", "))], "three-valued");
      if !t.is_empty() {
        add(f, t.iter().map(|s| s.to_string()).collect(), "three-valued-varargs");
      }
    }
  }
  for f in ["all", "any"] {
    for x in ["true", "false", "null", "1", "\"a\"", "[[true]]"] {
      add(f, vec![x.into()], "three-valued");
    }
  }

  // ---------------------------------------------------------------- aggregates
  let nums = ["0", "1", "2", "3", "6", "-1", "-2.5", "1.0", "1.5", "2.50", "10", "100", "0.25", "7", "-0", "4"];
  for _ in 0..(60 * scale) {
    let len = rng.below(9);
    let mut items: Vec<String> = (0..len).map(|_| rng.pick(&nums).to_string()).collect();
    if rng.chance(1, 6) && !items.is_empty() {
      let i = rng.below(items.len() as u64) as usize;
      items[i] = rng.pick(&["null", "true", "\"a\"", "[1]"]).to_string();
    }
    let l = format!("[{}]", items.join(", "));
    for f in ["min", "max", "sum", "mean", "median", "mode", "stddev", "count"] {
      add(f, vec![l.clone()], "aggregate");
      if !items.is_empty() && f != "count" {
        add(f, items.clone(), "aggregate-varargs");
      }
    }
  }
  // operands whose exact sum / quotient needs more than 34 digits (the model rounds half-even as decimal128 does)
  let wide = ["9999999999999999999999999999999999", "1234567890123456789012345678901234", "0.0000000000000000000000000000000001", "5", "0.5", "3", "7", "1E+10", "-9999999999999999999999999999999999", "0.1234567890123456789012345678901234"];
  for _ in 0..(25 * scale) {
    let len = 1 + rng.below(5);
    let items: Vec<String> = (0..len).map(|_| rng.pick(&wide).to_string()).filter(|x| !x.contains('E')).collect();
    if items.is_empty() {
      continue;
    }
    let l = format!("[{}]", items.join(", "));
    // not stddev: decNumber's power(x, 2) is not the correctly rounded product for 34-digit operands
    for f in ["sum", "mean", "median", "min", "max", "mode"] {
      add(f, vec![l.clone()], "aggregate-wide");
    }
  }
  for _ in 0..(15 * scale) {
    let len = rng.below(6);
    let mut items: Vec<String> = (0..len).map(|_| lit_str(&rand_string(rng, 3))).collect();
    if rng.chance(1, 5) && !items.is_empty() {
      let i = rng.below(items.len() as u64) as usize;
      items[i] = rng.pick(&["null", "1"]).to_string();
    }
    let l = format!("[{}]", items.join(", "));
    for f in ["min", "max", "sum", "mean"] {
      add(f, vec![l.clone()], "aggregate-strings");
    }
  }
  for l in ["[1, null, 3]", "[null, 1]", "[1, 3, null]", "[\"a\", null, \"b\"]", "[null]", "[1, \"a\"]", "[[1, 2]]", "[1, 2, 6]"] {
    for f in ["min", "max", "sum", "mean", "median", "mode", "stddev"] {
      add(f, vec![l.into()], "aggregate");
    }
  }

  // ---------------------------------------------------------------- contexts, not, number, string
  let ctxs = ["{}", "{a: 1}", "{a: 1, b: \"x\"}", "{b: 2, a: 1}", "{a: null}", "{a: {b: [1, 2]}}", "{\"a b\": 1, c: [true]}"];
  for c in ctxs {
    add("get entries", vec![c.into()], "context");
    for k in ["\"a\"", "\"b\"", "\"c\"", "\"a b\"", "\" a \"", "\"\"", "1", "null", "\"A\""] {
      add("get value", vec![c.into(), k.into()], "context");
    }
    add("string", vec![c.into()], "string");
  }
  for x in ["true", "false", "null", "1", "\"true\"", "[true]"] {
    add("not", vec![x.into()], "not");
  }
  let texts = ["1", "12", "1.5", "-1.5", "1 000", "1,000.50", "1.000,50", "1 000 000,25", "", " 1", "1e3", "+5", "5.", ".5", "abc", "1,5", "1.5.5", "-", "Infinity", "NaN", "١٢", "1_000", "00012", "0.10", "12345678901234567890123456789012345", "-0"];
  let seps = ["null", "\" \"", "\".\"", "\",\"", "\";\"", "\"\"", "1"];
  for t in texts {
    for g in seps {
      for d in ["null", "\".\"", "\",\"", "\" \"", "1"] {
        add("number", vec![lit_str(t), g.into(), d.into()], "number");
      }
    }
  }
  add("number", vec!["1".into(), "null".into(), "null".into()], "number");
  for x in ["null", "\"a\"", "\"a\\\"b\"", "true", "false", "1", "-12", "100", "[]", "[1, \"a\", true, null]", "[\"a\\\"b\"]", "[[1], [\"x\", [null]]]", "{a: \"x\\\"y\", b: [\"q\"]}", "[{a: 1}]", "{}"] {
    add("string", vec![x.into()], "string");
  }

  // ---------------------------------------------------------------- every arity 0..5 with arbitrary arguments
  for bif in BIFS {
    for arity in 0..=5usize {
      for _ in 0..(3 * scale) {
        let args: Vec<String> = (0..arity)
          .map(|_| match rng.below(6) {
            0 => rand_list(rng, 4, 1),
            1 => lit_str(&rand_string(rng, 4)),
            2 => rng.pick(&positions(3)).clone(),
            3 => "{a: 1}".to_string(),
            _ => rand_item(rng, 1),
          })
          .collect();
        add(bif, args, "any-arity");
      }
    }
  }
  calls
}

/// numbers by value: `(n neg coeff exp)` without trailing zeros, every zero alike
fn canon(s: &Sexp) -> Sexp {
  match s {
    Sexp::List(xs) => {
      if xs.len() == 4 && xs[0].as_atom() == Some("n") {
        if let (Some(neg), Some(c), Some(e)) = (xs[1].as_atom(), xs[2].as_atom(), xs[3].as_atom()) {
          let mut digits = c.trim_start_matches('0').to_string();
          let mut exp: i64 = e.parse().unwrap_or(0);
          if digits.is_empty() {
            return Sexp::tagged("n", vec![Sexp::atom("0"), Sexp::atom("0"), Sexp::atom("0")]);
          }
          while digits.ends_with('0') {
            digits.pop();
            exp += 1;
          }
          return Sexp::tagged("n", vec![Sexp::atom(neg), Sexp::atom(digits), Sexp::int(exp)]);
        }
      }
      Sexp::List(xs.iter().map(canon).collect())
    }
    a => a.clone(),
  }
}

/// The shared encoding reads a number from its plain text, which cannot show a positive
/// exponent (`1E+3` prints as `1000`): a positive exponent is written out on both sides.
/// Everything else (fraction digits, trailing zeros after the point, the sign of zero) is
/// compared exactly.
fn plain_exp(s: &Sexp) -> Sexp {
  match s {
    Sexp::List(xs) => {
      if xs.len() == 4 && xs[0].as_atom() == Some("n") {
        if let (Some(neg), Some(c), Some(e)) = (xs[1].as_atom(), xs[2].as_atom(), xs[3].as_atom()) {
          let exp: i64 = e.parse().unwrap_or(0);
          if exp > 0 && exp < 7000 {
            let digits = if c == "0" { "0".to_string() } else { format!("{}{}", c, "0".repeat(exp as usize)) };
            return Sexp::tagged("n", vec![Sexp::atom(neg), Sexp::atom(digits), Sexp::atom("0")]);
          }
        }
      }
      Sexp::List(xs.iter().map(plain_exp).collect())
    }
    a => a.clone(),
  }
}

fn same_as_model(shown: &str, ans: &str) -> bool {
  if shown == ans {
    return true;
  }
  match (Sexp::parse(shown), Sexp::parse(ans)) {
    (Some(a), Some(b)) => plain_exp(&a) == plain_exp(&b),
    _ => false,
  }
}

fn decode_str(s: &Sexp) -> String {
  match s {
    Sexp::List(xs) => xs.iter().skip(1).filter_map(|x| x.as_atom().and_then(|a| a.parse::<u32>().ok()).and_then(char::from_u32)).collect(),
    _ => String::new(),
  }
}

enum Impl {
  Val(Value),
  Panic(String),
}

fn run_impl(scope: &Scope, text: &str) -> Impl {
  crate::util::note_case(text);
  match guarded(|| crate::c09::eval_text(scope, text)) {
    Ok(v) => Impl::Val(v),
    Err(m) => Impl::Panic(m),
  }
}

fn show_impl(i: &Impl) -> String {
  match i {
    Impl::Val(v) => match value_sexp(v) {
      Some(s) => format!("(ok {})", s),
      None => format!("(unencodable {})", v),
    },
    Impl::Panic(m) => format!("(panic {})", m),
  }
}

/// has a numeric argument an integer value written with fraction digits (`2.0`)?
fn has_fractional_integer(args: &[String]) -> bool {
  args.iter().any(|a| {
    let t = a.trim_start_matches('-');
    match t.split_once('.') {
      Some((i, f)) => !i.is_empty() && i.chars().all(|c| c.is_ascii_digit()) && !f.is_empty() && f.chars().all(|c| c == '0'),
      None => false,
    }
  })
}

/// A stable, specific name for the way an implementation answer misses the specification.
fn classify(call: &Call, imp: &Impl, spec: &Sexp) -> String {
  let bif = call.bif;
  if let Impl::Panic(_) = imp {
    return format!("panic in {}", bif);
  }
  let impl_null = matches!(imp, Impl::Val(Value::Null(_)));
  match bif {
    "substring" | "sublist" | "insert before" | "remove" if impl_null && has_fractional_integer(&call.args) => {
      format!("{}: integer-valued number written with fraction digits is rejected", bif)
    }
    "all" | "any" => format!("{}: result depends on the order of null / non-boolean items", bif),
    "max" if call.args.iter().any(|a| a.contains("null")) => "max: null items after the first are skipped".to_string(),
    "replace" => {
      if let (Impl::Val(Value::String(s)), Some(_)) = (imp, spec.as_list()) {
        if decode_str(spec).trim() == s.as_str() {
          return "replace: the result is trimmed".to_string();
        }
      }
      "replace deviates from its specification".to_string()
    }
    "get value" if call.args.len() == 2 && call.args[1].contains(' ') => "get value: the key is trimmed".to_string(),
    "number" if !impl_null && spec.as_atom() == Some("null") => "number: text that is not a FEEL numeric literal is accepted".to_string(),
    _ => format!("{} deviates from its specification", bif),
  }
}

fn input_of(call: &Call, text: &str) -> String {
  let mut v = vec![call.bif.to_string()];
  v.extend(call.args.iter().cloned());
  format!("{} ;; {}", text, serde_json::to_string(&v).unwrap())
}

/// Regular-expression built-ins with a literal pattern, with and without the flag `i`, in sequences: the value of
/// a call is that of the literal-pattern semantics whatever was evaluated before it (expectations computed here,
/// on ASCII letters and digits only). Shared with C13 (evaluation is pure).
pub fn regex_sequences(rep: &mut Report, rng: &mut Rng, n_seq: usize) {
  let scope = Scope::default();
  let words = ["FooBar", "foobar", "FOOBAR", "abcABC", "xYz", "b", "B", "oo", "OO", "Ab", "aB", "Zz9"];
  for _ in 0..n_seq {
    let input = (*rng.pick(&words)).to_string();
    let pattern = {
      let w: Vec<char> = rng.pick(&words).chars().collect();
      let a = rng.below(w.len() as u64) as usize;
      let b = a + 1 + rng.below((w.len() - a) as u64) as usize;
      w[a..b.min(w.len())].iter().collect::<String>()
    };
    // one pattern text, several calls in a random order
    let mut seq: Vec<(String, String)> = vec![];
    for _ in 0..(2 + rng.below(4)) {
      let ci = rng.chance(1, 2);
      let hit = if ci { input.to_lowercase().contains(&pattern.to_lowercase()) } else { input.contains(&pattern) };
      match rng.below(3) {
        0 => seq.push((
          format!("matches(\"{}\", \"{}\"{})", input, pattern, if ci { ", \"i\"" } else { "" }),
          hit.to_string(),
        )),
        1 => {
          let expect = if ci {
            // replace every occurrence, letter case ignored
            let (li, lp) = (input.to_lowercase(), pattern.to_lowercase());
            let mut out = String::new();
            let mut i = 0;
            while i < input.len() {
              if li[i..].starts_with(&lp) {
                out.push('#');
                i += lp.len();
              } else {
                out.push_str(&input[i..i + 1]);
                i += 1;
              }
            }
            out
          } else {
            input.replace(&pattern, "#")
          };
          seq.push((
            format!("replace(\"{}\", \"{}\", \"#\"{})", input, pattern, if ci { ", \"i\"" } else { "" }),
            format!("\"{}\"", expect),
          ));
        }
        _ => {
          let parts: Vec<String> = input.split(pattern.as_str()).map(|x| format!("\"{}\"", x)).collect();
          seq.push((format!("split(\"{}\", \"{}\")", input, pattern), format!("[{}]", parts.join(", "))));
        }
      }
    }
    for (k, (text, want)) in seq.iter().enumerate() {
      rep.case(&format!("regex-sequence {} {}", k, text), true);
      rep.hit("family:regex-sequence");
      let got = match run_impl(&scope, text) {
        Impl::Val(v) => v.to_string(),
        Impl::Panic(m) => format!("panic {}", m),
      };
      if &got != want {
        let before: Vec<&str> = seq[..k].iter().map(|(t, _)| t.as_str()).collect();
        rep.disagree(
          Kind::ImplVsSpec,
          "regex-sequence",
          "matches / replace / split with a literal pattern differ from the literal-pattern semantics (possibly depending on what was evaluated before)",
          &format!("{}   after: {}", text, before.join(" ; ")),
          &got,
          want,
        );
      }
    }
  }
}

pub fn run(cfg: &Cfg) -> Report {
  let scope = Scope::default();
  if cfg.extra.iter().any(|x| x == "--probe") {
    use std::io::BufRead;
    for line in std::io::stdin().lock().lines() {
      let line = line.unwrap();
      println!("{}  =>  {}", line, show_impl(&run_impl(&scope, &line)));
    }
    std::process::exit(0);
  }
  let mut rep = Report::new(
    "C08",
    "FEEL invocations f(args) and f(name: arg, …) of the 37 built-ins of the property: substring over strings of 0..8 ASCII / BMP / supplementary characters with every position and length in -(n+2)..n+2, 0, non-integers, 2.0-style integers and usize/isize bounds; sublist / insert before / remove over lists of length 0..8 (duplicates, nested lists, nulls, contexts) with the same position grid; string pairs with the match taken from every cut of the input; all/any over every list of {true,false,null,1} up to length 3; aggregates over random number / string lists incl. the varargs form; number() over a text × separator grid; every built-in with every arity 0..5 and arbitrary arguments. Non-trivial: the implementation's positional answer is not null; distinct by request line.",
  );
  let mut model = Model::start(&cfg.driver);
  let mut rng = Rng::new(cfg.seed);
  let thorough = cfg.tier == "thorough";

  if cfg.replay.is_none() {
    regex_sequences(&mut rep, &mut rng, if thorough { 4000 } else { 300 });
  }

  let calls: Vec<Call> = if let Some(path) = &cfg.replay {
    // a replay file carries the call after " ;; " as a JSON array [bif, arg…]
    let text = std::fs::read_to_string(path).expect("replay file");
    let j: serde_json::Value = serde_json::from_str(&text).expect("replay json");
    let input = j["input"].as_str().unwrap_or("");
    let tail = input.split(" ;; ").nth(1).unwrap_or("[]");
    let v: Vec<String> = serde_json::from_str(tail).unwrap_or_default();
    match v.split_first() {
      Some((b, args)) => match BIFS.iter().find(|x| **x == b.as_str()) {
        Some(bif) => vec![Call { bif, args: args.to_vec(), family: "replay" }],
        None => vec![],
      },
      None => vec![],
    }
  } else {
    generate(&mut rng, thorough)
  };

  // the tables the driver was built from: which signatures differ
  let off = model.ask("(c08 offending)");
  rep.extra.insert("offending_signatures".into(), json!(off));

  // argument text -> S-expression of the value the implementation gives it
  let mut arg_cache: HashMap<String, Option<String>> = HashMap::new();
  let mut enc = |text: &str| -> Option<String> {
    if let Some(r) = arg_cache.get(text) {
      return r.clone();
    }
    let r = match guarded(|| crate::c09::eval_text(&scope, text)) {
      // an argument that does not evaluate (parse error …); `1/0` is a deliberate computed null
      Ok(Value::Null(Some(_))) if text != "1/0" => None,
      Ok(v) => value_sexp(&v).map(|s| s.to_string()),
      Err(_) => None,
    };
    arg_cache.insert(text.to_string(), r.clone());
    r
  };

  struct Done {
    call: Call,
    pos_text: String,
    pos: Impl,
    named_text: Option<String>,
    named: Option<Impl>,
    req_pos: Option<usize>,
    req_named: Option<usize>,
    req_spec: Option<usize>,
  }
  let mut done: Vec<Done> = vec![];
  let mut reqs: Vec<String> = vec![];
  for call in calls {
    let pos_text = format!("{}({})", call.bif, call.args.join(", "));
    let pos = run_impl(&scope, &pos_text);
    let encs: Option<Vec<String>> = call.args.iter().map(|a| enc(a)).collect();
    let name_sexp = Sexp::str(call.bif).to_string();
    let (mut req_pos, mut req_named, mut req_spec) = (None, None, None);
    let mut named_text = None;
    let mut named = None;
    let sig = signature(call.bif);
    let named_ok = match &sig {
      Some((names, required)) => call.args.len() >= *required && call.args.len() <= names.len(),
      None => false,
    };
    if named_ok {
      let (names, _) = sig.as_ref().unwrap();
      let parts: Vec<String> = names.iter().zip(call.args.iter()).map(|(n, a)| format!("{}: {}", n, a)).collect();
      let t = format!("{}({})", call.bif, parts.join(", "));
      named = Some(run_impl(&scope, &t));
      named_text = Some(t);
    }
    // `sort` with one of the fixed ordering functions: the model's merge sort on the named relation
    let sort_rel = if call.bif == "sort" && call.args.len() == 2 {
      match call.args[1].as_str() {
        "function(x,y) x < y" => Some("lt"),
        "function(x,y) x > y" => Some("gt"),
        "function(x,y) x <= y" => Some("le"),
        "function(x,y) x != y" => Some("ne"),
        "function(x,y) x = y" => Some("eq"),
        "function(x,y) true" => Some("true"),
        "function(x,y) false" => Some("false"),
        _ => None,
      }
    } else {
      None
    };
    if let Some(rel) = sort_rel {
      if let Some(l) = enc(&call.args[0]) {
        req_pos = Some(reqs.len());
        reqs.push(format!("(c08 sort {} {})", rel, l));
      }
    }
    if let Some(encs) = &encs {
      // other function values are not sent to the model
      if !call.args.iter().any(|a| a.starts_with("function")) {
        req_pos = Some(reqs.len());
        reqs.push(format!("(c08 call checked {} positional {})", name_sexp, encs.join(" ")));
        req_spec = Some(reqs.len());
        reqs.push(format!("(c08 spec {} {})", name_sexp, encs.join(" ")));
        if named_ok {
          let (names, _) = sig.as_ref().unwrap();
          let kvs: Vec<String> = names.iter().zip(encs.iter()).map(|(n, e)| format!("({} {})", Sexp::str(n), e)).collect();
          req_named = Some(reqs.len());
          reqs.push(format!("(c08 call checked {} named {})", name_sexp, kvs.join(" ")));
        }
      }
    }
    done.push(Done { call, pos_text, pos, named_text, named, req_pos, req_named, req_spec });
  }
  let answers = model.ask_batch(&reqs);

  let mut unmodelled = 0u64;
  let mut nospec = 0u64;
  for d in &done {
    let bif = d.call.bif;
    let nontrivial = matches!(&d.pos, Impl::Val(v) if !matches!(v, Value::Null(_)));
    rep.case(&d.pos_text, nontrivial);
    rep.hit(&format!("family:{}", d.call.family));
    rep.hit(&format!("bif:{}", bif));
    rep.hit(&format!("arity:{}", d.call.args.len()));
    rep.hit(match &d.pos {
      Impl::Val(Value::Null(_)) => "result:null",
      Impl::Val(_) => "result:value",
      Impl::Panic(_) => "result:panic",
    });
    let input = input_of(&d.call, &d.pos_text);
    let shown = show_impl(&d.pos);
    // ---- no panic (C05 a)
    if let Impl::Panic(m) = &d.pos {
      rep.disagree(Kind::ImplVsSpec, "no_panic", &format!("panic in {} ({})", bif, m), &input, &format!("panic: {}", m), "a value (null outside the domain)");
    }
    if let (Some(Impl::Panic(m)), Some(t)) = (&d.named, &d.named_text) {
      rep.disagree(Kind::ImplVsSpec, "no_panic", &format!("panic in {} ({})", bif, m), &input_of(&d.call, t), &format!("panic: {}", m), "a value (null outside the domain)");
    }
    // ---- implementation = model (positional)
    if let Some(i) = d.req_pos {
      let ans = &answers[i];
      if ans == "(unmodelled)" {
        unmodelled += 1;
        rep.hit(&format!("unmodelled:{}", bif));
      } else {
        let same = match &d.pos {
          Impl::Val(_) => same_as_model(&shown, ans),
          Impl::Panic(_) => ans.starts_with("(panic "),
        };
        rep.hit(if ans.starts_with("(panic ") { "model:panic" } else { "model:ok" });
        if !same {
          rep.disagree(Kind::ImplVsModel, "core", &format!("{} differs from the model (positional)", bif), &input, &shown, ans);
        }
        if rep.samples.len() < 10 && nontrivial && rep.samples.iter().all(|s| s["bif"] != json!(bif)) {
          rep.sample(json!({"bif": bif, "expression": d.pos_text, "request": reqs[i], "implementation": shown, "model": ans}));
        }
      }
    }
    // ---- implementation = model (named)
    if let (Some(i), Some(n), Some(t)) = (d.req_named, &d.named, &d.named_text) {
      let ans = &answers[i];
      if ans != "(unmodelled)" {
        let sn = show_impl(n);
        let same = match n {
          Impl::Val(_) => same_as_model(&sn, ans),
          Impl::Panic(_) => ans.starts_with("(panic "),
        };
        if !same {
          rep.disagree(Kind::ImplVsModel, "named", &format!("{} differs from the model (named)", bif), &input_of(&d.call, t), &sn, ans);
        }
      }
    }
    // ---- implementation = specification
    if let Some(i) = d.req_spec {
      let ans = &answers[i];
      if ans == "(nospec)" {
        nospec += 1;
      } else if let Some(Sexp::List(xs)) = Sexp::parse(ans) {
        if xs.len() == 2 && xs[0].as_atom() == Some("spec") {
          let want = canon(&xs[1]);
          let ok = match &d.pos {
            Impl::Val(v) => value_sexp(v).map(|s| canon(&s) == want).unwrap_or(false),
            Impl::Panic(_) => false,
          };
          rep.hit(if ok { "spec:agrees" } else { "spec:differs" });
          if !ok {
            if let Impl::Val(_) = &d.pos {
              rep.disagree(Kind::ImplVsSpec, "spec", &classify(&d.call, &d.pos, &xs[1]), &input, &shown, &format!("(ok {})", xs[1]));
            }
          }
        }
      }
    }
    // ---- named = positional on the implementation alone
    if let (Some(n), Some(t)) = (&d.named, &d.named_text) {
      let a = show_impl(&d.pos);
      let b = show_impl(n);
      rep.evaluations += 1;
      rep.hit("named:compared");
      if a != b {
        // a single argument that is not a list, given to a parameter declared as a list
        let single_item = d.call.args.len() == 1 && !d.call.args[0].starts_with('[') && signature(bif).map(|s| s.0 == vec!["list"]).unwrap_or(false);
        let sig = if single_item {
          format!("named invocation rejects a single item for the parameter list: {}", bif)
        } else {
          format!("named invocation differs from positional: {}", bif)
        };
        rep.disagree(
          Kind::ImplVsSpec,
          "named_eq_positional",
          &sig,
          &format!("{} vs {} ;; {}", d.pos_text, t, input.split(" ;; ").nth(1).unwrap_or("")),
          &format!("named {}", b),
          &format!("positional {}", a),
        );
      }
    }
  }
  // ---- named parameters may be written in any order
  if cfg.replay.is_none() {
    let mut seen_rev = 0u64;
    for d in &done {
      if let (Some(Impl::Val(nv)), Some((names, _))) = (&d.named, signature(d.call.bif)) {
        if d.call.args.len() >= 2 && d.call.args.len() <= names.len() && seen_rev < 4000 {
          seen_rev += 1;
          let mut parts: Vec<String> = names.iter().zip(d.call.args.iter()).map(|(n, a)| format!("{}: {}", n, a)).collect();
          parts.reverse();
          let t = format!("{}({})", d.call.bif, parts.join(", "));
          let r = run_impl(&scope, &t);
          rep.evaluations += 1;
          rep.hit("named:reversed-order");
          let same = match &r {
            Impl::Val(v) => value_sexp(v).map(|x| x.to_string()) == value_sexp(nv).map(|x| x.to_string()),
            Impl::Panic(_) => false,
          };
          if !same {
            rep.disagree(
              Kind::ImplVsSpec,
              "named_order",
              &format!("named invocation depends on the order of the parameters: {}", d.call.bif),
              &input_of(&d.call, &t),
              &show_impl(&r),
              &show_impl(&Impl::Val(nv.clone())),
            );
          }
        }
      }
    }
    // ---- expressions whose arguments are not literals: (expression, FEEL text of the specified value)
    let special: Vec<(&str, &str, &str)> = vec![
      ("string([not(1)])", "\"[null]\"", "string: the trace message of a null item is printed"),
      ("string({a: not(1)})", "\"{a: null}\"", "string: the trace message of a null item is printed"),
      ("string([1, null])", "\"[1, null]\"", "string: the trace message of a null item is printed"),
      ("string length(string(not(1)))", "null", "string deviates from its specification"),
      ("count(append([1], not(1)))", "2", "append deviates from its specification"),
      ("substring(\"foobar\", 8 - 5)", "\"obar\"", "substring deviates from its specification"),
      ("sublist([1, 2, 3], 4 - 2, 3 - 2)", "[2]", "sublist deviates from its specification"),
      // regression cases of repaired findings (always run)
      ("mean(list: [1, 2, 6])", "3", "named invocation differs from positional: mean"), // F2
      ("all(list: true)", "true", "named invocation rejects a single item for the parameter list: all"), // F2c
      ("sum(list: 1)", "1", "named invocation rejects a single item for the parameter list: sum"),
      ("mode(list: 2)", "[2]", "named invocation rejects a single item for the parameter list: mode"),
      ("sublist([1, 2, 3], -5, 1)", "null", "panic in sublist"), // F5
      ("sublist([1, 2, 3], 2, 18446744073709551615)", "null", "panic in sublist"), // F5b
      ("substring(\"abc\", 2, 18446744073709551615)", "null", "panic in substring"), // F20
      ("max([1, null, 3])", "null", "max: null items after the first are skipped"), // F22
      ("substring(\"abc\", 2.0)", "\"bc\"", "substring: integer-valued number written with fraction digits is rejected"), // F19
      ("sublist([1, 2, 3], 2.0, 1.00)", "[2]", "sublist: integer-valued number written with fraction digits is rejected"),
      ("insert before([1, 2], 1.0, 9)", "[9, 1, 2]", "insert before: integer-valued number written with fraction digits is rejected"),
      ("remove([1, 2], -1.0)", "[1]", "remove: integer-valued number written with fraction digits is rejected"),
      ("string({a: \"x\\\"y\", b: [null]})", "\"{a: \\\"x\\\\\\\"y\\\", b: [null]}\"", "string deviates from its specification"), // F26: entries are written like list items
    ];
    for (expr, want, sig) in special {
      let got = run_impl(&scope, expr);
      let exp = run_impl(&scope, want);
      rep.case(expr, true);
      rep.hit("family:special");
      let same = match (&got, &exp) {
        (Impl::Val(a), Impl::Val(b)) => value_sexp(a).map(|x| canon(&x)) == value_sexp(b).map(|x| canon(&x)),
        _ => false,
      };
      if !same {
        rep.disagree(Kind::ImplVsSpec, "special", sig, &format!("{} ;; []", expr), &show_impl(&got), &show_impl(&exp));
      }
    }
  }
  rep.extra.insert("unmodelled_calls".into(), json!(unmodelled));
  rep.extra.insert("calls_without_specification".into(), json!(nospec));
  rep.extra.insert("integer_mode_observed".into(), json!("checked (the harness build has overflow checks on)"));
  rep.model_requests = model.requests;
  rep
}
