//! C14 — temporal literals denote exactly what is written and print back losslessly.
//!
//! Implementation: `date("…")`, `time("…")`, `date and time("…")`, `duration("…")`, `@"…"` and
//! `string(v)` through parse + evaluate. Model: the recognisers, validators and printers of
//! `Dmn.Temporal` through the driver (`c14 lit`, `c14 print`). Specification: the harness writes
//! each valid value in its canonical lexical form itself (it knows the value it wrote) and
//! demands (1) that value back, (2) `string(v)` reading back as an equal value, (3) durations
//! printed in normal form, (4) null for the invalid classes the property names.

use crate::model::Model;
use crate::report::{Kind, Report};
use crate::rng::Rng;
use crate::sexp::Sexp;
use crate::util::guarded;
use crate::Cfg;
use dmntk_feel::values::Value;
use dmntk_feel::Scope;
use serde_json::json;

/// Canonical observation of a FEEL value (temporal values through their `Debug` form, which
/// shows the private fields; numbers through `Display`; `Null` without its message).
pub fn obs_value(v: &Value) -> String {
  match v {
    Value::Null(_) => "null".to_string(),
    Value::Boolean(b) => format!("{}", b),
    Value::Number(n) => format!("(n {})", n),
    Value::String(s) => format!("(s {})", s.chars().map(|c| (c as u32).to_string()).collect::<Vec<_>>().join(" ")),
    Value::Date(d) => format!("(date {} {} {})", d.year(), d.month(), d.day()),
    Value::Time(t) => format!("(time {})", debug_fields(&format!("{:?}", t))),
    Value::DateTime(dt) => format!("(dt {})", debug_fields(&format!("{:?}", dt))),
    Value::DaysAndTimeDuration(d) => format!("(dtd {})", debug_fields(&format!("{:?}", d))),
    Value::YearsAndMonthsDuration(d) => format!("(ymd {})", debug_fields(&format!("{:?}", d))),
    other => format!("(other {})", other.to_string().replace(' ', "_").replace('(', "[").replace(')', "]")),
  }
}

/// `FeelDateTime(FeelDate(2021, 1, 2), FeelTime(3, 4, 5, 6, Offset(-1800)))` →
/// `2021 1 2 3 4 5 6 (offset -1800)`; zones: `utc`, `local`, `(offset n)`, `(zone (s …))`.
pub fn debug_fields(dbg: &str) -> String {
  let mut out = String::new();
  let mut rest = dbg;
  // zone part first (it may contain a quoted name)
  let mut zone = String::new();
  if let Some(i) = rest.find("Zone(\"") {
    let name_start = i + 6;
    if let Some(j) = rest[name_start..].find('"') {
      let name = &rest[name_start..name_start + j];
      zone = format!("(zone {})", crate::sexp::Sexp::str(name));
      rest = &rest[..i];
    }
  } else if let Some(i) = rest.find("Offset(") {
    let n: String = rest[i + 7..].chars().take_while(|c| *c == '-' || c.is_ascii_digit()).collect();
    zone = format!("(offset {})", n);
    rest = &rest[..i];
  } else if let Some(i) = rest.find("Utc") {
    zone = "utc".to_string();
    rest = &rest[..i];
  } else if let Some(i) = rest.find("Local") {
    zone = "local".to_string();
    rest = &rest[..i];
  }
  let mut cur = String::new();
  let bytes: Vec<char> = rest.chars().collect();
  for (k, c) in bytes.iter().enumerate() {
    if c.is_ascii_digit() || (*c == '-' && k + 1 < bytes.len() && bytes[k + 1].is_ascii_digit() && cur.is_empty()) {
      cur.push(*c);
    } else if !cur.is_empty() {
      // identifiers such as `i128` do not occur in Debug output of these types
      out.push_str(&cur);
      out.push(' ');
      cur.clear();
    }
  }
  if !cur.is_empty() {
    out.push_str(&cur);
    out.push(' ');
  }
  out.push_str(&zone);
  out.trim_end().to_string()
}

/// Parses and evaluates FEEL text; a parse error is `parse-error`, a panic `panic`.
pub fn feel(text: &str) -> String {
  let t = text.to_string();
  match guarded(move || {
    let s = Scope::default();
    match dmntk_feel_parser::parse_expression(&s, &t, false) {
      Ok(n) => match dmntk_feel_evaluator::evaluate(&s, &n) {
        Ok(v) => obs_value(&v),
        Err(_) => "build-error".to_string(),
      },
      Err(_) => "parse-error".to_string(),
    }
  }) {
    Ok(o) => o,
    Err(m) => format!("(panic {})", m.replace(' ', "_").replace('(', "[").replace(')', "]")),
  }
}

/// Evaluates FEEL text whose value is a list; the observations of its items (a panic or a
/// non-list is returned as a single item).
pub fn feel_list(text: &str) -> Vec<String> {
  let t = text.to_string();
  match guarded(move || {
    let s = Scope::default();
    match dmntk_feel_parser::parse_expression(&s, &t, false) {
      Ok(n) => match dmntk_feel_evaluator::evaluate(&s, &n) {
        Ok(Value::List(items)) => items.as_vec().iter().map(obs_value).collect(),
        Ok(v) => vec![obs_value(&v)],
        Err(_) => vec!["build-error".to_string()],
      },
      Err(_) => vec!["parse-error".to_string()],
    }
  }) {
    Ok(o) => o,
    Err(m) => vec![format!("(panic {})", m.replace(' ', "_").replace('(', "[").replace(')', "]"))],
  }
}

/// With `--replay FILE`: the failing input of the replay (a FEEL expression) is evaluated once
/// more on its own and the observation is written into the notes; the run itself is repeated
/// with the replay's seed and tier (set by `check`), which reproduces the disagreement.
pub fn note_replay(cfg: &Cfg, rep: &mut Report) {
  if let Some(path) = &cfg.replay {
    if let Ok(text) = std::fs::read_to_string(path) {
      if let Ok(j) = serde_json::from_str::<serde_json::Value>(&text) {
        if let Some(input) = j.get("input").and_then(|v| v.as_str()) {
          // `TZ=<zone> <expression>`: a case of the family process-zone, evaluated in a child process with TZ set
          if let Some(rest) = input.strip_prefix("TZ=") {
            if let Some((tz, e)) = rest.split_once(' ') {
              let r = crate::c15::pz_child(tz, &[e.to_string()]).and_then(|v| v.into_iter().next()).unwrap_or_else(|| "no answer".into());
              rep.notes.push(format!("replay input `{}` evaluates to {} in a process with TZ={}", e, r, tz));
              return;
            }
          }
          rep.notes.push(format!("replay input `{}` evaluates to {}", input, feel(input)));
        }
      }
    }
  }
}

pub fn probe_if_requested() -> bool {
  if let Ok(p) = std::env::var("VERIF_PROBE") {
    for line in std::fs::read_to_string(p).unwrap_or_default().lines() {
      if line.trim().is_empty() {
        continue;
      }
      println!("{}  =>  {}", line, feel(line));
    }
    return true;
  }
  false
}


// ---------------------------------------------------------------------------------------------

#[derive(Clone, Debug)]
struct Case {
  kind: &'static str, // date time dt dur at
  text: String,
  /// `Some(obs)`: what the property says the text denotes (`null` for the invalid classes);
  /// `None`: no expectation (corruptions: model and code must agree, nothing more).
  expected: Option<String>,
  /// signature to use when the implementation does not give `expected`
  sig: &'static str,
  family: &'static str,
}

fn fn_of(kind: &str) -> &'static str {
  match kind {
    "date" => "date",
    "time" => "time",
    "dt" => "date and time",
    _ => "duration",
  }
}

fn is_leap(y: i64) -> bool {
  y.rem_euclid(4) == 0 && (y.rem_euclid(100) != 0 || y.rem_euclid(400) == 0)
}

fn dim(y: i64, m: i64) -> i64 {
  match m {
    1 | 3 | 5 | 7 | 8 | 10 | 12 => 31,
    4 | 6 | 9 | 11 => 30,
    2 => {
      if is_leap(y) {
        29
      } else {
        28
      }
    }
    _ => 0,
  }
}

/// Canonical lexical form of a date: at least four year digits, `-` for years before 0.
fn date_text(y: i64, m: i64, d: i64) -> String {
  format!("{}{:04}-{:02}-{:02}", if y < 0 { "-" } else { "" }, y.abs(), m, d)
}

fn offset_text(o: i64) -> String {
  let a = o.abs();
  let sign = if o < 0 { '-' } else { '+' };
  if a % 60 != 0 {
    format!("{}{:02}:{:02}:{:02}", sign, a / 3600, a % 3600 / 60, a % 60)
  } else {
    format!("{}{:02}:{:02}", sign, a / 3600, a % 3600 / 60)
  }
}

#[derive(Clone, Debug)]
enum Z {
  Local,
  Zulu(char),
  Offset(i64),
  Named(String),
}

impl Z {
  fn text(&self) -> String {
    match self {
      Z::Local => String::new(),
      Z::Zulu(c) => c.to_string(),
      Z::Offset(o) => offset_text(*o),
      Z::Named(n) => format!("@{}", n),
    }
  }
  /// the zone of the denoted value (an offset of zero is UTC)
  fn obs(&self) -> String {
    match self {
      Z::Local => "local".into(),
      Z::Zulu(_) => "utc".into(),
      Z::Offset(0) => "utc".into(),
      Z::Offset(o) => format!("(offset {})", o),
      Z::Named(n) => format!("(zone {})", Sexp::str(n)),
    }
  }
}

/// Exact nanoseconds of a fraction digit string: the first nine digits, right-padded.
fn frac_ns(digits: &str) -> u64 {
  let mut s: String = digits.chars().take(9).collect();
  while s.len() < 9 {
    s.push('0');
  }
  s.parse().unwrap()
}

fn time_text(h: i64, mi: i64, s: i64, frac: &str, z: &Z) -> String {
  format!("{:02}:{:02}:{:02}{}{}{}", h, mi, s, if frac.is_empty() { "" } else { "." }, frac, z.text())
}

fn adversarial_fraction(rng: &mut Rng) -> String {
  let len = rng.range(1, 9) as usize;
  let mut s = match rng.below(9) {
    0 => "9".repeat(len),
    1 => format!("{}1", "0".repeat(len - 1)),
    2 => "3".repeat(len),
    3 => "6".repeat(len.saturating_sub(1)) + "7",
    4 => format!("{}5", "4".repeat(len - 1)),
    5 => {
      // the 0.1 + 0.2 family: short decimals that are not dyadic
      let k = rng.range(1, 9999);
      format!("{:0width$}", k % 10i64.pow(len.min(4) as u32), width = len.min(4))
    }
    6 => "0".repeat(len),
    _ => (0..len).map(|_| char::from(b'0' + rng.below(10) as u8)).collect(),
  };
  if rng.chance(1, 12) {
    // more than nine digits: everything after the ninth is below a nanosecond
    for _ in 0..rng.range(1, 12) {
      s.push(if rng.chance(1, 2) { '9' } else { char::from(b'0' + rng.below(10) as u8) });
    }
  }
  s
}

/// Every zone identifier CPython's zoneinfo lists from the system tzdata (independent of chrono-tz).
pub const IANA_ZONES: [&str; 597] = [
  "Africa/Abidjan", "Africa/Accra", "Africa/Addis_Ababa", "Africa/Algiers", "Africa/Asmara", "Africa/Asmera",
  "Africa/Bamako", "Africa/Bangui", "Africa/Banjul", "Africa/Bissau", "Africa/Blantyre", "Africa/Brazzaville",
  "Africa/Bujumbura", "Africa/Cairo", "Africa/Casablanca", "Africa/Ceuta", "Africa/Conakry", "Africa/Dakar",
  "Africa/Dar_es_Salaam", "Africa/Djibouti", "Africa/Douala", "Africa/El_Aaiun", "Africa/Freetown", "Africa/Gaborone",
  "Africa/Harare", "Africa/Johannesburg", "Africa/Juba", "Africa/Kampala", "Africa/Khartoum", "Africa/Kigali",
  "Africa/Kinshasa", "Africa/Lagos", "Africa/Libreville", "Africa/Lome", "Africa/Luanda", "Africa/Lubumbashi",
  "Africa/Lusaka", "Africa/Malabo", "Africa/Maputo", "Africa/Maseru", "Africa/Mbabane", "Africa/Mogadishu",
  "Africa/Monrovia", "Africa/Nairobi", "Africa/Ndjamena", "Africa/Niamey", "Africa/Nouakchott", "Africa/Ouagadougou",
  "Africa/Porto-Novo", "Africa/Sao_Tome", "Africa/Timbuktu", "Africa/Tripoli", "Africa/Tunis", "Africa/Windhoek",
  "America/Adak", "America/Anchorage", "America/Anguilla", "America/Antigua", "America/Araguaina", "America/Argentina/Buenos_Aires",
  "America/Argentina/Catamarca", "America/Argentina/ComodRivadavia", "America/Argentina/Cordoba", "America/Argentina/Jujuy", "America/Argentina/La_Rioja", "America/Argentina/Mendoza",
  "America/Argentina/Rio_Gallegos", "America/Argentina/Salta", "America/Argentina/San_Juan", "America/Argentina/San_Luis", "America/Argentina/Tucuman", "America/Argentina/Ushuaia",
  "America/Aruba", "America/Asuncion", "America/Atikokan", "America/Atka", "America/Bahia", "America/Bahia_Banderas",
  "America/Barbados", "America/Belem", "America/Belize", "America/Blanc-Sablon", "America/Boa_Vista", "America/Bogota",
  "America/Boise", "America/Buenos_Aires", "America/Cambridge_Bay", "America/Campo_Grande", "America/Cancun", "America/Caracas",
  "America/Catamarca", "America/Cayenne", "America/Cayman", "America/Chicago", "America/Chihuahua", "America/Ciudad_Juarez",
  "America/Coral_Harbour", "America/Cordoba", "America/Costa_Rica", "America/Coyhaique", "America/Creston", "America/Cuiaba",
  "America/Curacao", "America/Danmarkshavn", "America/Dawson", "America/Dawson_Creek", "America/Denver", "America/Detroit",
  "America/Dominica", "America/Edmonton", "America/Eirunepe", "America/El_Salvador", "America/Ensenada", "America/Fort_Nelson",
  "America/Fort_Wayne", "America/Fortaleza", "America/Glace_Bay", "America/Godthab", "America/Goose_Bay", "America/Grand_Turk",
  "America/Grenada", "America/Guadeloupe", "America/Guatemala", "America/Guayaquil", "America/Guyana", "America/Halifax",
  "America/Havana", "America/Hermosillo", "America/Indiana/Indianapolis", "America/Indiana/Knox", "America/Indiana/Marengo", "America/Indiana/Petersburg",
  "America/Indiana/Tell_City", "America/Indiana/Vevay", "America/Indiana/Vincennes", "America/Indiana/Winamac", "America/Indianapolis", "America/Inuvik",
  "America/Iqaluit", "America/Jamaica", "America/Jujuy", "America/Juneau", "America/Kentucky/Louisville", "America/Kentucky/Monticello",
  "America/Knox_IN", "America/Kralendijk", "America/La_Paz", "America/Lima", "America/Los_Angeles", "America/Louisville",
  "America/Lower_Princes", "America/Maceio", "America/Managua", "America/Manaus", "America/Marigot", "America/Martinique",
  "America/Matamoros", "America/Mazatlan", "America/Mendoza", "America/Menominee", "America/Merida", "America/Metlakatla",
  "America/Mexico_City", "America/Miquelon", "America/Moncton", "America/Monterrey", "America/Montevideo", "America/Montreal",
  "America/Montserrat", "America/Nassau", "America/New_York", "America/Nipigon", "America/Nome", "America/Noronha",
  "America/North_Dakota/Beulah", "America/North_Dakota/Center", "America/North_Dakota/New_Salem", "America/Nuuk", "America/Ojinaga", "America/Panama",
  "America/Pangnirtung", "America/Paramaribo", "America/Phoenix", "America/Port-au-Prince", "America/Port_of_Spain", "America/Porto_Acre",
  "America/Porto_Velho", "America/Puerto_Rico", "America/Punta_Arenas", "America/Rainy_River", "America/Rankin_Inlet", "America/Recife",
  "America/Regina", "America/Resolute", "America/Rio_Branco", "America/Rosario", "America/Santa_Isabel", "America/Santarem",
  "America/Santiago", "America/Santo_Domingo", "America/Sao_Paulo", "America/Scoresbysund", "America/Shiprock", "America/Sitka",
  "America/St_Barthelemy", "America/St_Johns", "America/St_Kitts", "America/St_Lucia", "America/St_Thomas", "America/St_Vincent",
  "America/Swift_Current", "America/Tegucigalpa", "America/Thule", "America/Thunder_Bay", "America/Tijuana", "America/Toronto",
  "America/Tortola", "America/Vancouver", "America/Virgin", "America/Whitehorse", "America/Winnipeg", "America/Yakutat",
  "America/Yellowknife", "Antarctica/Casey", "Antarctica/Davis", "Antarctica/DumontDUrville", "Antarctica/Macquarie", "Antarctica/Mawson",
  "Antarctica/McMurdo", "Antarctica/Palmer", "Antarctica/Rothera", "Antarctica/South_Pole", "Antarctica/Syowa", "Antarctica/Troll",
  "Antarctica/Vostok", "Arctic/Longyearbyen", "Asia/Aden", "Asia/Almaty", "Asia/Amman", "Asia/Anadyr",
  "Asia/Aqtau", "Asia/Aqtobe", "Asia/Ashgabat", "Asia/Ashkhabad", "Asia/Atyrau", "Asia/Baghdad",
  "Asia/Bahrain", "Asia/Baku", "Asia/Bangkok", "Asia/Barnaul", "Asia/Beirut", "Asia/Bishkek",
  "Asia/Brunei", "Asia/Calcutta", "Asia/Chita", "Asia/Choibalsan", "Asia/Chongqing", "Asia/Chungking",
  "Asia/Colombo", "Asia/Dacca", "Asia/Damascus", "Asia/Dhaka", "Asia/Dili", "Asia/Dubai",
  "Asia/Dushanbe", "Asia/Famagusta", "Asia/Gaza", "Asia/Harbin", "Asia/Hebron", "Asia/Ho_Chi_Minh",
  "Asia/Hong_Kong", "Asia/Hovd", "Asia/Irkutsk", "Asia/Istanbul", "Asia/Jakarta", "Asia/Jayapura",
  "Asia/Jerusalem", "Asia/Kabul", "Asia/Kamchatka", "Asia/Karachi", "Asia/Kashgar", "Asia/Kathmandu",
  "Asia/Katmandu", "Asia/Khandyga", "Asia/Kolkata", "Asia/Krasnoyarsk", "Asia/Kuala_Lumpur", "Asia/Kuching",
  "Asia/Kuwait", "Asia/Macao", "Asia/Macau", "Asia/Magadan", "Asia/Makassar", "Asia/Manila",
  "Asia/Muscat", "Asia/Nicosia", "Asia/Novokuznetsk", "Asia/Novosibirsk", "Asia/Omsk", "Asia/Oral",
  "Asia/Phnom_Penh", "Asia/Pontianak", "Asia/Pyongyang", "Asia/Qatar", "Asia/Qostanay", "Asia/Qyzylorda",
  "Asia/Rangoon", "Asia/Riyadh", "Asia/Saigon", "Asia/Sakhalin", "Asia/Samarkand", "Asia/Seoul",
  "Asia/Shanghai", "Asia/Singapore", "Asia/Srednekolymsk", "Asia/Taipei", "Asia/Tashkent", "Asia/Tbilisi",
  "Asia/Tehran", "Asia/Tel_Aviv", "Asia/Thimbu", "Asia/Thimphu", "Asia/Tokyo", "Asia/Tomsk",
  "Asia/Ujung_Pandang", "Asia/Ulaanbaatar", "Asia/Ulan_Bator", "Asia/Urumqi", "Asia/Ust-Nera", "Asia/Vientiane",
  "Asia/Vladivostok", "Asia/Yakutsk", "Asia/Yangon", "Asia/Yekaterinburg", "Asia/Yerevan", "Atlantic/Azores",
  "Atlantic/Bermuda", "Atlantic/Canary", "Atlantic/Cape_Verde", "Atlantic/Faeroe", "Atlantic/Faroe", "Atlantic/Jan_Mayen",
  "Atlantic/Madeira", "Atlantic/Reykjavik", "Atlantic/South_Georgia", "Atlantic/St_Helena", "Atlantic/Stanley", "Australia/ACT",
  "Australia/Adelaide", "Australia/Brisbane", "Australia/Broken_Hill", "Australia/Canberra", "Australia/Currie", "Australia/Darwin",
  "Australia/Eucla", "Australia/Hobart", "Australia/LHI", "Australia/Lindeman", "Australia/Lord_Howe", "Australia/Melbourne",
  "Australia/NSW", "Australia/North", "Australia/Perth", "Australia/Queensland", "Australia/South", "Australia/Sydney",
  "Australia/Tasmania", "Australia/Victoria", "Australia/West", "Australia/Yancowinna", "Brazil/Acre", "Brazil/DeNoronha",
  "Brazil/East", "Brazil/West", "CET", "CST6CDT", "Canada/Atlantic", "Canada/Central",
  "Canada/Eastern", "Canada/Mountain", "Canada/Newfoundland", "Canada/Pacific", "Canada/Saskatchewan", "Canada/Yukon",
  "Chile/Continental", "Chile/EasterIsland", "Cuba", "EET", "EST", "EST5EDT",
  "Egypt", "Eire", "Etc/GMT", "Etc/GMT+0", "Etc/GMT+1", "Etc/GMT+10",
  "Etc/GMT+11", "Etc/GMT+12", "Etc/GMT+2", "Etc/GMT+3", "Etc/GMT+4", "Etc/GMT+5",
  "Etc/GMT+6", "Etc/GMT+7", "Etc/GMT+8", "Etc/GMT+9", "Etc/GMT-0", "Etc/GMT-1",
  "Etc/GMT-10", "Etc/GMT-11", "Etc/GMT-12", "Etc/GMT-13", "Etc/GMT-14", "Etc/GMT-2",
  "Etc/GMT-3", "Etc/GMT-4", "Etc/GMT-5", "Etc/GMT-6", "Etc/GMT-7", "Etc/GMT-8",
  "Etc/GMT-9", "Etc/GMT0", "Etc/Greenwich", "Etc/UCT", "Etc/UTC", "Etc/Universal",
  "Etc/Zulu", "Europe/Amsterdam", "Europe/Andorra", "Europe/Astrakhan", "Europe/Athens", "Europe/Belfast",
  "Europe/Belgrade", "Europe/Berlin", "Europe/Bratislava", "Europe/Brussels", "Europe/Bucharest", "Europe/Budapest",
  "Europe/Busingen", "Europe/Chisinau", "Europe/Copenhagen", "Europe/Dublin", "Europe/Gibraltar", "Europe/Guernsey",
  "Europe/Helsinki", "Europe/Isle_of_Man", "Europe/Istanbul", "Europe/Jersey", "Europe/Kaliningrad", "Europe/Kiev",
  "Europe/Kirov", "Europe/Kyiv", "Europe/Lisbon", "Europe/Ljubljana", "Europe/London", "Europe/Luxembourg",
  "Europe/Madrid", "Europe/Malta", "Europe/Mariehamn", "Europe/Minsk", "Europe/Monaco", "Europe/Moscow",
  "Europe/Nicosia", "Europe/Oslo", "Europe/Paris", "Europe/Podgorica", "Europe/Prague", "Europe/Riga",
  "Europe/Rome", "Europe/Samara", "Europe/San_Marino", "Europe/Sarajevo", "Europe/Saratov", "Europe/Simferopol",
  "Europe/Skopje", "Europe/Sofia", "Europe/Stockholm", "Europe/Tallinn", "Europe/Tirane", "Europe/Tiraspol",
  "Europe/Ulyanovsk", "Europe/Uzhgorod", "Europe/Vaduz", "Europe/Vatican", "Europe/Vienna", "Europe/Vilnius",
  "Europe/Volgograd", "Europe/Warsaw", "Europe/Zagreb", "Europe/Zaporozhye", "Europe/Zurich", "GB",
  "GB-Eire", "GMT", "GMT+0", "GMT-0", "GMT0", "Greenwich",
  "HST", "Hongkong", "Iceland", "Indian/Antananarivo", "Indian/Chagos", "Indian/Christmas",
  "Indian/Cocos", "Indian/Comoro", "Indian/Kerguelen", "Indian/Mahe", "Indian/Maldives", "Indian/Mauritius",
  "Indian/Mayotte", "Indian/Reunion", "Iran", "Israel", "Jamaica", "Japan",
  "Kwajalein", "Libya", "MET", "MST", "MST7MDT", "Mexico/BajaNorte",
  "Mexico/BajaSur", "Mexico/General", "NZ", "NZ-CHAT", "Navajo", "PRC",
  "PST8PDT", "Pacific/Apia", "Pacific/Auckland", "Pacific/Bougainville", "Pacific/Chatham", "Pacific/Chuuk",
  "Pacific/Easter", "Pacific/Efate", "Pacific/Enderbury", "Pacific/Fakaofo", "Pacific/Fiji", "Pacific/Funafuti",
  "Pacific/Galapagos", "Pacific/Gambier", "Pacific/Guadalcanal", "Pacific/Guam", "Pacific/Honolulu", "Pacific/Johnston",
  "Pacific/Kanton", "Pacific/Kiritimati", "Pacific/Kosrae", "Pacific/Kwajalein", "Pacific/Majuro", "Pacific/Marquesas",
  "Pacific/Midway", "Pacific/Nauru", "Pacific/Niue", "Pacific/Norfolk", "Pacific/Noumea", "Pacific/Pago_Pago",
  "Pacific/Palau", "Pacific/Pitcairn", "Pacific/Pohnpei", "Pacific/Ponape", "Pacific/Port_Moresby", "Pacific/Rarotonga",
  "Pacific/Saipan", "Pacific/Samoa", "Pacific/Tahiti", "Pacific/Tarawa", "Pacific/Tongatapu", "Pacific/Truk",
  "Pacific/Wake", "Pacific/Wallis", "Pacific/Yap", "Poland", "Portugal", "ROC",
  "ROK", "Singapore", "Turkey", "UCT", "US/Alaska", "US/Aleutian",
  "US/Arizona", "US/Central", "US/East-Indiana", "US/Eastern", "US/Hawaii", "US/Indiana-Starke",
  "US/Michigan", "US/Mountain", "US/Pacific", "US/Samoa", "UTC", "Universal",
  "W-SU", "WET", "Zulu",
];

const KNOWN_ZONES: [&str; 14] = [
  "Europe/Warsaw", "Europe/London", "America/New_York", "America/Vancouver", "Asia/Kolkata", "Asia/Tokyo", "Australia/Sydney",
  "Pacific/Honolulu", "Africa/Johannesburg", "Etc/UTC", "UTC", "America/Argentina/Buenos_Aires", "America/Port_of_Spain", "Etc/GMT",
];
const UNKNOWN_ZONES: [&str; 5] = ["Europe/Nowhere", "europe/warsaw", "Mars/Olympus_Mons", "X", "Europe/"];

/// Spec-side normal form of a days-and-time duration.
fn dtd_normal(n: i128) -> String {
  if n == 0 {
    return "PT0S".into();
  }
  let a = n.abs();
  let (d, r) = (a / 86_400_000_000_000, a % 86_400_000_000_000);
  let (h, r) = (r / 3_600_000_000_000, r % 3_600_000_000_000);
  let (mi, r) = (r / 60_000_000_000, r % 60_000_000_000);
  let (s, ns) = (r / 1_000_000_000, r % 1_000_000_000);
  let mut t = String::new();
  if n < 0 {
    t.push('-');
  }
  t.push('P');
  if d > 0 {
    t += &format!("{}D", d);
  }
  if h > 0 || mi > 0 || s > 0 || ns > 0 {
    t.push('T');
    if h > 0 {
      t += &format!("{}H", h);
    }
    if mi > 0 {
      t += &format!("{}M", mi);
    }
    if ns > 0 {
      t += &format!("{}.{}S", s, format!("{:09}", ns).trim_end_matches('0'));
    } else if s > 0 {
      t += &format!("{}S", s);
    }
  }
  t
}

fn ymd_normal(n: i128) -> String {
  if n == 0 {
    return "P0M".into();
  }
  let a = n.abs();
  let mut t = String::new();
  if n < 0 {
    t.push('-');
  }
  t.push('P');
  if a / 12 > 0 {
    t += &format!("{}Y", a / 12);
  }
  if a % 12 > 0 {
    t += &format!("{}M", a % 12);
  }
  t
}

fn has_forbidden(t: &str) -> bool {
  t.contains('"') || t.contains('\\') || t.contains('\n')
}

fn norm(s: &str) -> String {
  if s.starts_with("(panic") {
    "panic".to_string()
  } else {
    s.to_string()
  }
}

/// `(time h m s NS zone)` / `(dt … NS zone)` with the nanoseconds blanked: to tell an f64 loss
/// from any other difference.
fn mask_ns(obs: &str) -> String {
  let toks: Vec<&str> = obs.splitn(9, ' ').collect();
  if obs.starts_with("(time ") && toks.len() >= 6 {
    let mut v: Vec<String> = toks.iter().map(|s| s.to_string()).collect();
    v[4] = "_".into();
    v.join(" ")
  } else if obs.starts_with("(dt ") && toks.len() >= 9 {
    let mut v: Vec<String> = toks.iter().map(|s| s.to_string()).collect();
    v[7] = "_".into();
    v.join(" ")
  } else {
    obs.to_string()
  }
}

/// The two observations differ only in their nanoseconds and by at most `tol` ns (the reach of the f64 route).
fn ns_close(a: &str, b: &str, tol: i128) -> bool {
  let field = |obs: &str| -> Option<i128> {
    let toks: Vec<&str> = obs.trim_end_matches(')').splitn(9, ' ').collect();
    if obs.starts_with("(time ") && toks.len() >= 6 {
      toks[4].parse().ok()
    } else if obs.starts_with("(dt ") && toks.len() >= 9 {
      toks[7].parse().ok()
    } else if obs.starts_with("(dtd ") && toks.len() == 2 {
      toks[1].parse().ok()
    } else {
      None
    }
  };
  let same_rest = if a.starts_with("(dtd ") { b.starts_with("(dtd ") } else { mask_ns(a) == mask_ns(b) };
  match (field(a), field(b)) {
    (Some(x), Some(y)) => same_rest && (x - y).abs() <= tol,
    _ => false,
  }
}

fn known_zone(cache: &mut std::collections::HashMap<String, bool>, name: &str) -> bool {
  if let Some(b) = cache.get(name) {
    return *b;
  }
  let ok = !has_forbidden(name) && feel(&format!("time(\"12:00:00@{}\")", name)).starts_with("(time");
  cache.insert(name.to_string(), ok);
  ok
}

// ---------------------------------------------------------------------------------------------
// The written grammar of the five literal forms (specification side, written from the property text and
// the lexical forms of XML Schema part 2 it refers to - not from the code, which uses regular expressions
// of the `regex` crate; no regular expression here). Only ASCII: digits are '0'…'9', the signs are
// '-' '+' ':' '.' '@' 'T' 'Z' 'z' 'P' 'Y' 'M' 'D' 'H' 'S'. Every text that is not in the grammar,
// or is in it but names an impossible date, hour 24, minute / second 60 and above, an offset of more
// than 14 hours (or with minutes / seconds above 59), an unknown zone or a duration beyond the
// representable maximum, denotes nothing: null.

fn two_digits(cs: &[char], i: usize) -> Option<i64> {
  if i + 2 <= cs.len() && cs[i].is_ascii_digit() && cs[i + 1].is_ascii_digit() {
    Some((cs[i] as i64 - 48) * 10 + (cs[i + 1] as i64 - 48))
  } else {
    None
  }
}

fn digit_run(cs: &[char], i: usize) -> usize {
  let mut j = i;
  while j < cs.len() && cs[j].is_ascii_digit() {
    j += 1;
  }
  j
}

fn run_value(cs: &[char], i: usize, j: usize) -> Option<u128> {
  // value of the digits cs[i..j]; None when it does not fit 128 bits (far beyond every limit)
  let mut v: u128 = 0;
  for c in &cs[i..j] {
    v = v.checked_mul(10)?.checked_add((*c as u128) - 48)?;
  }
  Some(v)
}

/// `[-]YYYY[YYYYY]-MM-DD` at the start of `cs`: the written fields and where the date ends.
fn g_date(cs: &[char]) -> Option<((i64, i64, i64), usize)> {
  let neg = cs.first() == Some(&'-');
  let i = if neg { 1 } else { 0 };
  let j = digit_run(cs, i);
  let n = j - i;
  if !(4..=9).contains(&n) || (n > 4 && cs[i] == '0') {
    return None;
  }
  let y = run_value(cs, i, j)? as i64;
  if cs.get(j) != Some(&'-') {
    return None;
  }
  let m = two_digits(cs, j + 1)?;
  if cs.get(j + 3) != Some(&'-') {
    return None;
  }
  let d = two_digits(cs, j + 4)?;
  Some(((if neg { -y } else { y }, m, d), j + 6))
}

fn calendar_date(y: i64, m: i64, d: i64) -> bool {
  (1..=12).contains(&m) && d >= 1 && d <= dim(y, m)
}

/// `hh:mm:ss[.f+][Z|z|(+|-)hh:mm[:ss]|@name]`, the whole of `cs`: `(h mi s ns zone)` as an observation.
fn g_time(cs: &[char], zone_known: bool) -> Option<String> {
  let h = two_digits(cs, 0)?;
  if cs.get(2) != Some(&':') {
    return None;
  }
  let mi = two_digits(cs, 3)?;
  if cs.get(5) != Some(&':') {
    return None;
  }
  let s = two_digits(cs, 6)?;
  let mut i = 8;
  let mut ns: u64 = 0;
  if cs.get(i) == Some(&'.') {
    let j = digit_run(cs, i + 1);
    if j == i + 1 {
      return None;
    }
    let digits: String = cs[i + 1..j].iter().collect();
    ns = frac_ns(&digits);
    i = j;
  }
  let rest = &cs[i..];
  let zone = if rest.is_empty() {
    "local".to_string()
  } else if rest == ['Z'] || rest == ['z'] {
    "utc".to_string()
  } else if rest[0] == '@' {
    let name = &rest[1..];
    if name.is_empty() || !name.iter().all(|c| c.is_ascii_alphanumeric() || "_/+-".contains(*c)) || !zone_known {
      return None;
    }
    format!("(zone {})", Sexp::str(&name.iter().collect::<String>()))
  } else if rest[0] == '+' || rest[0] == '-' {
    let hh = two_digits(rest, 1)?;
    if rest.get(3) != Some(&':') {
      return None;
    }
    let mm = two_digits(rest, 4)?;
    let ss = if rest.len() == 6 {
      0
    } else if rest.len() == 9 && rest[6] == ':' {
      two_digits(rest, 7)?
    } else {
      return None;
    };
    if hh > 14 || mm > 59 || ss > 59 {
      return None;
    }
    let o = 3600 * hh + 60 * mm + ss;
    if o == 0 {
      "utc".to_string()
    } else {
      format!("(offset {})", if rest[0] == '-' { -o } else { o })
    }
  } else {
    return None;
  };
  if h > 23 || mi > 59 || s > 59 {
    return None;
  }
  Some(format!("{} {} {} {} {}", h, mi, s, ns, zone))
}

/// `[-]P[nY][nM]`: months, `Err(())` when the text is in the grammar but beyond i64 months.
fn g_ym(cs: &[char]) -> Option<Result<i128, ()>> {
  let neg = cs.first() == Some(&'-');
  let mut i = if neg { 1 } else { 0 };
  if cs.get(i) != Some(&'P') {
    return None;
  }
  i += 1;
  let mut total: Option<i128> = Some(0);
  let mut any = false;
  for x in ['Y', 'M'] {
    let j = digit_run(cs, i);
    if j > i && cs.get(j) == Some(&x) {
      any = true;
      let v = run_value(cs, i, j).filter(|v| *v <= i64::MAX as u128).map(|v| v as i128 * if x == 'Y' { 12 } else { 1 });
      total = match (total, v) {
        (Some(t), Some(v)) if t + v <= i64::MAX as i128 => Some(t + v),
        _ => None,
      };
      i = j + 1;
    }
  }
  if i != cs.len() || !any {
    return None;
  }
  Some(match total {
    Some(t) => Ok(if neg { -t } else { t }),
    None => Err(()),
  })
}

/// `[-]P[nD][T[nH][nM][n[.f+]S]]` with at least one component and at least one after a `T`:
/// nanoseconds, `Err(())` when a component does not fit 64 bits.
fn g_dtd(cs: &[char]) -> Option<Result<i128, ()>> {
  let neg = cs.first() == Some(&'-');
  let mut i = if neg { 1 } else { 0 };
  if cs.get(i) != Some(&'P') {
    return None;
  }
  i += 1;
  let mut total: Option<i128> = Some(0);
  let mut any = false;
  let mut comp = |i: &mut usize, x: char, unit: i128, total: &mut Option<i128>| -> bool {
    let j = digit_run(cs, *i);
    if j > *i && cs.get(j) == Some(&x) {
      let v = run_value(cs, *i, j).filter(|v| *v <= u64::MAX as u128).map(|v| v as i128 * unit);
      *total = match (*total, v) {
        (Some(t), Some(v)) => Some(t + v),
        _ => None,
      };
      *i = j + 1;
      true
    } else {
      false
    }
  };
  any |= comp(&mut i, 'D', 86_400_000_000_000, &mut total);
  if cs.get(i) == Some(&'T') {
    i += 1;
    let mut any_t = false;
    any_t |= comp(&mut i, 'H', 3_600_000_000_000, &mut total);
    any_t |= comp(&mut i, 'M', 60_000_000_000, &mut total);
    // seconds with an optional fraction of at least one digit
    let j = digit_run(cs, i);
    if j > i {
      if cs.get(j) == Some(&'S') {
        any_t |= comp(&mut i, 'S', 1_000_000_000, &mut total);
      } else if cs.get(j) == Some(&'.') {
        let k = digit_run(cs, j + 1);
        if k > j + 1 && cs.get(k) == Some(&'S') {
          let v = run_value(cs, i, j).filter(|v| *v <= u64::MAX as u128).map(|v| v as i128 * 1_000_000_000);
          let digits: String = cs[j + 1..k].iter().collect();
          total = match (total, v) {
            (Some(t), Some(v)) => Some(t + v + frac_ns(&digits) as i128),
            _ => None,
          };
          i = k + 1;
          any_t = true;
        }
      }
    }
    if !any_t {
      return None;
    }
    any = true;
  }
  if i != cs.len() || !any {
    return None;
  }
  Some(match total {
    Some(t) => Ok(if neg { -t } else { t }),
    None => Err(()),
  })
}

/// What the text denotes when given to `date()` / `time()` / `date and time()` / `duration()` / `@"…"`
/// (kinds `date time dt dur at`; `xdt`: the xsd:dateTime form alone), as an observation; `null` when it
/// denotes nothing.
fn spec_lit(kind: &str, text: &str, zone_known: bool) -> String {
  let cs: Vec<char> = text.chars().collect();
  let date = || -> Option<String> {
    let ((y, m, d), end) = g_date(&cs)?;
    if end == cs.len() && calendar_date(y, m, d) {
      Some(format!("(date {} {} {})", y, m, d))
    } else {
      None
    }
  };
  let dt = || -> Option<String> {
    let ((y, m, d), end) = g_date(&cs)?;
    if cs.get(end) != Some(&'T') || !calendar_date(y, m, d) {
      return None;
    }
    let t = g_time(&cs[end + 1..], zone_known)?;
    Some(format!("(dt {} {} {} {})", y, m, d, t))
  };
  let time = || -> Option<String> { g_time(&cs, zone_known).map(|t| format!("(time {})", t)) };
  let dur = || -> Option<String> {
    match g_ym(&cs) {
      Some(Ok(n)) => Some(format!("(ymd {})", n)),
      Some(Err(())) => None,
      None => match g_dtd(&cs) {
        Some(Ok(n)) => Some(format!("(dtd {})", n)),
        _ => None,
      },
    }
  };
  let v = match kind {
    "date" => date(),
    "time" => time(),
    "xdt" => dt(),
    "dt" => dt().or_else(|| date().map(|d| format!("(dt {} 0 0 0 0 local)", &d[6..d.len() - 1]))),
    "dur" => dur(),
    _ => date().or_else(dt).or_else(time).or_else(dur),
  };
  v.unwrap_or_else(|| "null".to_string())
}

/// The replacements of family `foreign`: for an ASCII character of a literal, characters of other scripts
/// (or other Unicode blocks) that look like it or mean the same.
fn foreign_replacements(c: char) -> Vec<(char, &'static str)> {
  let mut out: Vec<(char, &'static str)> = vec![];
  if c.is_ascii_digit() {
    let d = c as u32 - 48;
    // decimal digits (general category Nd) of other scripts
    for base in [
      0x0660u32, 0x06F0, 0x07C0, 0x0966, 0x09E6, 0x0A66, 0x0AE6, 0x0B66, 0x0BE6, 0x0C66, 0x0CE6, 0x0D66, 0x0DE6, 0x0E50, 0x0ED0, 0x0F20, 0x1040, 0x1090, 0x17E0,
      0x1810, 0x1946, 0x19D0, 0x1A80, 0x1B50, 0x1BB0, 0x1C40, 0x1C50, 0xA620, 0xA8D0, 0xA900, 0xA9D0, 0xAA50, 0xABF0, 0xFF10, 0x104A0, 0x11066, 0x1D7CE, 0x1D7D8,
      0x1D7E2, 0x1D7EC, 0x1D7F6, 0x1E950,
    ] {
      if let Some(ch) = char::from_u32(base + d) {
        out.push((ch, "digit"));
      }
    }
    // digit-like characters that are not decimal digits: superscripts, subscripts, circled, parenthesised, full stop
    let sup = [0x2070u32, 0x00B9, 0x00B2, 0x00B3, 0x2074, 0x2075, 0x2076, 0x2077, 0x2078, 0x2079][d as usize];
    for cp in [sup, 0x2080 + d, if d == 0 { 0x24EA } else { 0x2460 + d - 1 }, if d == 0 { 0x3007 } else { 0x2474 + d - 1 }, if d == 0 { 0x1F100 } else { 0x2488 + d - 1 }] {
      if let Some(ch) = char::from_u32(cp) {
        out.push((ch, "digit-like"));
      }
    }
    return out;
  }
  let table: &[(char, &[u32])] = &[
    ('-', &[0x2212, 0x2010, 0x2011, 0x2012, 0x2013, 0x2014, 0xFE63, 0xFF0D, 0x00AD, 0x058A, 0x2043, 0x02D7]),
    ('+', &[0xFF0B, 0xFE62, 0x207A, 0x208A, 0x2795, 0x02D6]),
    (':', &[0xFF1A, 0xA789, 0x2236, 0xFE55, 0x02D0, 0x0589, 0x1361, 0xFE13]),
    ('.', &[0xFF0E, 0x2024, 0x00B7, 0x3002, 0xFE52, 0x0701, 0x06D4, 0x2E3C]),
    ('@', &[0xFF20, 0xFE6B]),
    ('/', &[0x2215, 0xFF0F, 0x2044, 0x29F8]),
    ('_', &[0xFF3F, 0x203F, 0xFE4D]),
  ];
  for (a, cps) in table {
    if *a == c {
      for cp in cps.iter() {
        if let Some(ch) = char::from_u32(*cp) {
          out.push((ch, "sign"));
        }
      }
      return out;
    }
  }
  if c.is_ascii_alphabetic() {
    // full-width and mathematical letters, and letters of other scripts with the same shape (or the same
    // upper / lower case partner: the Kelvin sign, the long s, the dotless i)
    let idx = if c.is_ascii_uppercase() { c as u32 - 'A' as u32 } else { c as u32 - 'a' as u32 };
    let fw = if c.is_ascii_uppercase() { 0xFF21 + idx } else { 0xFF41 + idx };
    let mb = if c.is_ascii_uppercase() { 0x1D400 + idx } else { 0x1D41A + idx };
    let ms = if c.is_ascii_uppercase() { 0x1D670 + idx } else { 0x1D68A + idx };
    for cp in [fw, mb, ms] {
      if let Some(ch) = char::from_u32(cp) {
        out.push((ch, "letter"));
      }
    }
    let look: &[(char, &[u32])] = &[
      ('T', &[0x0422, 0x03A4, 0x13A2]), ('Z', &[0x0396, 0x2124, 0x13C3]), ('z', &[0x1D22, 0x0290]), ('P', &[0x0420, 0x03A1, 0x2119]), ('Y', &[0x03A5, 0x04AE]),
      ('M', &[0x041C, 0x039C, 0x216F]), ('D', &[0x216E, 0x13A0]), ('H', &[0x041D, 0x0397, 0x210D]), ('S', &[0x0405, 0x13DA]), ('s', &[0x017F, 0x0455]),
      ('a', &[0x0430, 0x0251]), ('e', &[0x0435, 0x212F]), ('o', &[0x043E, 0x03BF]), ('k', &[0x212A, 0x043A]), ('K', &[0x212A, 0x039A]), ('i', &[0x0131, 0x0456]),
      ('E', &[0x0415, 0x0395]), ('A', &[0x0410, 0x0391]), ('W', &[0x051C]), ('r', &[0x0433]), ('u', &[0x03C5]), ('p', &[0x0440]), ('w', &[0x051D]), ('y', &[0x0443]),
      ('t', &[0x03C4]), ('c', &[0x0441]), ('G', &[0x050C]), ('C', &[0x0421]),
    ];
    for (a, cps) in look {
      if *a == c {
        for cp in cps.iter() {
          if let Some(ch) = char::from_u32(*cp) {
            out.push((ch, "letter"));
          }
        }
      }
    }
  }
  out
}

/// Characters without any width or meaning in a number, inserted between two characters of a literal.
const FOREIGN_INSERTIONS: [u32; 12] = [0x200B, 0x00A0, 0xFEFF, 0x200E, 0x0301, 0x3000, 0x2060, 0x200D, 0x00AD, 0x2009, 0x180E, 0xE0030];

fn gen_cases(rng: &mut Rng, thorough: bool) -> Vec<Case> {
  let mut cs: Vec<Case> = vec![];
  let scale = if thorough { 8 } else { 1 };
  // ---- A. dates, years stratified over the whole range (by number of digits, both signs)
  let mut years: Vec<i64> = vec![0, 1, 5, 9, 10, 99, 100, 999, 1000, 1001, 1582, 1900, 1970, 2000, 2021, 2400, 9999, 10_000, 99_999, 100_000, 262_142, 262_143, 262_144, 999_999, 1_000_000, 9_999_999, 10_000_000, 99_999_999, 100_000_000, 999_999_999];
  for digits in 1..=9u32 {
    for _ in 0..(6 * scale) {
      let lo = if digits == 1 { 0 } else { 10i64.pow(digits - 1) };
      years.push(rng.range(lo, 10i64.pow(digits) - 1));
    }
  }
  let mut all_years = vec![];
  for y in &years {
    all_years.push(*y);
    if *y != 0 {
      all_years.push(-*y);
    }
  }
  for y in &all_years {
    let mut mds: Vec<(i64, i64)> = vec![(1, 1), (12, 31), (2, 28)];
    if is_leap(*y) {
      mds.push((2, 29));
    }
    let m = rng.range(1, 12);
    mds.push((m, rng.range(1, dim(*y, m))));
    for (m, d) in mds {
      cs.push(Case {
        kind: "date",
        text: date_text(*y, m, d),
        expected: Some(format!("(date {} {} {})", y, m, d)),
        sig: if y.abs() < 1000 { "C14 date literal with a year below 1000 (or above -1000) is rejected" } else { "C14 valid date literal does not denote the written date" },
        family: "date:valid",
      });
    }
  }
  // ---- B. times: every whole-minute offset, fraction lengths 0..9 (+ longer), zones
  let mut offsets: Vec<Z> = vec![Z::Local, Z::Zulu('Z'), Z::Zulu('z')];
  for o in -899..=899i64 {
    offsets.push(Z::Offset(o * 60));
  }
  for _ in 0..(60 * scale) {
    offsets.push(Z::Offset(rng.range(-53_999, 53_999)));
  }
  for o in [-53_999i64, 53_999, -1, 1, -59, 59, -3599, 3599, -3601, 3601] {
    offsets.push(Z::Offset(o));
  }
  for n in KNOWN_ZONES {
    offsets.push(Z::Named(n.to_string()));
  }
  for z in &offsets {
    let (h, mi, s) = (rng.range(0, 23), rng.range(0, 59), rng.range(0, 59));
    let frac = if rng.chance(1, 3) { String::new() } else { adversarial_fraction(rng) };
    let ns = if frac.is_empty() { 0 } else { frac_ns(&frac) };
    cs.push(Case {
      kind: "time",
      text: time_text(h, mi, s, &frac, z),
      expected: Some(format!("(time {} {} {} {} {})", h, mi, s, ns, z.obs())),
      sig: "C14 valid time literal does not denote the written time",
      family: "time:valid",
    });
  }
  for len in 0..=9usize {
    for _ in 0..(25 * scale) {
      let mut frac = adversarial_fraction(rng);
      frac.truncate(len.max(1));
      while frac.len() < len {
        frac.push(char::from(b'0' + rng.below(10) as u8));
      }
      if len == 0 {
        frac.clear();
      }
      let (h, mi, s) = (rng.range(0, 23), rng.range(0, 59), rng.range(0, 59));
      let z = rng.pick(&offsets).clone();
      let ns = if frac.is_empty() { 0 } else { frac_ns(&frac) };
      cs.push(Case {
        kind: "time",
        text: time_text(h, mi, s, &frac, &z),
        expected: Some(format!("(time {} {} {} {} {})", h, mi, s, ns, z.obs())),
        sig: "C14 valid time literal does not denote the written time",
        family: "time:valid",
      });
    }
  }
  for (frac, s) in [("99999999999999999999", 59), ("99999999999999999999", 0), ("9999999999", 30), ("0157", 0), ("000000001", 0), ("999999999", 59)] {
    cs.push(Case {
      kind: "time",
      text: time_text(10, 0, s, frac, &Z::Local),
      expected: Some(format!("(time 10 0 {} {} local)", s, frac_ns(frac))),
      sig: "C14 valid time literal does not denote the written time",
      family: "time:valid",
    });
  }
  // every zone identifier of the IANA list (thorough; a sample in the quick tier)
  for (i, n) in IANA_ZONES.iter().enumerate() {
    let special = n.chars().any(|c| !(c.is_ascii_alphabetic() || c == '_' || c == '/'));
    if thorough || special || i % 8 == 0 {
      cs.push(Case {
        kind: if i % 2 == 0 { "time" } else { "dt" },
        text: if i % 2 == 0 { format!("12:00:00@{}", n) } else { format!("2021-01-15T12:00:00@{}", n) },
        expected: Some(if i % 2 == 0 { format!("(time 12 0 0 0 (zone {}))", Sexp::str(n)) } else { format!("(dt 2021 1 15 12 0 0 0 (zone {}))", Sexp::str(n)) }),
        sig: if special { "C14 zone identifier containing a digit, '+' or '-' is rejected (ZONE_PATTERN)" } else { "zone-database-skew" },
        family: "zone:iana",
      });
    }
  }
  // ---- C. date-times
  for _ in 0..(400 * scale) {
    let y = *rng.pick(&all_years);
    let m = rng.range(1, 12);
    let d = rng.range(1, dim(y, m));
    let (h, mi, s) = (rng.range(0, 23), rng.range(0, 59), rng.range(0, 59));
    let frac = if rng.chance(1, 2) { String::new() } else { adversarial_fraction(rng) };
    let z = rng.pick(&offsets).clone();
    let ns = if frac.is_empty() { 0 } else { frac_ns(&frac) };
    cs.push(Case {
      kind: "dt",
      text: format!("{}T{}", date_text(y, m, d), time_text(h, mi, s, &frac, &z)),
      expected: Some(format!("(dt {} {} {} {} {} {} {} {})", y, m, d, h, mi, s, ns, z.obs())),
      sig: if y.abs() < 1000 { "C14 date literal with a year below 1000 (or above -1000) is rejected" } else { "C14 valid date and time literal does not denote the written value" },
      family: "dt:valid",
    });
  }
  cs.push(Case { kind: "dt", text: "2021-01-01".into(), expected: Some("(dt 2021 1 1 0 0 0 0 local)".into()), sig: "C14 date and time from a date-only text", family: "dt:valid" });
  // ---- D. durations
  let big = [0u64, 1, 23, 24, 25, 36, 59, 60, 61, 90, 100, 1000, 3599, 3600, 86_399, 86_400, 86_401, 999_999_999, u32::MAX as u64, i64::MAX as u64, u64::MAX];
  for mask in 1..16u32 {
    for _ in 0..(40 * scale) {
      let neg = rng.chance(1, 3);
      let mut total: i128 = 0;
      let mut t = String::from(if neg { "-P" } else { "P" });
      let mut comp = |rng: &mut Rng| -> u64 { if rng.chance(1, 3) { *rng.pick(&big) } else { rng.range(0, 200) as u64 } };
      if mask & 1 != 0 {
        let v = comp(rng);
        t += &format!("{}D", v);
        total += v as i128 * 86_400_000_000_000;
      }
      if mask & 14 != 0 {
        t.push('T');
      }
      if mask & 2 != 0 {
        let v = comp(rng);
        t += &format!("{}H", v);
        total += v as i128 * 3_600_000_000_000;
      }
      if mask & 4 != 0 {
        let v = comp(rng);
        t += &format!("{}M", v);
        total += v as i128 * 60_000_000_000;
      }
      if mask & 8 != 0 {
        let v = comp(rng);
        total += v as i128 * 1_000_000_000;
        if rng.chance(1, 2) {
          let frac = adversarial_fraction(rng);
          total += frac_ns(&frac) as i128;
          t += &format!("{}.{}S", v, frac);
        } else {
          t += &format!("{}S", v);
        }
      }
      if neg {
        total = -total;
      }
      cs.push(Case { kind: "dur", text: t, expected: Some(format!("(dtd {})", total)), sig: "C14 valid days and time duration literal does not denote the written length", family: "dtd:valid" });
    }
  }
  for mask in 1..4u32 {
    for _ in 0..(60 * scale) {
      let neg = rng.chance(1, 3);
      let mut total: i128 = 0;
      let mut t = String::from(if neg { "-P" } else { "P" });
      if mask & 1 != 0 {
        let v = *rng.pick(&[0u64, 1, 2, 10, 99, 1000, 999_999_999, 768_614_336_404_564_650]);
        t += &format!("{}Y", v);
        total += v as i128 * 12;
      }
      if mask & 2 != 0 {
        let v = *rng.pick(&[0u64, 1, 11, 12, 13, 14, 24, 100, 999_999_999, 7]);
        t += &format!("{}M", v);
        total += v as i128;
      }
      if neg {
        total = -total;
      }
      if total.abs() > i64::MAX as i128 {
        cs.push(Case { kind: "dur", text: t, expected: Some("null".into()), sig: "C14 duration literal beyond the representable maximum is not null", family: "dur:too-large" });
      } else {
        cs.push(Case { kind: "dur", text: t, expected: Some(format!("(ymd {})", total)), sig: "C14 valid years and months duration literal does not denote the written length", family: "ymd:valid" });
      }
    }
  }
  for (t, n) in [("P768614336404564650Y7M", i64::MAX as i128), ("-P768614336404564650Y7M", -(i64::MAX as i128))] {
    cs.push(Case { kind: "dur", text: t.into(), expected: Some(format!("(ymd {})", n)), sig: "C14 maximal years and months duration", family: "ymd:valid" });
  }
  // beyond the representable maximum: null is the specified answer
  for t in ["P768614336404564651Y", "P999999999999999999Y", "P9223372036854775808M", "-P9223372036854775808M", "P1537228672809129301Y", "P18446744073709551616M", "P99999999999999999999Y1M", "PT18446744073709551616S", "P18446744073709551616DT1S"] {
    cs.push(Case { kind: "dur", text: t.into(), expected: Some("null".into()), sig: "C14 duration literal beyond the representable maximum is not null", family: "dur:too-large" });
  }
  // ---- E. the invalid classes the property names
  let inv = |cs: &mut Vec<Case>, kind: &'static str, text: String, sig: &'static str| {
    cs.push(Case { kind, text, expected: Some("null".into()), sig, family: "invalid" });
  };
  for y in [1900i64, 2000, 2021, 2024, 999_999_999, -2021, 1000] {
    for (m, d) in [(2, 30), (2, 31), (4, 31), (6, 31), (9, 31), (11, 31), (1, 32), (12, 32), (13, 1), (0, 1), (99, 99)] {
      inv(&mut cs, "date", date_text(y, m, d), "C14 impossible calendar date is accepted");
      inv(&mut cs, "dt", format!("{}T10:00:00", date_text(y, m, d)), "C14 impossible calendar date is accepted");
    }
    if !is_leap(y) {
      inv(&mut cs, "date", date_text(y, 2, 29), "C14 impossible calendar date is accepted");
    }
    for m in 1..=12 {
      inv(&mut cs, "date", date_text(y, m, 0), "C14 day 0 is accepted in a date literal");
    }
    inv(&mut cs, "dt", format!("{}T10:00:00Z", date_text(y, 6, 0)), "C14 day 0 is accepted in a date literal");
  }
  for t in ["24:00:00", "24:00:01", "25:10:10", "99:00:00", "10:60:00", "10:99:00", "10:00:60", "10:00:61", "10:00:99", "23:59:60"] {
    inv(&mut cs, "time", t.to_string(), "C14 hour 24 or minute/second 60 and above is accepted");
    inv(&mut cs, "dt", format!("2021-01-01T{}", t), "C14 hour 24 or minute/second 60 and above is accepted");
    inv(&mut cs, "time", format!("{}Z", t), "C14 hour 24 or minute/second 60 and above is accepted");
  }
  for hh in 15..=99i64 {
    if hh < 20 || hh % 10 == 0 || hh == 99 {
      for sign in ['+', '-'] {
        inv(&mut cs, "time", format!("10:00:00{}{:02}:00", sign, hh), "C14 offset hours above 14 are accepted");
        inv(&mut cs, "dt", format!("2021-01-01T10:00:00{}{:02}:30", sign, hh), "C14 offset hours above 14 are accepted");
      }
    }
  }
  for (hh, mm) in [(0, 60), (5, 60), (14, 60), (14, 99), (1, 75), (0, 99)] {
    for sign in ['+', '-'] {
      inv(&mut cs, "time", format!("10:00:00{}{:02}:{:02}", sign, hh, mm), "C14 offset minutes or seconds of 60..99 are accepted");
      inv(&mut cs, "time", format!("10:00:00{}{:02}:00:{:02}", sign, hh, mm), "C14 offset minutes or seconds of 60..99 are accepted");
    }
  }
  for n in UNKNOWN_ZONES {
    inv(&mut cs, "time", format!("10:00:00@{}", n), "C14 unknown zone identifier is accepted");
    inv(&mut cs, "dt", format!("2021-01-01T10:00:00@{}", n), "C14 unknown zone identifier is accepted");
  }
  for t in ["", " ", "2021-01-01 ", " 2021-01-01", "2021-1-01", "2021-01-1", "21-01-01", "2021/01/01", "2021-01-01Z", "+2021-01-01", "--2021-01-01", "2021-01-01T", "20210101", "2021-01", "02021-01-01", "1234567890-01-01", "2021-01-01-01", "٢٠٢١-٠١-٠١"] {
    inv(&mut cs, "date", t.to_string(), "C14 malformed date text is accepted");
  }
  for t in ["", "10:00", "10", "1:00:00", "10:0:00", "10:00:0", "10.00.00", "10:00:00.", "10:00:00.Z", "10:00:00 Z", "10:00:00ZZ", "10:00:00+1:00", "10:00:00+01", "10:00:00+0100", "10:00:00+01:0", "10:00:00@", "10:00:00@Europe Warsaw", "10:00:00+01:00Z", "T10:00:00", "10:00:00,5", "10:00:00.5.5", "100:00:00"] {
    inv(&mut cs, "time", t.to_string(), "C14 malformed time text is accepted");
  }
  for t in ["2021-01-01t10:00:00", "2021-01-01 10:00:00", "2021-01-01T10:00", "2021-01-01TT10:00:00", "2021-01-01T10:00:00T", "T10:00:00", "2021-01-01T", "2021-01-01T10:00:00.", "2021-01-01T10:00:00+01:00@Europe/Warsaw"] {
    inv(&mut cs, "dt", t.to_string(), "C14 malformed date and time text is accepted");
  }
  for t in ["", "P", "-P", "PT", "P1", "1D", "P1S", "P1H", "PT1D", "P1DT", "P1DT1", "PT0.S", "PT.5S", "PT1.5M", "P1.5D", "P-1D", "+P1D", "P1D1H", "PT1S1M", "PT1M1H", "P1M1Y", "P1Y1D", "P1YT1H", "P1Y2M3DT4H", "p1d", "P1d", "P 1D", "P1D ", "PT1H2M3S4", "--P1D", "P1DT-1H", "PT1,5S"] {
    inv(&mut cs, "dur", t.to_string(), "C14 malformed duration text is accepted");
  }
  // ---- F. every single-character corruption of a corpus of valid literals
  let corpus: Vec<(&'static str, &'static str)> = vec![
    ("date", "2021-02-28"), ("date", "-1000-12-31"), ("date", "999999999-01-01"), ("date", "2024-02-29"),
    ("time", "10:20:30"), ("time", "23:59:59.999999999Z"), ("time", "00:00:00.5+01:30"), ("time", "10:00:00-14:59:59"), ("time", "12:00:00@Europe/Warsaw"), ("time", "12:00:00z"),
    ("dt", "2021-02-28T10:20:30"), ("dt", "2021-02-28T10:20:30.125-05:00"), ("dt", "-2021-02-28T23:59:59Z"), ("dt", "2021-06-01T12:00:00@Asia/Tokyo"),
    ("dur", "P1D"), ("dur", "-P1DT2H3M4.5S"), ("dur", "PT36H"), ("dur", "PT0.000000001S"), ("dur", "P1Y2M"), ("dur", "-P14M"), ("dur", "P10Y"), ("dur", "PT1M"),
    ("at", "2021-02-28"), ("at", "10:20:30Z"), ("at", "2021-02-28T10:20:30+01:00"), ("at", "P1Y2M"), ("at", "P1DT1H"),
  ];
  // durations of length zero, written in every way (their normal form is PT0S resp. P0M, without a sign)
  for lit in ["PT0S", "-PT0S", "P0D", "PT0H", "PT0M", "P0DT0H0M0S", "PT0.000000000S", "-P0DT0.0S", "P0M", "P0Y", "-P0M", "P0Y0M", "-P0Y0M"] {
    cs.push(Case { kind: "dur", text: lit.to_string(), expected: None, sig: "", family: "corpus" });
    cs.push(Case { kind: "at", text: lit.to_string(), expected: None, sig: "", family: "corpus" });
  }
  // `+`, `-`, `e`, `_` and `.`: what the number parsers of the standard library accept beyond digits
  let alphabet: Vec<char> = "09:-+.TZPx @/e_".chars().collect();
  let alphabet2: Vec<char> = "15zYMDHStE,\u{661}".chars().collect();
  for (kind, lit) in &corpus {
    let chars: Vec<char> = lit.chars().collect();
    cs.push(Case { kind, text: lit.to_string(), expected: None, sig: "", family: "corpus" });
    for i in 0..=chars.len() {
      let abc: Vec<char> = if thorough { alphabet.iter().chain(alphabet2.iter()).cloned().collect() } else { alphabet.clone() };
      for c in &abc {
        // insertion
        let mut v = chars.clone();
        v.insert(i, *c);
        cs.push(Case { kind, text: v.iter().collect(), expected: None, sig: "", family: "corrupt:insert" });
        // replacement
        if i < chars.len() && chars[i] != *c {
          let mut v = chars.clone();
          v[i] = *c;
          cs.push(Case { kind, text: v.iter().collect(), expected: None, sig: "", family: "corrupt:replace" });
        }
      }
      if i < chars.len() {
        let mut v = chars.clone();
        v.remove(i);
        cs.push(Case { kind, text: v.iter().collect(), expected: None, sig: "", family: "corrupt:delete" });
        if i + 1 < chars.len() && chars[i] != chars[i + 1] {
          let mut v = chars.clone();
          v.swap(i, i + 1);
          cs.push(Case { kind, text: v.iter().collect(), expected: None, sig: "", family: "corrupt:swap" });
        }
      }
    }
  }
  // ---- G. family `foreign`: every character of every literal form replaced by characters of other scripts
  // (decimal digits of forty scripts, digit-like characters, other dashes / pluses / colons / full stops /
  // commercial ats / slashes, full-width, mathematical and look-alike letters), and invisible characters
  // inserted at every position: such text is not a literal - null (written out: the grammar is ASCII)
  let foreign_corpus: Vec<(&'static str, &'static str)> = vec![
    ("date", "2021-02-28"), ("date", "-1000-12-31"), ("date", "999999999-01-01"), ("date", "0456-07-19"),
    ("time", "10:20:30"), ("time", "23:59:59.999999999Z"), ("time", "00:00:00.5+01:30"), ("time", "10:00:00-14:59:59"), ("time", "12:00:00@Europe/Warsaw"),
    ("time", "12:00:00z"), ("time", "10:20:30.125"), ("time", "08:15:47.6@Etc/GMT+1"), ("time", "16:37:09+05:00"), ("time", "04:05:06.0789-00:30"),
    ("dt", "2021-02-28T10:20:30"), ("dt", "2021-02-28T10:20:30.125-05:00"), ("dt", "-2021-02-28T23:59:59Z"), ("dt", "2021-06-01T12:00:00@Asia/Tokyo"),
    ("dt", "2020-09-28T16:37:09.123Z"), ("dt", "2021-02-28T10:20:30+05:30:15"), ("dt", "2021-02-28"), ("dt", "1999-12-31T23:59:59.5@America/Port-au-Prince"),
    ("dur", "P1D"), ("dur", "-P1DT2H3M4.5S"), ("dur", "PT36H"), ("dur", "PT0.000000001S"), ("dur", "P1Y2M"), ("dur", "-P14M"), ("dur", "P10Y"), ("dur", "PT1M"),
    ("dur", "P12DT10H"), ("dur", "PT90S"), ("dur", "P3DT4M"),
    ("at", "2021-02-28"), ("at", "10:20:30Z"), ("at", "2021-02-28T10:20:30+01:00"), ("at", "P1Y2M"), ("at", "P1DT1H"), ("at", "10:20:30.5-05:00"), ("at", "-PT0.25S"),
  ];
  let fsig = "C14 text with a character outside ASCII (a digit, sign or letter of another script) is accepted as a literal";
  for (li, (kind, lit)) in foreign_corpus.iter().enumerate() {
    let chars: Vec<char> = lit.chars().collect();
    for i in 0..chars.len() {
      let reps = foreign_replacements(chars[i]);
      for (k, (r, class)) in reps.iter().enumerate() {
        // quick tier: every digit position gets every third script (all scripts over three neighbouring
        // positions), and the Arabic-Indic, Devanagari, full-width and mathematical digits everywhere
        if !thorough && *class == "digit" && (k + i + li) % 3 != 0 && ![0usize, 3, 33, 36].contains(&k) {
          continue;
        }
        let mut v = chars.clone();
        v[i] = *r;
        cs.push(Case {
          kind,
          text: v.iter().collect(),
          expected: Some("null".into()),
          sig: fsig,
          family: match *class {
            "digit" => "foreign:digit of another script",
            "digit-like" => "foreign:digit-like character",
            "sign" => "foreign:sign",
            _ => "foreign:letter",
          },
        });
      }
    }
    for i in 0..=chars.len() {
      for (k, cp) in FOREIGN_INSERTIONS.iter().enumerate() {
        if !thorough && (k + i) % 2 != 0 {
          continue;
        }
        if let Some(ch) = char::from_u32(*cp) {
          let mut v = chars.clone();
          v.insert(i, ch);
          cs.push(Case { kind, text: v.iter().collect(), expected: Some("null".into()), sig: fsig, family: "foreign:invisible character inserted" });
        }
      }
    }
    // all digits of the literal in one other script at once
    for base in [0x0660u32, 0x0966, 0xFF10, 0x1D7CE] {
      let v: String = chars.iter().map(|c| if c.is_ascii_digit() { char::from_u32(base + (*c as u32 - 48)).unwrap_or(*c) } else { *c }).collect();
      if v != *lit {
        cs.push(Case { kind, text: v, expected: Some("null".into()), sig: fsig, family: "foreign:digit of another script" });
      }
    }
  }
  cs.retain(|c| !has_forbidden(&c.text));
  cs
}

/// Values that no literal denotes but constructors build: their text must read back too.
fn constructed_values(rng: &mut Rng, thorough: bool) -> Vec<(String, &'static str)> {
  let mut v: Vec<(String, &'static str)> = vec![];
  for y in [0i64, 1, 5, 99, 999, -1, -5, -99, -999, -1000, 1000, -999_999_999] {
    v.push((format!("date({},{},{})", y, 1, 1), "date"));
    v.push((format!("date and time(date({},{},{}), time(\"10:00:00Z\"))", y, 12, 31), "dt"));
  }
  let n = if thorough { 2000 } else { 300 };
  for _ in 0..n {
    let o = match rng.below(4) {
      0 => rng.range(-3599, -1),
      1 => rng.range(-53_999, 53_999),
      2 => 60 * rng.range(-59, -1),
      _ => 60 * rng.range(-899, 899),
    };
    let dur = format!("duration(\"{}PT{}S\")", if o < 0 { "-" } else { "" }, o.abs());
    v.push((format!("time({}, {}, {}, {})", rng.range(0, 23), rng.range(0, 59), rng.range(0, 59), dur), "time"));
  }
  for _ in 0..n {
    // time(h, m, s) with a decimal fraction of seconds (exact: decimal arithmetic)
    let ns = rng.range(0, 999_999_999);
    v.push((format!("time({}, {}, {}.{:09})", rng.range(0, 23), rng.range(0, 59), rng.range(0, 59), ns), "time"));
  }
  v
}

// ---------------------------------------------------------------------------------------------
// family `siblings`: literals that share a long prefix (or a long suffix) and differ only in a few
// characters, evaluated one after the other in one thread
//
// Every other family evaluates each text on its own. Here groups of three texts that differ only in
// their last 1..8 characters (fraction digits, sign / hours / minutes / seconds of the offset, the tail of
// a zone name among real IANA names with a common directory, the last designator of a duration), in a few
// leading characters, or only in the function they are given to, are evaluated in the order A, B, A, C, B —
// once as five separate evaluations and once as one list expression — and EVERY answer is judged against
// the value the Lean specification gives to that very text. A conversion that remembers, truncates or
// otherwise confuses texts shows up as a sibling's value (or null) in place of the text's own.

#[derive(Clone, Debug)]
struct Sib {
  kind: &'static str, // date time dt dur at
  text: String,
}

fn sib_expr(s: &Sib) -> String {
  if s.kind == "at" {
    format!("@\"{}\"", s.text)
  } else {
    format!("{}(\"{}\")", fn_of(s.kind), s.text)
  }
}

/// Evaluates FEEL text in a thread of its own (nothing an earlier evaluation may have left behind in
/// this thread is visible there).
fn feel_fresh(text: &str) -> String {
  let t = text.to_string();
  std::thread::spawn(move || feel(&t)).join().unwrap_or_else(|_| "(panic thread)".to_string())
}

fn digits(rng: &mut Rng, n: usize) -> String {
  (0..n).map(|_| char::from(b'0' + rng.below(10) as u8)).collect()
}

/// Three distinct digit strings of length `k`.
fn three_digit_tails(rng: &mut Rng, k: usize) -> Vec<String> {
  let mut v: Vec<String> = vec![];
  while v.len() < 3 {
    let d = match (v.len(), rng.below(4)) {
      (1, 0) => "0".repeat(k),
      (2, 0) => "9".repeat(k),
      _ => digits(rng, k),
    };
    if !v.contains(&d) {
      v.push(d);
    }
  }
  v
}

/// The windows A, B, C taken from a list of tails: one for three, every cyclic one for more.
fn windows(tails: &[String]) -> Vec<[String; 3]> {
  let n = tails.len();
  if n < 3 {
    return vec![];
  }
  let count = if n == 3 { 1 } else { n };
  (0..count).map(|i| [tails[i].clone(), tails[(i + 1) % n].clone(), tails[(i + 2) % n].clone()]).collect()
}

/// Zone names that share a long prefix: the members of the three-level directories in full (plus made-up
/// members), and runs of three neighbours of the sorted list of all identifiers with a long common prefix.
fn zone_windows(rng: &mut Rng, thorough: bool) -> Vec<[String; 3]> {
  let mut out: Vec<[String; 3]> = vec![];
  for dir in ["America/Indiana/", "America/Argentina/", "America/North_Dakota/", "America/Kentucky/"] {
    let mut names: Vec<String> = IANA_ZONES.iter().filter(|n| n.starts_with(dir)).map(|n| n.to_string()).collect();
    // made-up members of the same directory: a real name cut, extended and with its last letter replaced
    let first = names[0].clone();
    let last = names[names.len() - 1].clone();
    names.push(format!("{}x", first));
    names.insert(1, first[..first.len() - 1].to_string());
    names.push(format!("{}z", &last[..last.len() - 1]));
    names.push(format!("{}Nowhere", dir));
    out.extend(windows(&names));
  }
  let mut sorted: Vec<&str> = IANA_ZONES.to_vec();
  sorted.sort();
  let lcp = |a: &str, b: &str| a.bytes().zip(b.bytes()).take_while(|(x, y)| x == y).count();
  let mut near: Vec<[String; 3]> = vec![];
  for w in sorted.windows(3) {
    let p = lcp(w[0], w[1]).min(lcp(w[1], w[2]));
    if p >= 9 && w.iter().all(|n| n.len() - p <= 8) && !w[0].starts_with("America/Indiana/") && !w[0].starts_with("America/Argentina/") {
      near.push([w[0].to_string(), w[1].to_string(), w[2].to_string()]);
    }
  }
  let keep = if thorough { near.len() } else { 40 };
  while near.len() > keep {
    let i = rng.below(near.len() as u64) as usize;
    near.remove(i);
  }
  out.extend(near);
  out
}

fn sibling_groups(rng: &mut Rng, thorough: bool) -> Vec<(&'static str, Vec<Sib>)> {
  let mut gs: Vec<(&'static str, Vec<Sib>)> = vec![];
  let reps = if thorough { 4 } else { 1 };
  let dates = ["2021-10-11", "-2021-10-11", "1999-12-31", "123456-10-11", "-999999999-12-31", "999999999-01-01", "0044-03-15"];
  let dt_head = |rng: &mut Rng| format!("{}T{:02}:{:02}:{:02}", rng.pick(&dates), rng.range(3, 23), rng.range(0, 59), rng.range(0, 59));
  let t_head = |rng: &mut Rng| format!("{:02}:{:02}:{:02}", rng.range(3, 23), rng.range(0, 59), rng.range(0, 59));
  let group = |gs: &mut Vec<(&'static str, Vec<Sib>)>, label: &'static str, kind: &'static str, head: &str, tails: &[String; 3], suffix: &str| {
    gs.push((label, tails.iter().map(|t| Sib { kind, text: format!("{}{}{}", head, t, suffix) }).collect()));
  };
  // ---- 1. the last 1..8 digits of the fraction (nothing after them, or a fixed zone after them)
  let suffixes = ["", "", "Z", "+05:30", "-11:45", "@Europe/Warsaw", "@America/Argentina/Buenos_Aires", "@America/North_Dakota/New_Salem"];
  for _ in 0..reps {
    for k in 1..=8usize {
      for suffix in suffixes {
        for kind in ["dt", "time"] {
          // common digits before the differing ones: the fraction has k..9 digits, sometimes more
          let common = match rng.below(4) {
            0 => 0,
            1 => 9 - k,
            2 => rng.range(0, (9 - k) as i64) as usize,
            _ => rng.range(0, 14) as usize,
          };
          let head = format!("{}.{}", if kind == "dt" { dt_head(rng) } else { t_head(rng) }, digits(rng, common));
          let tails = three_digit_tails(rng, k);
          group(&mut gs, "fraction", kind, &head, &[tails[0].clone(), tails[1].clone(), tails[2].clone()], suffix);
        }
      }
    }
  }
  // ---- 2. the offset: minutes, hours, sign, seconds (valid and invalid ones)
  let offset_sets: Vec<(&'static str, Vec<&'static str>)> = vec![
    ("offset:minutes", vec!["+05:00", "+05:30", "+05:45", "+05:59", "+05:60", "+05:99", "+05:01"]),
    ("offset:hours", vec!["+04:30", "+05:30", "+14:30", "+15:30", "+00:30", "+10:30", "+99:30"]),
    ("offset:sign", vec!["+05:30", "-05:30", "+05:31", "-05:31"]),
    ("offset:sign-hour", vec!["-14:00", "+14:00", "-04:00", "+04:00", "-00:00", "+00:00"]),
    ("offset:seconds", vec!["+05:30:15", "+05:30:45", "+05:30:59", "+05:30:60", "-05:30:15", "+05:30:00"]),
    ("offset:zulu", vec!["Z", "z", "", "Y"]),
  ];
  for _ in 0..reps {
    for (label, set) in &offset_sets {
      let tails: Vec<String> = set.iter().map(|s| s.to_string()).collect();
      for w in windows(&tails) {
        for kind in ["dt", "time"] {
          let flen = *rng.pick(&[0usize, 0, 3, 6, 8, 9, 9, 12, 20]);
          let head = format!("{}{}{}", if kind == "dt" { dt_head(rng) } else { t_head(rng) }, if flen > 0 { "." } else { "" }, digits(rng, flen));
          group(&mut gs, label, kind, &head, &w, "");
        }
      }
    }
  }
  // ---- 3. the tail of the zone name
  for w in zone_windows(rng, thorough) {
    for kind in ["dt", "time", "dt"] {
      let flen = *rng.pick(&[0usize, 0, 2, 4, 8, 9, 12]);
      let head = format!("{}{}{}@", if kind == "dt" { dt_head(rng) } else { t_head(rng) }, if flen > 0 { "." } else { "" }, digits(rng, flen));
      group(&mut gs, "zone-name", kind, &head, &w, "");
    }
  }
  // ---- 4. dates (short texts: a conversion may confuse those as well)
  for _ in 0..(4 * reps) {
    let y = *rng.pick(&["2021", "-2021", "123456789", "-999999999", "0001", "10000"]);
    let tails = ["28", "29", "30", "31", "00", "01"];
    let i = rng.below(4) as usize;
    group(&mut gs, "date:day", "date", &format!("{}-{:02}-", y, rng.range(1, 12)), &[tails[i].to_string(), tails[i + 1].to_string(), tails[i + 2].to_string()], "");
    let m = three_digit_tails(rng, 1);
    group(&mut gs, "date:month", "date", &format!("{}-0", y), &[m[0].clone(), m[1].clone(), m[2].clone()], "-15");
  }
  // ---- 5. durations: the last digits of the seconds, the last designator, the months
  for _ in 0..reps {
    for k in 1..=8usize {
      let days = *rng.pick(&["1", "123456789", "18446744073709551615", "999999999999"]);
      let common = rng.range(0, (9 - k) as i64) as usize;
      let head = format!("{}P{}DT{}H{}M{}.{}", if rng.chance(1, 3) { "-" } else { "" }, days, rng.range(0, 99), rng.range(0, 99), rng.range(0, 59), digits(rng, common));
      let tails = three_digit_tails(rng, k);
      group(&mut gs, "duration:fraction", "dur", &head, &[tails[0].clone(), tails[1].clone(), tails[2].clone()], "S");
      let nd = rng.range(1, 18) as usize;
      let head = format!("P{}DT{}H", digits(rng, nd), rng.range(0, 23));
      let tails = three_digit_tails(rng, k.min(6));
      group(&mut gs, "duration:minutes", "dur", &head, &[tails[0].clone(), tails[1].clone(), tails[2].clone()], "M");
    }
    for head in ["P123456789DT12H30", "-P18446744073709551615DT23H59", "PT99999999999999", "P1DT1H1M1"] {
      for w in windows(&["M".to_string(), "S".to_string(), "H".to_string(), ".5S".to_string(), "M1S".to_string(), "D".to_string()]) {
        group(&mut gs, "duration:designator", "dur", head, &w, "");
      }
    }
    for head in ["P768614336404564650Y", "-P768614336404564650Y", "P12345678901234567Y1", "P99Y"] {
      for w in windows(&["7M".to_string(), "8M".to_string(), "1M".to_string(), "0M".to_string(), "11M".to_string()]) {
        group(&mut gs, "duration:months", "dur", head, &w, "");
      }
    }
  }
  // ---- 6. a few leading characters differ, the long rest is common
  for _ in 0..(3 * reps) {
    let rest = format!("-10-11T{}.{}{}", t_head(rng), digits(rng, 9), rng.pick(&["@America/Argentina/Buenos_Aires", "+05:30", "Z", "@America/Indiana/Tell_City"]));
    group(&mut gs, "head:year", "dt", "", &["2021".to_string(), "2022".to_string(), "3021".to_string()], &rest);
    group(&mut gs, "head:sign", "dt", "", &["2021".to_string(), "-2021".to_string(), "12021".to_string()], &rest);
    let rest = format!(":{:02}:{:02}.{}{}", rng.range(0, 59), rng.range(0, 59), digits(rng, 9), rng.pick(&["@America/Argentina/Buenos_Aires", "+05:30:15", "@America/Kentucky/Monticello"]));
    group(&mut gs, "head:hour", "time", "", &["10".to_string(), "11".to_string(), "20".to_string()], &rest);
    let rest = format!("DT23H59M59.{}S", digits(rng, 9));
    group(&mut gs, "head:days", "dur", "", &["P1".to_string(), "P2".to_string(), "-P1".to_string()], &rest);
  }
  // ---- corpus: the sequences a per-thread cache keyed by the first 32 bytes of the text was first seen on
  group(&mut gs, "corpus", "dt", "2021-10-11T10:20:30@America/Indiana/", &["Knox".to_string(), "Vevay".to_string(), "Nowhere".to_string()], "");
  group(&mut gs, "corpus", "dt", "2021-10-11T10:20:30.12345678", &["+05:00".to_string(), "+05:30".to_string(), "+05:99".to_string()], "");
  group(&mut gs, "corpus", "time", "10:20:30.0625@America/Argentina/", &["Salta".to_string(), "Jujuy".to_string(), "Nowhere".to_string()], "");
  // ---- 7. the same groups as `@"…"` literals (every fourth)
  let at: Vec<(&'static str, Vec<Sib>)> = gs.iter().enumerate().filter(|(i, _)| i % 4 == 1).map(|(_, (l, m))| (*l, m.iter().map(|s| Sib { kind: "at", text: s.text.clone() }).collect())).collect();
  gs.extend(at);
  // ---- 8. one text, different functions (and a sibling text through the same function)
  for t in [
    "2021-02-10", "2021-02-10T10:20:30", "10:20:30", "P1D", "P1Y", "2021-10-11T10:20:30.12345678@America/Indiana/Knox", "10:20:30.123456789012@America/Argentina/Salta",
    "-999999999-12-31T23:59:59.999999999+14:59:59", "-P18446744073709551615DT23H59M59.999999999S",
  ] {
    let ks: Vec<&'static str> = vec!["date", "dt", "time", "dur", "at"];
    for i in 0..ks.len() {
      gs.push(("one-text-different-functions", vec![Sib { kind: ks[i], text: t.to_string() }, Sib { kind: ks[(i + 1) % 5], text: t.to_string() }, Sib { kind: ks[(i + 2) % 5], text: t.to_string() }]));
    }
  }
  gs.retain(|(_, m)| m.iter().all(|s| !has_forbidden(&s.text)));
  gs
}

fn run_siblings(rep: &mut Report, model: &mut Model, rng: &mut Rng, thorough: bool) {
  let groups = sibling_groups(rng, thorough);
  // the zone oracle, asked in a thread of its own with a short text
  let mut zone_known: std::collections::HashMap<String, bool> = std::collections::HashMap::new();
  let mut reqs: Vec<String> = vec![];
  for (_, members) in &groups {
    for s in members {
      let known = match s.text.find('@') {
        Some(i) => {
          let name = s.text[i + 1..].to_string();
          *zone_known.entry(name.clone()).or_insert_with(|| feel_fresh(&format!("date and time(\"2021-01-15T12:00:00@{}\")", name)).starts_with("(dt"))
        }
        None => true,
      };
      reqs.push(format!("(c14 lit {} {} {})", s.kind, known, Sexp::str(&s.text)));
    }
  }
  let answers = model.ask_batch(&reqs);
  const ORDER: [usize; 5] = [0, 1, 0, 2, 1];
  for (gi, (label, members)) in groups.iter().enumerate() {
    let spec: Vec<String> = (0..3).map(|k| answers[3 * gi + k].clone()).collect();
    let exprs: Vec<String> = members.iter().map(sib_expr).collect();
    let seq_text = format!("[{}]", ORDER.iter().map(|i| exprs[*i].clone()).collect::<Vec<_>>().join(", "));
    // five evaluations one after the other in this thread, then all five in one expression
    let separate: Vec<String> = ORDER.iter().map(|i| norm(&feel(&exprs[*i]))).collect();
    let together: Vec<String> = feel_list(&seq_text).iter().map(|s| norm(s)).collect();
    let fresh: Vec<String> = exprs.iter().map(|e| norm(&feel_fresh(e))).collect();
    let want: Vec<String> = ORDER.iter().map(|i| spec[*i].clone()).collect();
    let len = members.iter().map(|s| s.text.chars().count()).max().unwrap_or(0);
    rep.hit(&format!("siblings:{}", label));
    rep.hit(&format!("siblings-length:{}", if len < 20 { "below 20" } else if len <= 32 { "20..32" } else if len <= 45 { "33..45" } else { "46 and more" }));
    for (p, i) in ORDER.iter().enumerate() {
      rep.case(&format!("siblings {} {} {} {}", gi, p, members[*i].kind, members[*i].text), true);
      rep.hit(if want[p] == "null" { "siblings-outcome:null" } else { "siblings-outcome:value" });
    }
    if members.iter().any(|s| s.text.contains('@') && (s.kind == "time" || s.kind == "at")) && (separate.iter().chain(fresh.iter()).any(|o| o == "panic")) {
      // reading a time in a named zone looks up today's offset there (finding F6)
      rep.disagree(Kind::ImplVsSpec, "literal_exact", "C14 time literal in a named zone: today's local time does not exist or is ambiguous (panic)", &seq_text, &separate.join(" "), &want.join(" "));
      continue;
    }
    for (how, got) in [("evaluated one after the other", &separate), ("evaluated in one list expression", &together)] {
      if got == &want {
        continue;
      }
      if got.len() != want.len() {
        rep.disagree(Kind::ImplVsSpec, "siblings", "C14 siblings: a sequence of literals does not evaluate to a list of their values", &seq_text, &got.join(" "), &want.join(" "));
        continue;
      }
      let p = (0..5).find(|p| got[*p] != want[*p]).unwrap();
      let i = ORDER[p];
      let sig = if (0..3).any(|j| j != i && spec[j] != spec[i] && got[p] == spec[j]) {
        "C14 siblings: a literal evaluated after a literal that shares its beginning (or its end) gets that literal's value, not the one its own text denotes"
      } else if fresh[i] == spec[i] || (0..5).any(|q| ORDER[q] == i && got[q] == spec[i]) {
        "C14 siblings: what a literal denotes depends on the literals evaluated before it"
      } else {
        "C14 siblings: a literal does not denote what the specification gives for its text"
      };
      rep.disagree(Kind::ImplVsSpec, "siblings", sig, &seq_text, &format!("{}: {}", how, got.join(" ")), &want.join(" "));
    }
    for k in 0..3 {
      if fresh[k] != spec[k] && separate == want {
        rep.disagree(Kind::ImplVsSpec, "siblings", "C14 siblings: a literal evaluated in a thread of its own does not denote what the specification gives for its text", &exprs[k], &fresh[k], &spec[k]);
      }
    }
    if gi % 97 == 5 && rep.samples.len() < 12 {
      rep.sample(json!({"sequence": seq_text, "values": separate, "specification": want}));
    }
  }
  rep.extra.insert("sibling_groups".into(), json!(groups.len()));
}

// ---------------------------------------------------------------------------------------------
// Family `zone-instant`: what a literal with a NAMED zone denotes.
//
// "Named IANA zones ... denote exactly the written value": the value written is a wall-clock time of the
// zone; it is the instant `local fields − offset`, the offset being the one the zone's rules give FOR THAT
// LOCAL TIME. The rules come from corpus/C14/zone_transitions.json (python3 zoneinfo; regenerable with
// corpus/C14/zone_transitions.py): per zone the offset at 1800-01-01 and every transition up to 2038. The
// oracle below is interval arithmetic over that table and nothing else:
//   an offset `o` is in force for the local time `L`  iff  the zone's offset at the instant `L − o` is `o`.
// Exactly one such offset: the literal denotes `L − o`, equals the `Z` literal of that instant, its
// `time offset` is `o`, its text is what was written. None (the local time is skipped by the transition): the
// property names no instant for it - the text lists the classes that are null and this is not one of
// them, and it demands of every value that its text reads back as an equal value; so the literal is either
// null, or a value without an instant (no `time offset`) that still prints as written. Two (the local time
// is repeated): the text does not say which; either of the two or no instant is accepted, anything else is
// not. Literals: every hour and half hour within ±(|offset| + 2 h) of every transition of every zone of the
// table (both wall clocks, before and after), plus the last second before and the first second after.

/// Offset at the start and `(instant, offset from then on)`; `since` / `until`: nothing is generated outside
/// (the database bundled with chrono-tz is older than the one the table was made from; the generator of the
/// table says for each zone which release changed what).
pub(crate) struct ZoneTable {
  pub(crate) name: String,
  pub(crate) initial: i64,
  pub(crate) trs: Vec<(i64, i64)>,
  pub(crate) since: i64,
  pub(crate) until: i64,
}

impl ZoneTable {
  /// The offsets in force for the local time `local` (seconds on the naive line): 0, 1 or 2 of them.
  pub(crate) fn offsets_for_local(&self, local: i64) -> Vec<i64> {
    let mut out: Vec<i64> = vec![];
    let n = self.trs.len();
    // segment k: [start_k, end_k) with offset o_k; segment 0 starts at minus infinity
    for k in 0..=n {
      let o = if k == 0 { self.initial } else { self.trs[k - 1].1 };
      let start = if k == 0 { i64::MIN } else { self.trs[k - 1].0 };
      let end = if k == n { i64::MAX } else { self.trs[k].0 };
      let t = local - o;
      if start <= t && t < end && !out.contains(&o) {
        out.push(o);
      }
    }
    out
  }
}

pub(crate) fn load_zone_tables(rep: &mut Report) -> Vec<ZoneTable> {
  let path = concat!(env!("CARGO_MANIFEST_DIR"), "/../corpus/C14/zone_transitions.json");
  let table: serde_json::Value = std::fs::read_to_string(path).ok().and_then(|t| serde_json::from_str(&t).ok()).unwrap_or(json!({}));
  let mut out = vec![];
  if let Some(zs) = table["zones"].as_object() {
    for (name, v) in zs {
      let trs: Vec<(i64, i64)> = v["transitions"].as_array().cloned().unwrap_or_default().iter().filter_map(|p| Some((p[0].as_i64()?, p[1].as_i64()?))).collect();
      if let (Some(initial), Some(since), Some(until)) = (v["initial"].as_i64(), v["since"].as_i64(), v["until"].as_i64()) {
        out.push(ZoneTable { name: name.clone(), initial, trs, since, until });
      }
    }
  }
  if out.is_empty() {
    rep.disagree(Kind::ImplVsModel, "zone-instant", "corpus/C14/zone_transitions.json not found or empty", path, "", "the table of zone transitions");
  }
  out
}

pub(crate) fn zi_days_from_civil_pub(y: i64, m: i64, d: i64) -> i64 {
  zi_days_from_civil(y, m, d)
}

fn zi_days_from_civil(y: i64, m: i64, d: i64) -> i64 {
  let y = if m <= 2 { y - 1 } else { y };
  let era = y.div_euclid(400);
  let yoe = y - era * 400;
  let mp = (m + 9) % 12;
  let doy = (153 * mp + 2) / 5 + d - 1;
  let doe = yoe * 365 + yoe / 4 - yoe / 100 + doy;
  era * 146_097 + doe - 719_468
}

fn zi_civil_from_days(z: i64) -> (i64, i64, i64) {
  let z = z + 719_468;
  let era = z.div_euclid(146_097);
  let doe = z - era * 146_097;
  let yoe = (doe - doe / 1460 + doe / 36_524 - doe / 146_096) / 365;
  let y = yoe + era * 400;
  let doy = doe - (365 * yoe + yoe / 4 - yoe / 100);
  let mp = (5 * doy + 2) / 153;
  let d = doy - (153 * mp + 2) / 5 + 1;
  let m = if mp < 10 { mp + 3 } else { mp - 9 };
  (if m <= 2 { y + 1 } else { y }, m, d)
}

/// `YYYY-MM-DDThh:mm:ss[.fffffffff]` of seconds on the naive line.
pub(crate) fn zi_local_text(local: i64, ns: i64) -> String {
  let (y, m, d) = zi_civil_from_days(local.div_euclid(86_400));
  let sod = local.rem_euclid(86_400);
  let frac = if ns > 0 { format!(".{}", format!("{:09}", ns).trim_end_matches('0')) } else { String::new() };
  format!("{:04}-{:02}-{:02}T{:02}:{:02}:{:02}{}", y, m, d, sod / 3600, sod % 3600 / 60, sod % 60, frac)
}

fn zi_time_text(sod: i64) -> String {
  format!("{:02}:{:02}:{:02}", sod / 3600, sod % 3600 / 60, sod % 60)
}

fn zi_class(n: usize) -> &'static str {
  match n {
    0 => "skipped",
    1 => "plain",
    _ => "repeated",
  }
}

/// The nine changes of rules (among the zones of the table) whose time of day the zone database gives in UTC
/// (`1:00u`) or standard time (`2:00s`): chrono-tz 0.6.3 / parse-zoneinfo 0.3.1 reads it as wall-clock time and
/// places the change some hours off (finding F30-zone-until-suffix). Disagreements on these local dates get a
/// signature of their own, so that they do not use up the quota of reported disagreements of the general one.
const ZI_MISPLACED: [(&str, &str); 9] = [
  ("Asia/Tokyo", "1887-12-31"),
  ("Europe/Dublin", "1916-10-01"),
  ("Europe/Dublin", "1946-10-06"),
  ("Europe/Dublin", "1947-11-02"),
  ("Europe/Istanbul", "2011-03-28"),
  ("Europe/Istanbul", "2014-03-31"),
  ("Europe/Istanbul", "2015-11-08"),
  ("Europe/London", "1971-10-31"),
  ("Europe/Moscow", "1919-07-01"),
];

fn zi_misplaced(written: &str) -> &'static str {
  if ZI_MISPLACED.iter().any(|(z, d)| written.starts_with(d) && written.ends_with(&format!("@{}", z))) {
    " (a change of rules timed in UTC or standard time in the zone database, which chrono-tz 0.6.3 misplaces)"
  } else {
    ""
  }
}

/// Judges the answers `[v.time offset, v = u (or v = v), string(v), v - u]` of one literal.
fn zi_judge(rep: &mut Report, what: &str, input: &str, written: &str, offs: &[i64], r: &[String], with_utc: bool) {
  let want_text = Sexp::str(written).to_string();
  if r.len() < 3 {
    let o = norm(r.first().map(|s| s.as_str()).unwrap_or("null"));
    if o == "panic" {
      rep.disagree(Kind::ImplVsSpec, "zone-instant", &format!("C14 named zone: reading or comparing a {} with a {} local time panics", what, zi_class(offs.len())), input, "panic", "a value or null");
    } else if offs.len() == 1 {
      rep.disagree(Kind::ImplVsSpec, "zone-instant", &format!("C14 named zone: a {} whose local time exists once in the zone is not a value", what), input, &o, "a value");
    } else {
      rep.hit(&format!("zone-instant:{}:{}:literal-null", what.replace(' ', "-"), zi_class(offs.len())));
    }
    return;
  }
  let off_obs = r[0].clone();
  let got_off: Option<i64> = if off_obs.starts_with("(dtd ") { off_obs[5..off_obs.len() - 1].parse::<i128>().ok().map(|n| (n / 1_000_000_000) as i64) } else { None };
  if norm(&off_obs) == "panic" || norm(&r[1]) == "panic" || norm(&r[2]) == "panic" {
    rep.disagree(Kind::ImplVsSpec, "zone-instant", &format!("C14 named zone: reading or comparing a {} with a {} local time panics", what, zi_class(offs.len())), input, "panic", "a value or null");
    return;
  }
  // printing back as written: every value
  if r[2] != want_text {
    rep.disagree(Kind::ImplVsSpec, "zone-instant", &format!("C14 named zone: the text of a {} is not what was written", what), input, &r[2], &want_text);
  }
  match offs.len() {
    1 => {
      let o = offs[0];
      let want_off = format!("(dtd {})", o as i128 * 1_000_000_000);
      let mut got = vec![];
      let mut want = vec![];
      if off_obs != want_off {
        got.push(format!("time offset {}", off_obs));
        want.push(format!("time offset {}", want_off));
      }
      if with_utc && r[1] != "true" {
        got.push(format!("v = u {}", r[1]));
        want.push("v = u true".to_string());
      }
      if with_utc && r.len() > 3 && r[3] != "(dtd 0)" {
        got.push(format!("v - u {}", r[3]));
        want.push("v - u (dtd 0)".to_string());
      }
      if !got.is_empty() {
        rep.disagree(Kind::ImplVsSpec, "zone-instant", &format!("C14 named zone: a {} does not denote the instant local time minus the offset of the zone's rules{}", what, zi_misplaced(written)), input, &got.join("; "), &want.join("; "));
      }
    }
    0 => {
      // no instant has this wall clock: a value may exist (it prints as written) but it denotes no instant
      if got_off.is_some() || r[1] == "true" || r[1] == "false" {
        rep.disagree(Kind::ImplVsSpec, "zone-instant", &format!("C14 named zone: a {} whose local time is skipped in the zone denotes an instant{}", what, zi_misplaced(written)), input, &format!("time offset {}, v = v {}", off_obs, r[1]), "no time offset, incomparable (or a null literal)");
      } else {
        rep.hit(&format!("zone-instant:{}:skipped:no-instant", what.replace(' ', "-")));
      }
    }
    _ => match got_off {
      Some(g) if !offs.contains(&g) => {
        rep.disagree(Kind::ImplVsSpec, "zone-instant", &format!("C14 named zone: a {} whose local time is repeated gets an offset that is neither of the two in force", what), input, &off_obs, &format!("{:?} or none", offs));
      }
      Some(_) => rep.hit(&format!("zone-instant:{}:repeated:one-of-the-two", what.replace(' ', "-"))),
      None => rep.hit(&format!("zone-instant:{}:repeated:no-instant", what.replace(' ', "-"))),
    },
  }
}

fn run_zone_instant(rep: &mut Report, model: &mut Model, thorough: bool) {
  let zones = load_zone_tables(rep);
  let mut n_lit = 0usize;
  for z in &zones {
    if !feel(&format!("time(\"12:00:00@{}\")", z.name)).starts_with("(time") {
      rep.hit("zone-instant:zone-unknown-to-the-bundled-database");
      continue;
    }
    // ---- date and time literals around every transition
    let mut locals: Vec<(i64, i64)> = vec![]; // (local seconds, nanoseconds)
    let mut prev = z.initial;
    for (t, o) in &z.trs {
      let (ob, oa) = (prev, *o);
      prev = *o;
      let w = ob.abs().max(oa.abs()) + 7200;
      let lo = (*t + ob.min(oa) - w).div_euclid(1800) * 1800;
      let hi = *t + ob.max(oa) + w;
      let mut l = lo;
      while l <= hi {
        locals.push((l, 0));
        l += 1800;
      }
      // the edges to the second and to the nanosecond, on both wall clocks
      for e in [*t + ob - 1, *t + ob, *t + oa - 1, *t + oa] {
        locals.push((e, 0));
        locals.push((e, 999_999_999));
        locals.push((e, 1));
      }
    }
    if !thorough {
      // quick tier: the half-hour grid in full; the edges of every third transition
      let mut k = 0usize;
      locals.retain(|(l, ns)| {
        if l % 1800 == 0 && *ns == 0 {
          true
        } else {
          let keep = k % 36 < 12;
          k += 1;
          keep
        }
      });
    }
    locals.sort();
    locals.dedup();
    locals.retain(|(l, _)| !(*l + 54_000 >= z.until || *l - 54_000 < z.since));
    // the same question to the Lean specification (`ZoneRules.offsetsForLocal`: "the instant l − o has the
    // offset o", a fold over the transitions) - a second statement of the oracle, compared on every literal
    let req = format!(
      "(c14 zonelocal {} ({}) ({}))",
      z.initial,
      z.trs.iter().map(|(t, o)| format!("{} {}", t, o)).collect::<Vec<_>>().join(" "),
      locals.iter().map(|(l, _)| l.to_string()).collect::<Vec<_>>().join(" ")
    );
    let ans = model.ask(&req);
    let spec: Vec<Vec<i64>> = match Sexp::parse(&ans).and_then(|s| s.as_list().map(|l| l.to_vec())) {
      Some(items) => items.iter().map(|it| it.as_list().map(|l| l.iter().filter_map(|x| x.to_string().parse::<i64>().ok()).collect()).unwrap_or_default()).collect(),
      None => vec![],
    };
    if spec.len() != locals.len() {
      rep.disagree(Kind::ImplVsModel, "zone-instant", "driver-error (c14 zonelocal)", &z.name, &ans.chars().take(80).collect::<String>(), "one list of offsets per local time");
    }
    for (i, (l, ns)) in locals.iter().enumerate() {
      let offs = z.offsets_for_local(*l);
      if let Some(sp) = spec.get(i) {
        let (mut a, mut b) = (offs.clone(), sp.clone());
        a.sort();
        b.sort();
        if a != b {
          rep.disagree(Kind::ImplVsModel, "zone-instant", "harness: the interval oracle and the Lean specification of the zone rules differ", &format!("{} local {}", z.name, l), &format!("{:?}", a), &format!("{:?}", b));
        }
      }
      let written = format!("{}@{}", zi_local_text(*l, *ns), z.name);
      let lit = if i % 2 == 0 { format!("date and time(\"{}\")", written) } else { format!("@\"{}\"", written) };
      let (e, with_utc) = if offs.len() == 1 {
        (format!("{{v: {}, u: date and time(\"{}Z\"), r: [v.time offset, v = u, string(v), v - u]}}.r", lit, zi_local_text(*l - offs[0], *ns)), true)
      } else {
        (format!("{{v: {}, r: [v.time offset, v = v, string(v)]}}.r", lit), false)
      };
      let r = feel_list(&e);
      n_lit += 1;
      rep.case(&e, true);
      rep.hit(&format!("family:zone-instant:{}", zi_class(offs.len())));
      zi_judge(rep, "date and time literal", &e, &written, &offs, &r, with_utc);
    }
  }
  // ---- time literals: the offset is the one in force today (the clock is an input of `time("…@zone")`)
  let today = |()| -> Option<(i64, i64, i64)> { guarded(|| { let d = dmntk_feel::FeelDate::today_local(); (d.year() as i64, d.month() as i64, d.day() as i64) }).ok() };
  if let Some((y, m, d)) = today(()) {
    let day0 = zi_days_from_civil(y, m, d) * 86_400;
    for z in &zones {
      if day0 + 86_400 + 54_000 >= z.until || day0 - 54_000 < z.since || !feel(&format!("time(\"12:00:00@{}\")", z.name)).starts_with("(time") {
        continue;
      }
      // the Lean statement of the same question (`timeOffsetOn`, theorem time_zone_literal_denotes: the offset of
      // `time("…@zone")` on the day `today` under the rules of the zone), compared with the interval oracle
      let req = format!(
        "(c15 localoff {} ({}) ({}))",
        z.initial,
        z.trs.iter().map(|(t, o)| format!("{} {}", t, o)).collect::<Vec<_>>().join(" "),
        (0..48).map(|k| format!("({} {} {} {} {} 0 0 local)", y, m, d, k / 2, (k % 2) * 30)).collect::<Vec<_>>().join(" ")
      );
      let ans = model.ask(&req);
      let lean: Vec<String> = Sexp::parse(&ans).and_then(|s| s.as_list().map(|l| l.iter().map(|it| it.as_list().and_then(|p| p.first().map(|x| x.to_string())).unwrap_or_default()).collect())).unwrap_or_default();
      if lean.len() != 48 {
        rep.disagree(Kind::ImplVsModel, "zone-instant", "driver-error (c15 localoff)", &z.name, &ans.chars().take(80).collect::<String>(), "one pair of offsets per time");
      }
      for k in 0..48 {
        let sod = k * 1800;
        let offs = z.offsets_for_local(day0 + sod);
        if let Some(l) = lean.get(k as usize) {
          let want = if offs.len() == 1 { offs[0].to_string() } else { "none".to_string() };
          if l != &want {
            rep.disagree(Kind::ImplVsModel, "zone-instant", "harness: the interval oracle and the Lean timeOffsetOn differ", &format!("{} today {}", z.name, zi_time_text(sod)), &want, l);
          }
        }
        let written = format!("{}@{}", zi_time_text(sod), z.name);
        let e = format!("{{v: time(\"{}\"), r: [v.time offset, v = v, string(v)]}}.r", written);
        let r = feel_list(&e);
        if today(()) != Some((y, m, d)) {
          rep.notes.push("zone-instant: the date changed during the run, time literals not judged".into());
          break;
        }
        rep.case(&e, true);
        rep.hit(&format!("family:zone-instant:time:{}", zi_class(offs.len())));
        zi_judge(rep, "time literal", &e, &written, &offs, &r, false);
      }
    }
  }
  rep.notes.push(format!("zone-instant: {} date and time literals over {} zones", n_lit, zones.len()));
}

pub fn run(cfg: &Cfg) -> Report {
  match guarded(|| run_inner(cfg)) {
    Ok(r) => r,
    Err(m) => {
      eprintln!("C14 harness failed: {}", m);
      std::process::exit(3);
    }
  }
}

fn run_inner(cfg: &Cfg) -> Report {
  let mut rep = Report::new(
    "C14",
    "temporal literals through date(), time(), date and time(), duration(), @\"…\" and string(): valid values written by the harness (years stratified over ±999999999, every whole-minute offset −14:59…+14:59, fractions of 0…9 and more digits with adversarial patterns, known zone names, all 15 component patterns of days-and-time durations with normalisation-needing and maximal components, years-and-months durations up to i64 months), the invalid classes named by the property, every single-character insertion/replacement/deletion/swap over a 27-literal corpus, values only constructors build, and `siblings`: groups of three literals of 10…70 characters that differ only in their last 1…8 characters (fraction digits, sign/hours/minutes/seconds of the offset, the tail of a zone name among IANA names of one directory, the last designator or digits of a duration), in a few leading characters, or only in the function they are given to, evaluated in the order A, B, A, C, B in one thread (five evaluations, then one list expression) with every answer judged against the Lean specification of its own text. Non-trivial: every case (distinct by kind and text).",
  );
  if probe_if_requested() {
    return rep;
  }
  note_replay(cfg, &mut rep);
  let thorough = cfg.tier == "thorough";
  let mut rng = Rng::new(cfg.seed);
  let mut model = Model::start(&cfg.driver);
  let mut zone_cache = std::collections::HashMap::new();
  // sanity of the zone oracle: well-known names are known, made-up ones are not
  for n in KNOWN_ZONES {
    if !known_zone(&mut zone_cache, n) {
      rep.disagree(Kind::ImplVsSpec, "zones", "C14 well-known IANA zone identifier is not accepted", &format!("time(\"12:00:00@{}\")", n), "null", "a time");
    }
  }
  // ---- named zones: what the literal denotes (first: no other family has resolved an offset yet)
  run_zone_instant(&mut rep, &mut model, thorough);
  let cases = gen_cases(&mut rng, thorough);
  // ---- implementation
  struct Obs {
    v: String,
    s: String,
    v2: String,
    known: bool,
    /// the same text through the named parameter `from:` (families of malformed text only)
    named: Option<String>,
  }
  let mut obs: Vec<Obs> = Vec::with_capacity(cases.len());
  for c in &cases {
    let known = match c.text.find('@') {
      Some(i) => known_zone(&mut zone_cache, &c.text[i + 1..]),
      None => true,
    };
    let named = if c.kind != "at" && (c.family.starts_with("corrupt") || c.family.starts_with("foreign") || c.family == "invalid" || c.family == "corpus") {
      Some(norm(&feel(&format!("{}(from: \"{}\")", fn_of(c.kind), c.text))))
    } else {
      None
    };
    let o = if c.kind == "at" {
      let r = feel_list(&format!("{{v: @\"{}\", r: [v, string(v)]}}.r", c.text));
      if r.len() == 2 {
        Obs { v: norm(&r[0]), s: r[1].clone(), v2: String::new(), known, named }
      } else {
        Obs { v: norm(&r[0]), s: "null".into(), v2: String::new(), known, named }
      }
    } else {
      let f = fn_of(c.kind);
      let r = feel_list(&format!("{{v: {}(\"{}\"), s: string(v), r: [v, s, {}(s)]}}.r", f, c.text, f));
      if r.len() == 3 {
        Obs { v: norm(&r[0]), s: r[1].clone(), v2: norm(&r[2]), known, named }
      } else if norm(&r[0]) == "panic" {
        // which part panicked: reading the literal, or printing the value?
        let v = norm(&feel(&format!("{}(\"{}\")", f, c.text)));
        if v == "panic" {
          Obs { v, s: "null".into(), v2: "null".into(), known, named }
        } else {
          Obs { v, s: "panic".into(), v2: "null".into(), known, named }
        }
      } else {
        Obs { v: norm(&r[0]), s: "null".into(), v2: "null".into(), known, named }
      }
    };
    obs.push(o);
  }
  // ---- the same texts through the xsd constructors of `Value` (typed inputs of a model)
  let mut xdt_idx = vec![];
  let mut xdt_reqs = vec![];
  for (i, c) in cases.iter().enumerate() {
    let t = c.text.clone();
    let api = match c.kind {
      "date" => Some(guarded(move || Value::try_from_xsd_date(&t).map(|v| obs_value(&v)).unwrap_or_else(|_| "null".into()))),
      "time" => Some(guarded(move || Value::try_from_xsd_time(&t).map(|v| obs_value(&v)).unwrap_or_else(|_| "null".into()))),
      "dt" => Some(guarded(move || Value::try_from_xsd_date_time(&t).map(|v| obs_value(&v)).unwrap_or_else(|_| "null".into()))),
      "dur" => Some(guarded(move || Value::try_from_xsd_duration(&t).map(|v| obs_value(&v)).unwrap_or_else(|_| "null".into()))),
      _ => None,
    };
    if let Some(a) = api {
      let a = a.unwrap_or_else(|_| "panic".into());
      rep.hit("route:xsd-constructor");
      // the typed input of a decision model reads the same lexical forms: judged against the written grammar
      if c.sig != "zone-database-skew" {
        let want_x = spec_lit(if c.kind == "dt" { "xdt" } else { c.kind }, &c.text, obs[i].known);
        if a != want_x && !(a == "panic" && c.text.contains('@') && c.kind == "time") {
          let sig = grammar_signature(c.kind, &c.text, &a, &want_x, " (xsd input of a decision model)");
          rep.disagree(Kind::ImplVsSpec, "grammar", &sig, &format!("Value::try_from_xsd_{}(\"{}\")", match c.kind { "date" => "date", "time" => "time", "dt" => "date_time", _ => "duration" }, c.text), &a, &want_x);
        }
      }
      if c.kind == "dt" {
        xdt_idx.push((i, a));
        xdt_reqs.push(format!("(c14 lit xdt {} {})", obs[i].known, Sexp::str(&c.text)));
      } else if a != obs[i].v {
        rep.disagree(Kind::ImplVsModel, "xsd", "xsd constructor differs from the FEEL built-in on the same text", &format!("{} {}", c.kind, c.text), &a, &obs[i].v);
      }
    }
  }
  let xdt_ans = model.ask_batch(&xdt_reqs);
  for ((i, a), m) in xdt_idx.iter().zip(xdt_ans.iter()) {
    if a != m && !(mask_ns(a) == mask_ns(m) && cases[*i].text.contains('.')) {
      rep.disagree(Kind::ImplVsModel, "xsd", "Value::try_from_xsd_date_time differs from the model", &cases[*i].text, a, m);
    }
  }
  // ---- model
  let lit_reqs: Vec<String> = cases.iter().zip(obs.iter()).map(|(c, o)| format!("(c14 lit {} {} {})", c.kind, o.known, Sexp::str(&c.text))).collect();
  let lit_ans = model.ask_batch(&lit_reqs);
  let mut print_idx = vec![];
  let mut print_reqs = vec![];
  for (i, o) in obs.iter().enumerate() {
    if o.v.starts_with('(') && !o.v.starts_with("(other") {
      print_idx.push(i);
      print_reqs.push(format!("(c14 print {} {})", o.known, o.v));
    }
  }
  let print_ans = model.ask_batch(&print_reqs);
  let mut print_of: std::collections::HashMap<usize, String> = std::collections::HashMap::new();
  for (i, a) in print_idx.iter().zip(print_ans.iter()) {
    print_of.insert(*i, a.clone());
  }
  // ---- compare
  for (i, c) in cases.iter().enumerate() {
    let o = &obs[i];
    let input = if c.kind == "at" { format!("@\"{}\"", c.text) } else { format!("{}(\"{}\")", fn_of(c.kind), c.text) };
    rep.case(&format!("{} {}", c.kind, c.text), true);
    rep.hit(&format!("family:{}", c.family));
    rep.hit(if o.v == "null" { "outcome:null" } else if o.v == "panic" { "outcome:panic" } else { "outcome:value" });
    let m = &lit_ans[i];
    // 1. the denoted value: implementation = model
    if o.v == "panic" && c.text.contains('@') && (c.kind == "time" || c.kind == "at") {
      // reading a time in a named zone looks up today's offset there (finding F6)
      rep.disagree(Kind::ImplVsSpec, "literal_exact", "C14 time literal in a named zone: today's local time does not exist or is ambiguous (panic)", &input, &o.v, m);
      continue;
    }
    if &o.v != m {
      if ns_close(&o.v, m, 2) && !o.v.starts_with("(dtd") && c.text.contains('.') {
        // the only difference is the nanoseconds of a written fraction: the f64 route
        rep.disagree(Kind::ImplVsSpec, "literal_exact", "C14 fractional seconds: the f64 conversion differs from the written digits", &input, &o.v, m);
      } else if c.kind == "dur" && c.text.contains('.') && ns_close(&o.v, m, 2) {
        rep.disagree(Kind::ImplVsSpec, "literal_exact", "C14 fractional seconds of a duration: the f64 conversion differs from the written digits", &input, &o.v, m);
      } else if o.v == "null" && m.starts_with('(') && rounds_to_one(&c.text) {
        // `.999999999…` parses to the f64 1.0: 10⁹ ns, which chrono accepts only at second 59
        rep.disagree(Kind::ImplVsSpec, "literal_exact", "C14 fractional seconds: a fraction that f64 rounds up to 1.0 makes the literal null", &input, &o.v, m);
      } else {
        rep.disagree(Kind::ImplVsModel, "literal", "literal denotes a different value than in the model", &input, &o.v, m);
      }
    }
    // 2. against what was written
    if let Some(want) = &c.expected {
      if &o.v != want && c.sig == "zone-database-skew" {
        // a name of today's IANA list that the zone database bundled with chrono-tz does not
        // have (or the reverse): the database is a parameter, not part of the property
        rep.hit("zone:unknown-to-the-bundled-database");
      } else if &o.v != want {
        let f64_only = ns_close(&o.v, want, 2) && c.text.contains('.');
        let sig = if o.v == "null" && want.starts_with('(') && rounds_to_one(&c.text) {
          "C14 fractional seconds: a fraction that f64 rounds up to 1.0 makes the literal null"
        } else if f64_only {
          if c.kind == "dur" { "C14 fractional seconds of a duration: the f64 conversion differs from the written digits" } else { "C14 fractional seconds: the f64 conversion differs from the written digits" }
        } else if o.v == "panic" {
          "C14 duration literal beyond the representable maximum panics"
        } else if c.family == "invalid" && c.kind == "dur" && o.v != "null" {
          match c.text.as_str() {
            "P1DT" => "C14 malformed duration text is accepted: empty time part",
            "PT0.S" => "C14 malformed duration text is accepted: empty fraction",
            _ => c.sig,
          }
        } else if c.family == "dur:too-large" && o.v.starts_with("(ymd -") && !c.text.starts_with('-') {
          "C14 duration literal: a component of 2^63 or more wraps to a negative number (as i64)"
        } else if c.family == "dur:too-large" && o.v != "null" {
          "C14 duration literal: a component beyond u64 is skipped silently"
        } else {
          c.sig
        };
        rep.disagree(Kind::ImplVsSpec, "literal_exact", sig, &input, &o.v, want);
      }
    }
    // 2b. against the written grammar: every text without a written expectation (the corruptions) denotes what
    // the grammar says - nothing (null) unless the corrupted text is a literal again; the generator's own
    // expectations are checked against the grammar as well (a self-check of the two oracles)
    {
      let spec = spec_lit(c.kind, &c.text, o.known);
      match &c.expected {
        Some(want) => {
          if &spec != want && c.sig != "zone-database-skew" {
            rep.disagree(Kind::ImplVsModel, "grammar", "harness: the written grammar and the generator's expectation differ", &input, &spec, want);
          }
        }
        None => {
          if o.v != spec {
            let sig = grammar_signature(c.kind, &c.text, &o.v, &spec, "");
            rep.disagree(Kind::ImplVsSpec, "grammar", &sig, &input, &o.v, &spec);
          }
        }
      }
      if m != &spec && !(c.text.contains(".S") && c.kind != "date") {
        rep.disagree(Kind::ImplVsModel, "grammar", "the Lean model of the parsers differs from the written grammar", &input, m, &spec);
      }
      if let Some(nv) = &o.named {
        rep.hit("route:named-parameter");
        if nv != &spec {
          let sig = grammar_signature(c.kind, &c.text, nv, &spec, " (named parameter from:)");
          rep.disagree(Kind::ImplVsSpec, "grammar", &sig, &format!("{}(from: \"{}\")", fn_of(c.kind), c.text), nv, &spec);
        }
      }
    }
    // 3. printing and reading back
    if let Some(pa) = print_of.get(&i) {
      let (ms, mv2) = match Sexp::parse(pa).and_then(|s| s.as_list().map(|l| l.to_vec())) {
        Some(l) if l.len() == 2 => (l[0].to_string(), l[1].to_string()),
        _ => {
          rep.disagree(Kind::ImplVsModel, "print", "driver-error", &print_reqs[0], &o.s, pa);
          continue;
        }
      };
      if o.s != ms {
        rep.disagree(Kind::ImplVsModel, "print", "string(v) differs from the model's printer", &format!("string({})", input), &o.s, &ms);
      }
      if o.s == "panic" {
        rep.disagree(Kind::ImplVsSpec, "roundtrip", "C14 string(v) panics on the years and months duration of i64::MIN months", &format!("string({})", input), "panic", "a text");
        continue;
      }
      if c.kind != "at" && o.s != "panic" {
        if o.v2 != mv2 && !(mask_ns(&o.v2) == mask_ns(&mv2) && o.s.contains("46")) {
          rep.disagree(Kind::ImplVsModel, "readback", "reading string(v) back differs from the model", &format!("{}(string({}))", fn_of(c.kind), input), &o.v2, &mv2);
        }
        if o.v2 != o.v {
          let sig = roundtrip_signature(&o.v, &o.v2, &o.s);
          rep.disagree(Kind::ImplVsSpec, "roundtrip", sig, &format!("{}(string({}))", fn_of(c.kind), input), &o.v2, &o.v);
        }
      }
      // 4. normal form of durations
      if o.v.starts_with("(dtd ") || o.v.starts_with("(ymd ") {
        let n: i128 = o.v[5..o.v.len() - 1].parse().unwrap_or(0);
        let want = if o.v.starts_with("(dtd") { dtd_normal(n) } else { ymd_normal(n) };
        let want = Sexp::str(&want).to_string();
        if o.s != want {
          rep.disagree(Kind::ImplVsSpec, "dur_normal_form", "C14 duration text is not the normal form", &format!("string({})", input), &o.s, &want);
        }
      }
    }
    if rep.samples.len() < 10 && c.family.ends_with("valid") && i % 97 == 0 {
      rep.sample(json!({"expression": input, "value": o.v, "string": o.s, "read back": o.v2, "model": m}));
    }
  }
  // ---- values only constructors build
  let cons = constructed_values(&mut rng, thorough);
  let mut cobs = vec![];
  for (e, kind) in &cons {
    let f = fn_of(kind);
    let r = feel_list(&format!("{{v: {}, s: string(v), r: [v, s, {}(s)]}}.r", e, f));
    if r.len() == 3 {
      cobs.push((norm(&r[0]), r[1].clone(), norm(&r[2])));
    } else {
      cobs.push((norm(&r[0]), "null".into(), "null".into()));
    }
  }
  let reqs: Vec<String> = cobs.iter().map(|(v, _, _)| if v.starts_with('(') { format!("(c14 print true {})", v) } else { "(c14 print true (ymd 0))".to_string() }).collect();
  let answers = model.ask_batch(&reqs);
  for (((e, kind), (v, s, v2)), ans) in cons.iter().zip(cobs.iter()).zip(answers.iter()) {
    rep.case(e, true);
    rep.hit("family:constructed");
    if !v.starts_with('(') {
      continue;
    }
    let (ms, mv2) = match Sexp::parse(ans).and_then(|s| s.as_list().map(|l| l.to_vec())) {
      Some(l) if l.len() == 2 => (l[0].to_string(), l[1].to_string()),
      _ => continue,
    };
    if s != &ms {
      rep.disagree(Kind::ImplVsModel, "print", "string(v) differs from the model's printer", &format!("string({})", e), s, &ms);
    }
    if v2 != &mv2 && !(mask_ns(v2) == mask_ns(&mv2)) {
      rep.disagree(Kind::ImplVsModel, "readback", "reading string(v) back differs from the model", &format!("{}(string({}))", fn_of(kind), e), v2, &mv2);
    }
    if v2 != v {
      let sig = roundtrip_signature(v, v2, s);
      rep.disagree(Kind::ImplVsSpec, "roundtrip", sig, &format!("{}(string({}))", fn_of(kind), e), v2, v);
    }
  }
  // ---- time(h, m, s) and time(h, m, s, offset) from numbers
  {
    let n = if thorough { 6000 } else { 1500 };
    let mut tcases: Vec<([(i128, i32); 3], Option<i128>)> = vec![
      ([(105, -1), (0, 0), (0, 0)], None),
      ([(115, -1), (5, -1), (301_234_567_891, -10)], None),
      ([(235, -1), (0, 0), (0, 0)], None),
      ([(10, 0), (595, -1), (0, 0)], None),
      ([(10, 0), (0, 0), (599_999_999_999, -10)], None),
      ([(10, 0), (0, 0), (0, 0)], Some(-1_800_000_000_000)),
      ([(10, 0), (0, 0), (0, 0)], Some(500_000_000)),
      ([(10, 0), (0, 0), (0, 0)], Some(54_000_000_000_000)),
      ([(10, 0), (0, 0), (0, 0)], Some(172_800_000_000_000)),
      ([(24, 0), (0, 0), (0, 0)], None),
      ([(-1, 0), (0, 0), (0, 0)], None),
      ([(10, 0), (60, 0), (0, 0)], None),
      ([(10, 0), (0, 0), (60, 0)], None),
    ];
    for _ in 0..n {
      let mut comp = |rng: &mut Rng, hi: i64| -> (i128, i32) {
        let base = if rng.chance(1, 12) { rng.range(-2, hi + 2) } else { rng.range(0, hi - 1) } as i128;
        match rng.below(8) {
          0 => (base * 10 + 5, -1),
          1 => (base * 100 + rng.range(1, 99) as i128, -2),
          2 => (base * 10, -1),
          _ => (base, 0),
        }
      };
      let h = comp(&mut rng, 24);
      let mi = comp(&mut rng, 60);
      let sb = rng.range(0, 59) as i128;
      let s = match rng.below(5) {
        0 => (sb, 0),
        1 => (sb * 1000 + rng.range(0, 999) as i128, -3),
        2 => (sb * 1_000_000_000 + rng.range(0, 999_999_999) as i128, -9),
        3 => (sb * 100_000_000_000 + rng.range(0, 99_999_999_999) as i128, -11),
        _ => (sb * 10 + rng.range(0, 9) as i128, -1),
      };
      let off = match rng.below(5) {
        0 | 1 => None,
        2 => Some(rng.range(-53_999, 53_999) as i128 * 1_000_000_000),
        3 => Some(rng.range(-900, 900) as i128 * 60_000_000_000 + rng.range(0, 999_999_999) as i128),
        _ => Some(rng.range(-200_000, 200_000) as i128 * 1_000_000_000),
      };
      tcases.push(([h, mi, s], off));
    }
    let text = |c: &([(i128, i32); 3], Option<i128>)| -> String {
      let args = format!("{}, {}, {}", crate::c15::dec_text(c.0[0].0, c.0[0].1), crate::c15::dec_text(c.0[1].0, c.0[1].1), crate::c15::dec_text(c.0[2].0, c.0[2].1));
      match c.1 {
        None => format!("time({})", args),
        Some(n) => {
          let a = n.abs();
          let frac = if a % 1_000_000_000 > 0 { format!(".{}", format!("{:09}", a % 1_000_000_000).trim_end_matches('0')) } else { String::new() };
          format!("time({}, duration(\"{}PT{}{}S\"))", args, if n < 0 { "-" } else { "" }, a / 1_000_000_000, frac)
        }
      }
    };
    // the offset duration must be the intended one (its literal goes through f64 in the code)
    tcases.retain(|c| match c.1 {
      None => true,
      Some(n) => {
        let a = n.abs();
        let frac = if a % 1_000_000_000 > 0 { format!(".{}", format!("{:09}", a % 1_000_000_000).trim_end_matches('0')) } else { String::new() };
        feel(&format!("duration(\"{}PT{}{}S\")", if n < 0 { "-" } else { "" }, a / 1_000_000_000, frac)) == format!("(dtd {})", n)
      }
    });
    let reqs: Vec<String> = tcases
      .iter()
      .map(|c| {
        format!(
          "(c14 timenum ({} {}) ({} {}) ({} {}) {})",
          c.0[0].0, c.0[0].1, c.0[1].0, c.0[1].1, c.0[2].0, c.0[2].1,
          c.1.map(|n| n.to_string()).unwrap_or_else(|| "none".into())
        )
      })
      .collect();
    let answers = model.ask_batch(&reqs);
    for ((c, req), ans) in tcases.iter().zip(reqs.iter()).zip(answers.iter()) {
      let e = text(c);
      let o = norm(&feel(&e));
      rep.case(req, true);
      rep.hit("family:time-from-numbers");
      if &o != ans {
        rep.disagree(Kind::ImplVsModel, "time_from_numbers", "time(h, m, s[, offset]) differs from the model", &e, &o, ans);
      }
      // what is written: integral hour and minute in range, seconds split exactly, the offset in
      // whole seconds below 15 hours; otherwise null
      let integral = |x: &(i128, i32)| x.1 >= 0 || x.0 % 10i128.pow((-x.1) as u32) == 0;
      let val = |x: &(i128, i32)| if x.1 >= 0 { x.0 * 10i128.pow(x.1 as u32) } else { x.0.div_euclid(10i128.pow((-x.1) as u32)) };
      let (h, mi, s) = (&c.0[0], &c.0[1], &c.0[2]);
      let in_range = |x: &(i128, i32), k: i128| x.0 >= 0 && val(x) < k;
      let want = if integral(h) && integral(mi) && in_range(h, 24) && in_range(mi, 60) && in_range(s, 60) && c.1.map(|n| n.abs() < 54_000_000_000_000).unwrap_or(true) {
        let p = if s.1 >= 0 { 1 } else { 10i128.pow((-s.1) as u32) };
        let ns = if s.1 >= 0 { 0 } else { (s.0 % p) * 1_000_000_000 / p };
        let z = match c.1 {
          None => "local".to_string(),
          Some(n) => {
            let secs = n / 1_000_000_000;
            if secs == 0 { "utc".to_string() } else { format!("(offset {})", secs) }
          }
        };
        format!("(time {} {} {} {} {})", val(h), val(mi), val(s), ns, z)
      } else {
        "null".to_string()
      };
      if o != want {
        let sig = if !(integral(h) && integral(mi)) {
          "C14 time(h, m, s): a fractional hour or minute is rounded half-even instead of rejected"
        } else if c.1.map(|n| n.abs() >= 54_000_000_000_000).unwrap_or(false) {
          "C14 time(h, m, s, offset): an offset of 15 hours or more is accepted"
        } else {
          "C14 time(h, m, s[, offset]) does not denote the written time"
        };
        rep.disagree(Kind::ImplVsSpec, "time_from_numbers", sig, &e, &o, &want);
      }
    }
  }
  // ---- literals sharing a long prefix, one after the other in one thread (own random stream)
  {
    let mut srng = Rng::new(cfg.seed ^ 0x51B1_1265);
    run_siblings(&mut rep, &mut model, &mut srng, thorough);
  }
  rep.exhaustive = true;
  rep.model_requests = model.requests;
  rep
}

/// Signature of a disagreement between an acceptor and the written grammar (stable: kind of literal, which
/// way, which acceptor).
fn grammar_signature(kind: &str, text: &str, got: &str, want: &str, route: &str) -> String {
  let f = match kind {
    "date" => "date()",
    "time" => "time()",
    "dt" => "date and time()",
    "dur" => "duration()",
    _ => "@\"…\"",
  };
  if want == "null" && got != "null" && got != "panic" && got != "parse-error" {
    if (kind == "dur" || kind == "at") && text.contains(".S") {
      return "C14 malformed duration text is accepted: empty fraction".to_string();
    }
    if !text.is_ascii() {
      return format!("C14 text with a character outside ASCII (a digit, sign or letter of another script) is accepted as a literal{}", route);
    }
    format!("C14 grammar: text that is not a literal is accepted by {}{}", f, route)
  } else if got == "panic" {
    format!("C14 grammar: reading a text panics in {}{}", f, route)
  } else if got == "null" || got == "parse-error" {
    format!("C14 grammar: a literal of the written grammar is null in {}{}", f, route)
  } else {
    format!("C14 grammar: a literal does not denote the written value in {}{}", f, route)
  }
}

/// The text has a fraction of at least sixteen leading nines (its f64 value is 1.0).
fn rounds_to_one(text: &str) -> bool {
  match text.find('.') {
    Some(i) => text[i + 1..].chars().take_while(|c| *c == '9').count() >= 16,
    None => false,
  }
}

/// Which way the text form failed to read back as an equal value.
fn roundtrip_signature(v: &str, v2: &str, s: &str) -> &'static str {
  let offset_of = |o: &str| -> Option<i64> {
    let i = o.find("(offset ")?;
    o[i + 8..].trim_end_matches(')').parse().ok()
  };
  let year_of = |o: &str| -> Option<i64> {
    if o.starts_with("(date ") || o.starts_with("(dt ") {
      o.split(' ').nth(1)?.parse().ok()
    } else {
      None
    }
  };
  if let Some(y) = year_of(v) {
    if y.abs() < 1000 {
      return "C14 text of a date with a year below 1000 (or above -1000) does not read back";
    }
  }
  if let Some(o) = offset_of(v) {
    if o < 0 && o > -3600 {
      return "C14 text of an offset between -00:59:59 and -00:00:01 loses its sign";
    }
    if o.abs() >= 54_000 {
      return "C14 text of an offset of 15 hours or more (from minutes/seconds of 60..99) does not read back";
    }
  }
  if s.ends_with(" 46)") || s.contains(" 46 90)") || s.contains(" 46 43 ") || s.contains(" 46 45 ") || s.contains(" 46 64 ") {
    return "C14 text of a time whose fraction was rounded up to a whole second ends in a bare point";
  }
  if v.starts_with("(dtd ") {
    if let Ok(n) = v[5..v.len() - 1].parse::<i128>() {
      if n.abs() / 86_400_000_000_000 > u64::MAX as i128 {
        return "C14 text of a days and time duration of more than u64::MAX days does not read back";
      }
    }
  }
  if ns_close(v, v2, 2) {
    return "C14 fractional seconds: the f64 conversion differs from the written digits";
  }
  "C14 string(v) does not read back as an equal value"
}
