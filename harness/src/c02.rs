//! C02 — FEEL numbers compute as IEEE 754-2008 decimal128 (34 digits, half-even).
//!
//! Implementation, three layers: `dmntk_feel_number::dec::dec_*` (the FFI wrappers around the
//! bundled C decNumber), `FeelNumber` operators/methods, and the same operations through FEEL
//! text (parse + evaluate with the operands bound as variables).
//! Model: `Dmn.Dec.*` (raw), `Dmn.FNum.*` (FeelNumber level) through the driver; specification
//! `AddSpec`/`MulSpec`/`DivSpec`/`SqrtSpec`/`FloorSpec`/`CeilSpec`/`RescaleSpec`
//! (`RoundsHalfEven` in scaled integers) executed by the driver on the answers.

use crate::model::Model;
use crate::report::{Kind, Report};
use crate::rng::Rng;
use crate::sexp::Sexp;
use crate::util::guarded;
use crate::Cfg;
use dmntk_feel::values::Value;
use dmntk_feel::{FeelNumber, Name, Scope};
use dmntk_feel_number::dec::*;
use serde_json::json;
use std::cmp::Ordering;
use std::str::FromStr;

// ---------------------------------------------------------------------------------- shared helpers

/// A finite decimal as sign, coefficient digits (no leading zeros; "0" for zero), exponent.
#[derive(Clone, Debug, PartialEq, Eq, Hash)]
pub struct D {
  pub neg: bool,
  pub coeff: String,
  pub exp: i32,
}

#[derive(Clone, Debug, PartialEq, Eq, Hash)]
pub enum DecV {
  Fin(D),
  Inf(bool),
  NaN,
}

impl D {
  pub fn new(neg: bool, coeff: &str, exp: i32) -> D {
    let c = coeff.trim_start_matches('0');
    D { neg, coeff: if c.is_empty() { "0".to_string() } else { c.to_string() }, exp }
  }
  /// Text accepted by decQuadFromString that denotes exactly this triple.
  pub fn to_sci_input(&self) -> String {
    format!("{}{}E{}", if self.neg { "-" } else { "" }, self.coeff, self.exp)
  }
  pub fn wire(&self) -> String {
    format!("(n {} {} {})", self.neg, self.coeff, self.exp)
  }
  pub fn is_zero(&self) -> bool {
    self.coeff == "0"
  }
  /// decNumberReduce on the triple (harness-side canonicalisation, used to compare numbers
  /// obtained through `{:?}`, which prints the reduced value).
  pub fn reduced(&self) -> D {
    if self.is_zero() {
      return D { neg: self.neg, coeff: "0".into(), exp: 0 };
    }
    let mut c = self.coeff.clone();
    let mut e = self.exp;
    while c.len() > 1 && c.ends_with('0') && e < 6111 {
      c.pop();
      e += 1;
    }
    D { neg: self.neg, coeff: c, exp: e }
  }
  pub fn quad(&self) -> DecQuad {
    dec_from_string(&self.to_sci_input())
  }
}

impl DecV {
  pub fn wire(&self) -> String {
    match self {
      DecV::Fin(d) => d.wire(),
      DecV::Inf(n) => format!("(inf {})", n),
      DecV::NaN => "(nan)".to_string(),
    }
  }
  pub fn from_sexp(s: &Sexp) -> Option<DecV> {
    let l = s.as_list()?;
    match l.first()?.as_atom()? {
      "fin" | "n" if l.len() == 4 => Some(DecV::Fin(D::new(l[1].as_atom()? == "true", l[2].as_atom()?, l[3].as_atom()?.parse().ok()?))),
      "inf" if l.len() == 2 => Some(DecV::Inf(l[1].as_atom()? == "true")),
      "nan" => Some(DecV::NaN),
      _ => None,
    }
  }
  pub fn reduced(&self) -> DecV {
    match self {
      DecV::Fin(d) => DecV::Fin(d.reduced()),
      x => x.clone(),
    }
  }
}

/// Parses what decQuadToString prints (`-1.23E+5`, `0.00123`, `Infinity`, `NaN`) into the triple.
pub fn parse_sci(s: &str) -> Option<DecV> {
  let (neg, body) = match s.strip_prefix('-') {
    Some(r) => (true, r),
    None => (false, s),
  };
  if body == "Infinity" {
    return Some(DecV::Inf(neg));
  }
  if body == "NaN" || body == "sNaN" {
    return Some(DecV::NaN);
  }
  let (mant, e) = match body.find('E') {
    Some(i) => (&body[..i], body[i + 1..].parse::<i64>().ok()?),
    None => (body, 0i64),
  };
  let (ip, fp) = match mant.find('.') {
    Some(i) => (&mant[..i], &mant[i + 1..]),
    None => (mant, ""),
  };
  if ip.is_empty() && fp.is_empty() {
    return None;
  }
  if !ip.chars().all(|c| c.is_ascii_digit()) || !fp.chars().all(|c| c.is_ascii_digit()) {
    return None;
  }
  let digits = format!("{}{}", ip, fp);
  Some(DecV::Fin(D::new(neg, &digits, (e - fp.len() as i64) as i32)))
}

/// Decodes `(s cp … (r cp count) …)` (see Driver/C07.lean `encText`); `None` for `panic`.
pub fn decode_text(s: &Sexp) -> Option<String> {
  let l = s.as_list()?;
  if l.first()?.as_atom()? != "s" {
    return None;
  }
  let mut out = String::new();
  for it in &l[1..] {
    match it {
      Sexp::Atom(a) => out.push(char::from_u32(a.parse().ok()?)?),
      Sexp::List(r) if r.len() == 3 && r[0].as_atom() == Some("r") => {
        let c = char::from_u32(r[1].as_atom()?.parse().ok()?)?;
        let n: usize = r[2].as_atom()?.parse().ok()?;
        for _ in 0..n {
          out.push(c);
        }
      }
      _ => return None,
    }
  }
  Some(out)
}

/// Evaluates FEEL text with the given variables bound in the scope.
pub fn feel_eval(vars: &[(&str, Value)], text: &str) -> Result<Value, String> {
  let scope = Scope::default();
  for (k, v) in vars {
    let name: Name = (*k).into();
    scope.set_entry(&name, v.clone());
  }
  let node = dmntk_feel_parser::parse_expression(&scope, text, false).map_err(|e| e.to_string())?;
  dmntk_feel_evaluator::evaluate(&scope, &node).map_err(|e| e.to_string())
}

pub fn number_of(d: &D) -> Option<FeelNumber> {
  FeelNumber::from_str(&d.to_sci_input()).ok()
}

/// What a FeelNumber holds, through `{:?}` (the *reduced* value in decQuadToString notation).
pub fn observe(n: &FeelNumber) -> Option<DecV> {
  parse_sci(&format!("{:?}", n))
}

/// Asks the requests on several driver processes at once (one per shard), keeping the order.
pub fn ask_parallel(driver: &str, reqs: &[String]) -> (Vec<String>, u64) {
  let shards = std::thread::available_parallelism().map(|n| n.get()).unwrap_or(4).min(16);
  if reqs.len() < 2000 || shards < 2 {
    let mut m = Model::start(driver);
    let a = m.ask_batch(reqs);
    return (a, reqs.len() as u64);
  }
  let per = (reqs.len() + shards - 1) / shards;
  let mut out: Vec<Vec<String>> = vec![];
  std::thread::scope(|sc| {
    let handles: Vec<_> = reqs
      .chunks(per)
      .map(|chunk| {
        sc.spawn(move || {
          let mut m = Model::start(driver);
          m.ask_batch(chunk)
        })
      })
      .collect();
    for h in handles {
      out.push(h.join().expect("driver shard"));
    }
  });
  (out.into_iter().flatten().collect(), reqs.len() as u64)
}

// ---------------------------------------------------------------------------------- generators

fn digits(rng: &mut Rng, len: usize) -> String {
  let mut s = String::new();
  for i in 0..len {
    let d = if i == 0 {
      1 + rng.below(9)
    } else {
      match rng.below(10) {
        0 => 0,
        1 => 9,
        _ => rng.below(10),
      }
    };
    s.push(char::from(b'0' + d as u8));
  }
  s
}

fn rdigits(rng: &mut Rng, max: u64) -> String {
  let len = 1 + rng.below(max) as usize;
  digits(rng, len)
}

fn nines(len: usize) -> String {
  "9".repeat(len)
}

fn any_exp(rng: &mut Rng) -> i32 {
  match rng.below(6) {
    0 => rng.range(-6176, 6111) as i32,
    1 => rng.range(-6176, -6100) as i32,
    2 => rng.range(6040, 6111) as i32,
    _ => rng.range(-40, 40) as i32,
  }
}

fn moderate(rng: &mut Rng) -> D {
  let len = 1 + rng.below(34) as usize;
  D::new(rng.chance(1, 2), &digits(rng, len), rng.range(-40, 40) as i32)
}

/// One operand pair of the named class.
fn pair(rng: &mut Rng, class: &str) -> (D, D) {
  match class {
    // exact ties at the 34th digit, constructed
    "tie" => {
      match rng.below(4) {
        0 => {
          // a has 34 digits at exponent e, b = ±5 at exponent e-1: a ± 0.5 ulp
          let e = rng.range(-6100, 6000) as i32;
          let mut c = digits(rng, 34);
          if rng.chance(1, 4) {
            c = nines(34);
          }
          let neg = rng.chance(1, 2);
          (D::new(neg, &c, e), D::new(if rng.chance(1, 2) { neg } else { !neg }, "5", e - 1))
        }
        1 => {
          // a·1.5 with a odd and a·15 of 35 digits: exact …·5 one digit too long
          let mut c = format!("{}{}", 1 + rng.below(5), digits(rng, 33));
          let last = (c.pop().unwrap() as u8 - b'0') | 1;
          c.push(char::from(b'0' + last));
          let c = if c.as_str() < "6666666666666666666666666666666667" { format!("7{}", &c[1..]) } else { c };
          // 7…·15 has 36 digits → still a tie case only sometimes; keep both shapes
          (D::new(rng.chance(1, 2), &c, rng.range(-3000, 3000) as i32), D::new(rng.chance(1, 2), "15", rng.range(-30, 30) as i32))
        }
        2 => {
          // a / 2 with a odd of 34 digits ≥ 2·10^33: quotient has 35 significant digits ending in 5
          let mut c = format!("{}{}", 2 + rng.below(8), digits(rng, 33));
          let last = (c.pop().unwrap() as u8 - b'0') | 1;
          c.push(char::from(b'0' + last));
          let divisor = *rng.pick(&["2", "20", "4", "8", "16", "5"]);
          (D::new(rng.chance(1, 2), &c, rng.range(-3000, 3000) as i32), D::new(rng.chance(1, 2), divisor, rng.range(-30, 30) as i32))
        }
        _ => {
          // subnormal ties: x·10^-6177 with last digit 5 → half of the last subnormal place
          let len = 1 + rng.below(20) as usize;
          let mut c = digits(rng, len);
          c.push('5');
          (D::new(rng.chance(1, 2), &c, -6100), D::new(rng.chance(1, 2), "1", -77))
        }
      }
    }
    // a tie and a little more (or less): the digits dropped are 5 0…0 d, 4 9…9 or exactly 5 0…0, for every number
    // of dropped digits — a + b with b far below a, so that the exact sum has 34 + m digits
    "sticky" => {
      let m = 1 + rng.below(33) as usize;
      let neg = rng.chance(1, 2);
      let e = rng.range(-3000, 3000) as i32;
      let mut a = digits(rng, 34);
      if rng.chance(1, 2) {
        // even / odd last kept digit on purpose
        let last = (a.pop().unwrap() as u8 - b'0') & !1 | (rng.below(2) as u8);
        a.push(char::from(b'0' + last));
      }
      let dropped = match rng.below(4) {
        0 => format!("5{}", "0".repeat(m - 1)),
        1 => format!("5{}{}", "0".repeat(m.saturating_sub(2)), if m > 1 { "1" } else { "" }),
        2 => format!("4{}", "9".repeat(m - 1)),
        _ => format!("5{}{}", "0".repeat(m.saturating_sub(2)), if m > 1 { (1 + rng.below(9)).to_string() } else { String::new() }),
      };
      (D::new(neg, &a, e), D::new(if rng.chance(3, 4) { neg } else { !neg }, &dropped, e - dropped.len() as i32))
    }
    // operands 34+ orders of magnitude apart
    "far" => {
      let a = D::new(rng.chance(1, 2), &rdigits(rng, 34), rng.range(-3000, 3000) as i32);
      let wide = rng.chance(1, 3);
      let gap = 34 + rng.below(if wide { 6000 } else { 10 }) as i32;
      let eb = (a.exp + a.coeff.len() as i32 - gap - rng.below(34) as i32).clamp(-6176, 6111);
      let b = D::new(rng.chance(1, 2), &rdigits(rng, 34), eb);
      if rng.chance(1, 2) {
        (a, b)
      } else {
        (b, a)
      }
    }
    // a short operand (often a power of ten) and a long one whose leading digit lies 32..37 places below the short
    // one's leading digit, mostly of opposite sign: the exact result borrows through the whole 34-digit window
    // (1 - 6.67E-35 = 0.9999…9999|333), the window's edge being exactly where an implementation may stop looking
    "borrow" => {
      let la = 1 + rng.below(3) as usize;
      let ca = if rng.chance(1, 2) { format!("1{}", "0".repeat(la - 1)) } else { digits(rng, la) };
      let ea = rng.range(-3000, 3000) as i32;
      let neg = rng.chance(1, 2);
      let a = D::new(neg, &ca, ea);
      let top = ea + la as i32 - 1;
      let g = 32 + rng.below(6) as i32;
      let lb = if rng.chance(3, 4) { 34 } else { 1 + rng.below(34) as usize };
      let cb = if rng.chance(1, 4) { nines(lb) } else { digits(rng, lb) };
      let b = D::new(if rng.chance(3, 4) { !neg } else { neg }, &cb, top - g - (lb as i32 - 1));
      if rng.chance(1, 2) {
        (a, b)
      } else {
        (b, a)
      }
    }
    // cancellation
    "cancel" => {
      let len = 2 + rng.below(33) as usize;
      let c = digits(rng, len);
      let e = any_exp(rng);
      let mut c2: Vec<u8> = c.bytes().collect();
      let k = 1 + rng.below(3.min(len as u64 - 1)) as usize;
      for i in (len - k)..len {
        c2[i] = b'0' + rng.below(10) as u8;
      }
      let neg = rng.chance(1, 2);
      let b = D::new(if rng.chance(3, 4) { neg } else { !neg }, std::str::from_utf8(&c2).unwrap(), e);
      let a = D::new(neg, &c, e);
      if rng.chance(1, 5) {
        // same value, different number of trailing zeros
        let z = 1 + rng.below((35 - len) as u64) as usize;
        let bz = D::new(a.neg, &format!("{}{}", c, "0".repeat(z.min(34 - len))), (e - z.min(34 - len) as i32).max(-6176));
        (a, bz)
      } else {
        (a, b)
      }
    }
    // zeros of both signs and all exponents
    "zero" => {
      let z = D::new(rng.chance(1, 2), "0", rng.range(-6176, 6111) as i32);
      let o = if rng.chance(1, 3) { D::new(rng.chance(1, 2), "0", rng.range(-6176, 6111) as i32) } else { D::new(rng.chance(1, 2), &rdigits(rng, 34), any_exp(rng)) };
      if rng.chance(1, 2) {
        (z, o)
      } else {
        (o, z)
      }
    }
    // subnormal operands and results
    "subnormal" => {
      match rng.below(3) {
        0 => (
          D::new(rng.chance(1, 2), &rdigits(rng, 20), rng.range(-6176, -6150) as i32),
          D::new(rng.chance(1, 2), &rdigits(rng, 20), rng.range(-6176, -6150) as i32),
        ),
        1 => {
          // product / quotient landing in the subnormal range
          let ea = rng.range(-3200, -3000) as i32;
          (D::new(rng.chance(1, 2), &rdigits(rng, 34), ea), D::new(rng.chance(1, 2), &rdigits(rng, 34), rng.range(-3200, -2950) as i32))
        }
        _ => (
          D::new(rng.chance(1, 2), &rdigits(rng, 34), rng.range(-6176, -6100) as i32),
          D::new(rng.chance(1, 2), &rdigits(rng, 5), rng.range(-5, 80) as i32),
        ),
      }
    }
    // overflow / underflow edges
    "edge" => {
      match rng.below(5) {
        0 => (D::new(rng.chance(1, 2), &nines(34), 6111), D::new(rng.chance(1, 2), &rdigits(rng, 3), rng.range(6070, 6111) as i32)),
        1 => (D::new(rng.chance(1, 2), &nines(34), 6111), D::new(rng.chance(1, 2), &rdigits(rng, 2), rng.range(-2, 2) as i32)),
        2 => {
          let ea = rng.range(3000, 3100) as i32;
          (D::new(rng.chance(1, 2), &rdigits(rng, 34), ea), D::new(rng.chance(1, 2), &rdigits(rng, 34), rng.range(3000, 3120) as i32))
        }
        3 => (D::new(rng.chance(1, 2), &rdigits(rng, 34), rng.range(6050, 6111) as i32), D::new(rng.chance(1, 2), &rdigits(rng, 34), rng.range(-6176, -6000) as i32)),
        _ => (D::new(rng.chance(1, 2), &digits(rng, 34), rng.range(6100, 6111) as i32), D::new(rng.chance(1, 2), &digits(rng, 34), rng.range(6100, 6111) as i32)),
      }
    }
    // small human-sized integers and decimals (exact arithmetic, exponent preferences)
    "small" => {
      let a = D::new(rng.chance(1, 3), &rng.below(2000).to_string(), -(rng.below(4) as i32));
      let b = D::new(rng.chance(1, 3), &rng.below(200).to_string(), -(rng.below(4) as i32) + if rng.chance(1, 6) { 3 } else { 0 });
      (a, b)
    }
    // 1..34 digit coefficients
    _ => (
      D::new(rng.chance(1, 2), &rdigits(rng, 34), any_exp(rng)),
      D::new(rng.chance(1, 2), &rdigits(rng, 34), any_exp(rng)),
    ),
  }
}

const CLASSES: [&str; 11] = ["tie", "sticky", "far", "borrow", "cancel", "zero", "subnormal", "edge", "small", "digits", "digits34"];
const BINARY: [&str; 6] = ["add", "sub", "mul", "div", "remainder", "modulo"];
/// operations whose specification verdict is about the FeelNumber method, not the dec.rs wrapper
const FN_SPEC_OPS: [&str; 3] = ["even", "odd", "isint"];
/// operations whose specification the driver can apply to a given result (`judge` / `judgev`)
const JUDGED_OPS: [&str; 8] = ["add", "sub", "mul", "div", "sqrt", "rescale", "floor", "ceiling"];
const UNARY: [&str; 12] = ["neg", "abs", "reduce", "floor", "ceiling", "trunc", "fract", "sqrt", "even", "odd", "isint", "rescale"];

fn ord_str(o: Option<Ordering>) -> &'static str {
  match o {
    Some(Ordering::Less) => "lt",
    Some(Ordering::Equal) => "eq",
    Some(Ordering::Greater) => "gt",
    None => "none",
  }
}

fn show_quad(q: &DecQuad) -> Option<DecV> {
  parse_sci(&dec_to_string(q))
}

/// dec.rs level: (raw result as DecV or bool text)
fn impl_raw(op: &str, a: &D, b: Option<&D>, k: i32) -> Result<String, String> {
  let qa = a.quad();
  let r = |q: DecQuad| show_quad(&q).map(|v| v.wire()).unwrap_or_else(|| format!("unparsed:{}", dec_to_string(&q)));
  guarded(|| match op {
    "add" => r(dec_add(&qa, &b.unwrap().quad())),
    "sub" => r(dec_subtract(&qa, &b.unwrap().quad())),
    "mul" => r(dec_multiply(&qa, &b.unwrap().quad())),
    "div" => r(dec_divide(&qa, &b.unwrap().quad())),
    "remainder" => r(dec_remainder(&qa, &b.unwrap().quad())),
    "neg" => r(dec_minus(&qa)),
    "abs" => r(dec_abs(&qa)),
    "reduce" => r(dec_reduce(&qa)),
    "floor" => r(dec_floor(&qa)),
    "ceiling" => r(dec_ceiling(&qa)),
    "trunc" => r(dec_trunc(&qa)),
    "fract" => r(dec_fract(&qa)),
    "sqrt" => r(dec_square_root(&qa)),
    "rescale" => r(dec_rescale(&qa, &dec_from_string(&format!("{}", -k)))),
    "isint" => dec_is_integer(&qa).to_string(),
    "even" => dec_is_zero(&dec_remainder(&qa, &DEC_TWO)).to_string(),
    "odd" => (dec_is_integer(&qa) && !dec_is_zero(&dec_remainder(&qa, &DEC_TWO))).to_string(),
    _ => "na".to_string(),
  })
}

/// FeelNumber level; numbers observed through `{:?}` (reduced).
fn impl_feelnumber(op: &str, a: &D, b: Option<&D>, k: i32) -> Result<String, String> {
  guarded(|| {
    let x = match number_of(a) {
      Some(x) => x,
      None => return "from_str-failed".to_string(),
    };
    let y = b.and_then(number_of);
    let show = |n: FeelNumber| observe(&n).map(|v| v.wire()).unwrap_or_else(|| format!("unparsed:{:?}", n));
    let showo = |n: Option<FeelNumber>| n.map(|n| show(n)).unwrap_or_else(|| "(none)".to_string());
    match op {
      "add" => show(x + y.unwrap()),
      "sub" => show(x - y.unwrap()),
      "mul" => show(x * y.unwrap()),
      "div" => show(x / y.unwrap()),
      "modulo" => show(x % y.unwrap()),
      "neg" => show(-x),
      "abs" => show(x.abs()),
      "floor" => show(x.floor()),
      "ceiling" => show(x.ceiling()),
      "trunc" => show(x.trunc()),
      "fract" => show(x.fract()),
      "sqrt" => showo(x.sqrt()),
      "rescale" => show(x.round(&FeelNumber::from_i128(k as i128))),
      "even" => x.even().to_string(),
      "odd" => x.odd().to_string(),
      "isint" => x.is_integer().to_string(),
      "reduce" => show(x),
      _ => "na".to_string(),
    }
  })
}

fn feel_expr(op: &str, k: i32) -> Option<String> {
  Some(match op {
    "add" => "a + b".to_string(),
    "sub" => "a - b".to_string(),
    "mul" => "a * b".to_string(),
    "div" => "a / b".to_string(),
    "modulo" => "modulo(a, b)".to_string(),
    "neg" => "-a".to_string(),
    "abs" => "abs(a)".to_string(),
    "floor" => "floor(a)".to_string(),
    "ceiling" => "ceiling(a)".to_string(),
    "sqrt" => "sqrt(a)".to_string(),
    "rescale" => format!("decimal(a, {})", k),
    "even" => "even(a)".to_string(),
    "odd" => "odd(a)".to_string(),
    _ => return None,
  })
}

/// The expected FEEL-level answer given the model's FeelNumber-level answer `f` for the
/// operands; mirrors the guards of builders.rs / core.rs around the FeelNumber call.
fn feel_expected(op: &str, a: &D, b: Option<&D>, f: &str) -> String {
  match op {
    // builders.rs:426 / core.rs:690: a zero divisor gives null
    "div" | "modulo" if b.map(|b| b.is_zero()).unwrap_or(false) => "null".to_string(),
    // core.rs:923: negative argument gives null; FeelNumber::sqrt gives None for non-finite
    "sqrt" if a.neg && !a.is_zero() => "null".to_string(),
    "sqrt" if f == "(none)" => "null".to_string(),
    _ => f.to_string(),
  }
}

fn value_show(v: &Value) -> String {
  match v {
    Value::Number(n) => observe(n).map(|v| v.wire()).unwrap_or_else(|| format!("unparsed:{:?}", n)),
    Value::Boolean(b) => b.to_string(),
    Value::Null(_) => "null".to_string(),
    other => format!("other:{}", other),
  }
}

fn canon_model_f(f: &Sexp) -> String {
  // model FeelNumber-level answers are compared after reduce (the observation `{:?}` reduces)
  match DecV::from_sexp(f) {
    Some(v) => v.reduced().wire(),
    None => f.to_string(),
  }
}

pub fn run(cfg: &Cfg) -> Report {
  let mut rep = Report::new(
    "C02",
    "operand classes (exact ties at the 34th digit, 34+ orders of magnitude apart, cancellation, zeros of both signs and all exponents, subnormals, overflow/underflow edges, small exact, 1..34-digit coefficients) x every operator (add sub mul div remainder modulo neg abs reduce floor ceiling trunc fract sqrt even odd is_integer decimal compare) at three layers (dec.rs wrappers, FeelNumber, FEEL text); threads: the settled add / sub / mul / div cases (every second one a tie or near-tie at the 34th digit) computed by 8 threads at once while half of them interleave floor / ceiling / trunc / fract / decimal / even / odd, every answer equal to the sequential one, and once more alone afterwards; cohort: every operation on every representation of one value (cohort members held, written, made by decimal() and by negation; the value computed as a sum, difference, product, quotient), answers equal across the cohort and judged by enclosure / SqrtSpec / exact power / written-out truth values and texts / the model of the glue. Non-trivial: the result is not one of the operands unchanged; distinct by request line.",
  );
  // debugging aid: VERIF_PROBE="expr;expr" prints what the implementation answers
  if let Ok(p) = std::env::var("VERIF_PROBE") {
    for e in p.split(';') {
      let r = guarded(|| feel_eval(&[], e));
      let shown = match &r {
        Ok(Ok(Value::Number(n))) => format!("number Display={} Debug={:?}", n, n),
        Ok(Ok(v)) => format!("{}", v),
        Ok(Err(e)) => format!("error {}", e),
        Err(p) => format!("panic {}", p),
      };
      eprintln!("PROBE {} => {}", e, shown);
    }
  }
  let thorough = cfg.tier == "thorough";
  let mut rng = Rng::new(cfg.seed);
  let mut model = Model::start(&cfg.driver);
  let per_cell = if thorough { 7_000 } else { 130 };

  struct Case {
    class: &'static str,
    op: &'static str,
    a: D,
    b: Option<D>,
    k: i32,
    req: String,
  }
  let mut cases: Vec<Case> = vec![];
  // corpus
  let corpus: Vec<(&'static str, D, Option<D>, i32)> = vec![
    ("mul", D::new(false, &nines(34), 6111), Some(D::new(false, "10", 0)), 0),
    ("add", D::new(false, &nines(34), 6111), Some(D::new(false, "1", 6111)), 0),
    ("add", D::new(false, &nines(34), 0), Some(D::new(false, "5", -1)), 0),
    ("add", D::new(false, "1", 6111), Some(D::new(false, "1", -6176)), 0),
    ("sub", D::new(false, "1", 0), Some(D::new(false, "1", 0)), 0),
    ("sub", D::new(true, "0", 0), Some(D::new(false, "0", 0)), 0),
    ("div", D::new(false, "1", 0), Some(D::new(false, "3", 0)), 0),
    ("div", D::new(false, "2", 0), Some(D::new(false, "3", 0)), 0),
    ("div", D::new(false, "0", 0), Some(D::new(false, "0", 0)), 0),
    ("div", D::new(false, "1", 0), Some(D::new(true, "0", 0)), 0),
    ("div", D::new(false, "1", -6176), Some(D::new(false, "2", 0)), 0),
    ("div", D::new(false, "3", -6176), Some(D::new(false, "2", 0)), 0),
    ("mul", D::new(false, "1", -3088), Some(D::new(false, "5", -3089)), 0),
    ("sqrt", D::new(false, "2", 0), None, 0),
    ("sqrt", D::new(false, "4000", -3), None, 0),
    ("sqrt", D::new(true, "0", -3), None, 0),
    ("sqrt", D::new(false, "1", -6176), None, 0),
    ("sqrt", D::new(false, &nines(34), 6111), None, 0),
    ("rescale", D::new(false, "1234567890123456789012345678901234", 0), None, 2),
    ("rescale", D::new(false, &nines(34), -1), None, 0),
    ("rescale", D::new(false, "0", 0), None, -3),
    // the upper end of the specified range of scales: 6176 fraction digits (values below 1E-6142 fit)
    ("rescale", D::new(false, "0", 0), None, 6176),
    ("rescale", D::new(false, "1", -6176), None, 6176),
    ("rescale", D::new(true, "123", -6176), None, 6176),
    ("rescale", D::new(false, "5", -6170), None, 6176),
    ("rescale", D::new(false, "15", -6176), None, 6175),
    ("rescale", D::new(false, "1", 6111), None, -6111),
    ("rescale", D::new(false, "1", 6000), None, -6111),
    ("even", D::new(false, "1", 40), None, 0),
    ("even", D::new(false, "2", 34), None, 0),
    ("odd", D::new(false, "10", -1), None, 0),
    ("odd", D::new(false, "30", -1), None, 0),
    ("floor", D::new(true, "5", -1), None, 0),
    ("ceiling", D::new(true, "5", -1), None, 0),
    ("ceiling", D::new(true, "0", -1), None, 0),
    ("floor", D::new(true, "1", -100), None, 0),
    // the quotient has more than 34 digits: it is rounded before its floor is taken
    ("modulo", D::new(false, &nines(34), 0), Some(D::new(false, "2", 0)), 0),
    ("modulo", D::new(false, "2999999999999999999999999999999999", 0), Some(D::new(false, "3", -1)), 0),
    ("modulo", D::new(true, &nines(34), 0), Some(D::new(false, "2", 0)), 0),
    ("modulo", D::new(false, "12", 0), Some(D::new(true, "5", 0)), 0),
    ("modulo", D::new(true, "105", -1), Some(D::new(false, "32", -1)), 0),
    ("modulo", D::new(false, "1", 6111), Some(D::new(false, "3", -6176)), 0),
  ];
  let mk = |class: &'static str, op: &'static str, a: D, b: Option<D>, k: i32| -> Case {
    let req = match (&b, op) {
      (Some(b), _) => format!("(c02 op {} {} {})", op, a.wire(), b.wire()),
      (None, "rescale") => format!("(c02 op rescale {} {})", a.wire(), k),
      (None, _) => format!("(c02 op {} {})", op, a.wire()),
    };
    Case { class, op, a, b, k, req }
  };
  for (op, a, b, k) in corpus {
    let op_static: &'static str = BINARY.iter().chain(UNARY.iter()).find(|o| **o == op).unwrap();
    cases.push(mk("corpus", op_static, a, b, k));
  }
  for class in CLASSES {
    for op in BINARY {
      for _ in 0..per_cell {
        let (a, b) = pair(&mut rng, class);
        cases.push(mk(class, op, a, Some(b), 0));
      }
    }
    for op in UNARY {
      for _ in 0..(per_cell / 2).max(1) {
        let (a, b) = pair(&mut rng, class);
        let x = if rng.chance(1, 2) { a.clone() } else { b.clone() };
        let k = if op == "rescale" {
          match rng.below(4) {
            0 => rng.range(-6111, 6176) as i32,
            // the two ends of the specified range (DMN 1.3 table 75: scale in [-6111 .. 6176])
            1 if rng.chance(1, 8) => if rng.chance(1, 2) { 6176 } else { -6111 },
            1 => -(x.exp) + rng.range(-3, 3) as i32,
            2 => -(x.exp + x.coeff.len() as i32) + rng.range(-2, 2) as i32,
            _ => rng.range(-5, 40) as i32,
          }
          .clamp(-6111, 6176)
        } else {
          0
        };
        // rounding to k places a value that is a tie and a little more / less at that place
        let (x, k) = if op == "rescale" && class == "sticky" {
          let m = b.coeff.len();
          let kept_len = 1 + rng.below((34 - m.min(33)) as u64) as usize;
          let kept: String = a.coeff.chars().rev().take(kept_len).collect::<String>().chars().rev().collect();
          let k = rng.range(-3, 6) as i32;
          (D::new(a.neg, &format!("{}{}", kept, b.coeff), -(k + m as i32)), k)
        } else {
          (x, k)
        };
        // perfect squares for sqrt now and then
        let x = if op == "sqrt" && rng.chance(1, 4) {
          let r = rng.below(1_000_000_000) as u128 + 1;
          D::new(false, &(r * r).to_string(), 2 * (rng.range(-20, 20) as i32) + if rng.chance(1, 3) { 1 } else { 0 })
        } else {
          x
        };
        cases.push(mk(class, op, x, None, k));
      }
    }
  }

  // ---------------------------------------------------------------- run: raw + FeelNumber + FEEL
  let reqs: Vec<String> = cases.iter().map(|c| c.req.clone()).collect();
  let answers = model.ask_batch(&reqs);
  let mut judge_queue: Vec<(usize, String)> = vec![];
  let mut judgev_queue: Vec<(usize, String)> = vec![];
  // modulo: every answer of the implementation (FeelNumber `%` and FEEL `modulo`) is judged against the
  // mathematical modulo (the model mirrors the code's formula, which rounds every step): (case, layer, answer, input)
  let mut modulo_obs: Vec<(usize, &'static str, String, String)> = vec![];
  // cases whose sequential answer agrees with the model and its specification verdict: the expectations of the
  // `threads` family below
  let mut settled: Vec<TItem> = vec![];
  for (idx, (c, ans)) in cases.iter().zip(answers.iter()).enumerate() {
    let input = c.req.clone();
    let mut settled_raw: Option<String> = None;
    let mut settled_f: Option<String> = None;
    let parsed = Sexp::parse(ans);
    let l = match parsed.as_ref().and_then(|s| s.as_list()) {
      Some(l) if l.len() == 4 && l[0].as_atom() == Some("op") => l.to_vec(),
      _ => {
        rep.disagree(Kind::ImplVsModel, c.op, "driver-error", &input, "", ans);
        continue;
      }
    };
    let m_raw = match DecV::from_sexp(&l[1]) {
      Some(v) => v.wire(),
      None => l[1].to_string(),
    };
    let m_f = canon_model_f(&l[2]);
    let spec_ok = l[3].as_atom().unwrap_or("na").to_string();
    let nontrivial = m_raw != c.a.wire() && Some(m_raw.clone()) != c.b.as_ref().map(|b| b.wire());
    rep.case(&input, nontrivial);
    rep.hit(&format!("class:{}", c.class));
    rep.hit(&format!("op:{}", c.op));
    rep.hit(&format!(
      "result:{}",
      if m_raw.starts_with("(inf") {
        "infinite"
      } else if m_raw.starts_with("(nan") {
        "nan"
      } else if m_raw.starts_with("(n ") {
        match DecV::from_sexp(&l[1]) {
          Some(DecV::Fin(d)) if d.is_zero() => "zero",
          Some(DecV::Fin(d)) if d.exp + (d.coeff.len() as i32) - 1 < -6143 => "subnormal",
          Some(DecV::Fin(d)) if d.exp == 6111 && d.coeff.len() == 34 => "clamped-or-top",
          Some(DecV::Fin(d)) if d.coeff.len() == 34 => "34 digits",
          _ => "short",
        }
      } else {
        "boolean"
      }
    ));
    // ---- layer 1: dec.rs
    if c.op != "modulo" {
      match impl_raw(c.op, &c.a, c.b.as_ref(), c.k) {
        Ok(i_raw) => {
          if i_raw != m_raw {
            rep.disagree(Kind::ImplVsModel, c.op, &format!("dec.rs {} differs from the model Dec.{}", c.op, c.op), &input, &i_raw, &m_raw);
            judge_queue.push((idx, i_raw.clone()));
          } else if spec_ok == "false" && !FN_SPEC_OPS.contains(&c.op) {
            rep.disagree(Kind::ImplVsSpec, c.op, &spec_signature(c.op, &c.a), &input, &i_raw, "the specification of the operation");
          } else if i_raw != "na" {
            settled_raw = Some(m_raw.clone());
          }
        }
        Err(p) => rep.disagree(Kind::ImplVsSpec, c.op, &format!("dec.rs {} panics", c.op), &input, &p, &m_raw),
      }
    }
    // ---- layer 2: FeelNumber
    match impl_feelnumber(c.op, &c.a, c.b.as_ref(), c.k) {
      Ok(i_f) => {
        if c.op == "modulo" && !c.b.as_ref().map(|b| b.is_zero()).unwrap_or(true) {
          modulo_obs.push((idx, "FeelNumber %", i_f.clone(), format!("FeelNumber {}", c.req)));
        }
        if i_f != "na" && i_f != m_f {
          rep.disagree(Kind::ImplVsModel, c.op, &format!("FeelNumber {} differs from the model FNum.{}", c.op, c.op), &input, &i_f, &m_f);
          if JUDGED_OPS.contains(&c.op) {
            judgev_queue.push((idx, if i_f.starts_with("(n ") || i_f.starts_with("(inf") { i_f.clone() } else { "(nan)".to_string() }));
          }
        } else if spec_ok == "false" && FN_SPEC_OPS.contains(&c.op) {
          // for these the specification speaks about the FeelNumber method (dec.rs only has the raw decQuad tests)
          rep.disagree(Kind::ImplVsSpec, c.op, &spec_signature(c.op, &c.a), &input, &i_f, "the specification of the operation");
        } else if i_f != "na" {
          settled_f = Some(m_f.clone());
        }
      }
      Err(p) => rep.disagree(Kind::ImplVsSpec, c.op, &format!("FeelNumber {} panics", c.op), &input, &p, &m_f),
    }
    if (THREAD_WORK_OPS.contains(&c.op) || THREAD_INTEGRAL_OPS.contains(&c.op)) && (settled_raw.is_some() || settled_f.is_some()) {
      settled.push(TItem { class: c.class, op: c.op, a: c.a.clone(), b: c.b.clone(), k: c.k, req: c.req.clone(), raw: settled_raw, f: settled_f });
    }
    // ---- layer 3: FEEL text
    if let Some(expr) = feel_expr(c.op, c.k) {
      let va = number_of(&c.a).map(Value::Number);
      let vb = c.b.as_ref().and_then(number_of).map(Value::Number);
      if let Some(va) = va {
        let mut vars: Vec<(&str, Value)> = vec![("a", va)];
        if let Some(vb) = vb {
          vars.push(("b", vb));
        }
        match guarded(|| feel_eval(&vars, &expr)) {
          Ok(Ok(v)) => {
            let shown = value_show(&v);
            let expected = feel_expected(c.op, &c.a, c.b.as_ref(), &m_f);
            // the property on the implementation's own answer: never a non-finite number
            if shown.starts_with("(inf") || shown.starts_with("(nan") {
              let what = if shown.starts_with("(inf") { "Infinity" } else { "NaN" };
              rep.disagree(Kind::ImplVsSpec, c.op, &format!("FEEL {} yields {} instead of null", feel_family(c.op), what), &format!("{} with a={} b={}", expr, c.a.to_sci_input(), c.b.as_ref().map(|b| b.to_sci_input()).unwrap_or_default()), &shown, "a finite number or null");
            }
            if shown != expected {
              rep.disagree(Kind::ImplVsModel, c.op, &format!("FEEL {} differs from the model FNum.{}", c.op, c.op), &format!("{} {}", expr, input), &shown, &expected);
            }
            let feel_input = format!("{} with a={} b={}", expr, c.a.to_sci_input(), c.b.as_ref().map(|b| b.to_sci_input()).unwrap_or_default());
            // modulo: the specification is the mathematical modulo, judged below
            if c.op == "modulo" && !c.b.as_ref().map(|b| b.is_zero()).unwrap_or(true) {
              if shown == "null" {
                rep.disagree(Kind::ImplVsSpec, c.op, "FEEL modulo() with a divisor that is not zero is null", &feel_input, &shown, "a number");
              } else {
                modulo_obs.push((idx, "FEEL modulo()", shown.clone(), feel_input.clone()));
              }
            }
            // decimal: every scale of the specified range -6111 .. 6176 is in the domain (DMN 1.3 table 75); the generated
            // scales lie inside it, so null is wrong whenever the rescaled value exists (the specification's answer is finite)
            if c.op == "rescale" && shown == "null" && (-6111..=6176).contains(&c.k) && m_raw.starts_with("(n ") {
              rep.disagree(Kind::ImplVsSpec, c.op, "FEEL decimal() is null for a scale inside the specified range -6111..6176", &feel_input, &shown, &m_raw);
            }
          }
          Ok(Err(e)) => rep.disagree(Kind::ImplVsSpec, c.op, &format!("FEEL {} fails to evaluate", c.op), &expr, &e, &m_f),
          Err(p) => rep.disagree(Kind::ImplVsSpec, c.op, &format!("FEEL {} panics", c.op), &format!("{} {}", expr, input), &p, &m_f),
        }
      }
    }
    if rep.samples.len() < 10 && nontrivial && (c.class == "tie" || c.class == "edge" || c.class == "subnormal") && idx % 7 == 0 {
      rep.sample(json!({"request": input, "model_raw_feelnumber_spec": ans}));
    }
  }
  // the specification on the FeelNumber layer's own (differing) answers
  for (idx, i_f) in judgev_queue {
    let c = &cases[idx];
    let jreq = match (&c.b, c.op) {
      (Some(b), _) => format!("(c02 judgev {} {} {} {})", c.op, c.a.wire(), b.wire(), i_f),
      (None, "rescale") => format!("(c02 judgev rescale {} {} {})", c.a.wire(), c.k, i_f),
      (None, _) => format!("(c02 judgev {} {} {})", c.op, c.a.wire(), i_f),
    };
    let jr = model.ask(&jreq);
    if jr.contains("false") {
      rep.disagree(Kind::ImplVsSpec, c.op, &spec_signature(c.op, &c.a), &format!("FeelNumber {}", c.req), &i_f, "the specification of the operation");
    }
  }
  // the specification on the implementation's own (differing) answers
  for (idx, i_raw) in judge_queue {
    let c = &cases[idx];
    let jreq = match (&c.b, c.op) {
      (Some(b), _) => format!("(c02 judge {} {} {} {})", c.op, c.a.wire(), b.wire(), i_raw),
      (None, "rescale") => format!("(c02 judge rescale {} {} {})", c.a.wire(), c.k, i_raw),
      (None, _) => format!("(c02 judge {} {} {})", c.op, c.a.wire(), i_raw),
    };
    let jr = model.ask(&jreq);
    if jr.contains("false") {
      rep.disagree(Kind::ImplVsSpec, c.op, &spec_signature(c.op, &c.a), &c.req, &i_raw, "the specification of the operation");
    }
  }

  // modulo against the mathematical modulo `a - b*floor(a/b)`, computed exactly and rounded once (driver: ModuloSpec
  // through judgev, on some representation of the reduced answer). Signatures by branch: `modexact` says whether every
  // intermediate step of the code's formula is exact for these operands (then the model is proved to meet the specification).
  {
    // FEEL-level observations first (their input is a FEEL expression), in case order
    modulo_obs.sort_by_key(|o| (o.1 != "FEEL modulo()", o.0));
    let mut reqs: Vec<String> = vec![];
    for (idx, _, ans, _) in &modulo_obs {
      let c = &cases[*idx];
      let r = if ans.starts_with("(n ") || ans.starts_with("(inf") { ans.clone() } else { "(nan)".to_string() };
      reqs.push(format!("(c02 judgev modulo {} {} {})", c.a.wire(), c.b.as_ref().unwrap().wire(), r));
      reqs.push(format!("(c02 modexact {} {})", c.a.wire(), c.b.as_ref().unwrap().wire()));
    }
    let answers = model.ask_batch(&reqs);
    for (i, (_, layer, ans, input)) in modulo_obs.iter().enumerate() {
      let verdict = &answers[2 * i];
      let exact = answers[2 * i + 1].contains("true");
      rep.hit(if exact { "modulo:steps-exact" } else { "modulo:steps-rounded" });
      if verdict.contains("true") {
        continue;
      }
      if !verdict.contains("false") {
        rep.disagree(Kind::ImplVsModel, "modulo", "driver-error", input, ans, verdict);
        continue;
      }
      let sig = if exact {
        "modulo differs from the mathematical modulo although every step of dividend - divisor * floor(dividend / divisor) is exact"
      } else {
        "modulo differs from the mathematical modulo: the quotient is rounded before its floor is taken, or the product is rounded"
      };
      rep.hit(&format!("modulo-violates-spec:{}", layer));
      rep.disagree(Kind::ImplVsSpec, "modulo", sig, input, ans, "dividend - divisor * floor(dividend / divisor), computed exactly and rounded once to 34 digits");
    }
  }

  // ---------------------------------------------------------------- integer powers against the exact power
  // (`**` with an integer exponent: the exact result is a rational computed by the driver with unbounded
  // naturals; the property grants inexact powers two units in the last place). The exponent is given in
  // several representations of the same integer (10000, 1E+4, 100E+2): results of FEEL arithmetic are
  // reduced, so a computed exponent usually has folded trailing zeros.
  {
    let bases = [
      "1.0001", "0.9999", "2", "3", "1.5", "7", "0.5", "1.000000001", "12345.678", "-2", "-1.5", "9.99", "1234567890123456789012345678901234", "0.1", "1.1", "99", "1.0000000000000000000000000000000001",
      // short coefficients whose small powers land in the highest and the lowest decades of the range
      "0", "0.0", "-0", "0E+5",
      "2E+3072", "2.5E+3072", "1E+2048", "8E+6144", "9.9E+6144", "1E+6144", "3E+3072", "1E-6144", "1E-6143", "2E-3072", "5E-2048", "4E-6143", "1E+3072", "-3E+2048",
    ];
    let exps: [i64; 22] = [0, 1, 2, 3, 5, 7, 10, 17, 64, 100, 120, 365, 1000, 4000, 4096, 10000, 20000, -1, -2, -3, -10, -100];
    let mut pow_cases: Vec<(D, i64, D)> = vec![];
    for b in bases {
      let a = match parse_sci(&dec_to_string(&dec_from_string(b))) {
        Some(DecV::Fin(d)) => d,
        _ => continue,
      };
      for n in exps {
        if !thorough && !(b.contains('E') && n.abs() <= 3) && rng.chance(1, 2) {
          continue;
        }
        // the driver raises the coefficient to the power with unbounded naturals: keep that below 40 000 digits
        if (n.unsigned_abs() as usize) * a.coeff.len() > 40_000 {
          continue;
        }
        // representations of n: plain, and with 1..4 trailing zeros folded into the exponent
        let mut reps = vec![D::new(n < 0, &n.abs().to_string(), 0)];
        let mut c = n.abs();
        let mut e = 0;
        while c != 0 && c % 10 == 0 && e < 4 {
          c /= 10;
          e += 1;
          reps.push(D::new(n < 0, &c.to_string(), e));
        }
        for r in reps {
          pow_cases.push((a.clone(), n, r));
        }
      }
    }
    let mut reqs = vec![];
    let mut kept = vec![];
    let mut not_finite: Vec<(D, i64, D)> = vec![];
    for (a, n, nrep) in &pow_cases {
      let raw = guarded(|| show_quad(&dec_power(&a.quad(), &nrep.quad())));
      // the FEEL operator on the same operands: the power of its operands when that is a finite number, null otherwise
      // (0 ** 0, 0 ** -1: undefined)
      if let (Some(fa), Some(fnn)) = (number_of(a), number_of(nrep)) {
        let text = format!("{} ** {}", a.to_sci_input(), nrep.to_sci_input());
        let fv = guarded(|| feel_eval(&[("a", Value::Number(fa)), ("n", Value::Number(fnn))], "a ** n"));
        rep.hit("op:powint-feel");
        match (&raw, fv) {
          (Ok(Some(DecV::Fin(r))), Ok(Ok(Value::Number(x)))) => {
            if observe(&x).map(|v| v.reduced()) != Some(DecV::Fin(r.clone()).reduced()) {
              rep.disagree(Kind::ImplVsSpec, "pow", "FEEL ** differs from the power of its operands", &text, &format!("{:?}", x), &r.to_sci_input());
            }
          }
          (Ok(Some(DecV::Fin(r))), Ok(Ok(other))) => {
            rep.disagree(Kind::ImplVsSpec, "pow", "FEEL ** is not a number although the power of its operands is a finite number", &text, &value_show(&other), &r.to_sci_input())
          }
          (Ok(_), Ok(Ok(Value::Null(_)))) => rep.hit("powint-feel:null"),
          (Ok(_), Ok(Ok(other))) => rep.disagree(Kind::ImplVsSpec, "pow", "FEEL ** of an undefined or out-of-range power is not null", &text, &value_show(&other), "null"),
          (_, Ok(Err(e))) => rep.disagree(Kind::ImplVsSpec, "pow", "FEEL ** does not evaluate", &text, &e, "a number or null"),
          (_, Err(p)) => rep.disagree(Kind::ImplVsSpec, "pow", "FEEL ** panics", &text, &p, "a number or null"),
          (Err(_), _) => {}
        }
      }
      match raw {
        Ok(Some(DecV::Fin(r))) => {
          reqs.push(format!("(c02 judgepow {} {} {})", a.wire(), n, r.wire()));
          kept.push((a.clone(), *n, nrep.clone(), r));
        }
        Ok(_) => {
          rep.hit("powint:not-finite");
          not_finite.push((a.clone(), *n, nrep.clone()));
        }
        Err(p) => rep.disagree(Kind::ImplVsSpec, "pow", "dec_power panics", &format!("{} ** {}", a.to_sci_input(), nrep.to_sci_input()), &p, "a number"),
      }
    }
    let answers = model.ask_batch(&reqs);
    for (((a, n, nrep, r), req), ans) in kept.iter().zip(reqs.iter()).zip(answers.iter()) {
      rep.case(req, *n != 0 && *n != 1);
      rep.hit("op:powint");
      if ans.contains("false") {
        rep.disagree(
          Kind::ImplVsSpec,
          "pow",
          "an integer power differs from the exact power by more than two units in the last place",
          &format!("{} ** {} (exponent {} written as {})", a.to_sci_input(), nrep.to_sci_input(), n, nrep.to_sci_input()),
          &r.to_sci_input(),
          "within two units in the 34th digit of the exact power",
        );
      } else if ans.contains("na") {
        rep.hit("powint:not-judged");
      }
    }
    // a power that is not a finite number although the exact power lies inside the range of normal numbers
    let rreqs: Vec<String> = not_finite.iter().map(|(a, n, _)| format!("(c02 powrange {} {})", a.wire(), n)).collect();
    let ranswers = model.ask_batch(&rreqs);
    for ((a, _n, nrep), ans) in not_finite.iter().zip(ranswers.iter()) {
      if ans.contains("true") {
        rep.disagree(
          Kind::ImplVsSpec,
          "pow",
          "an integer power inside the range of decimal128 is not a finite number",
          &format!("{} ** {}", a.to_sci_input(), nrep.to_sci_input()),
          "not a finite number (null at the FEEL level)",
          "within two units in the 34th digit of the exact power",
        );
      }
    }
  }

  // ---------------------------------------------------------------- log and exp, through FEEL, judged against
  // enclosures of the true value (Dmn/Driver/Transcend.lean): two units in the last place; null exactly outside
  // the domain
  {
    let n_t = if thorough { 20_000 } else { 900 };
    let mut args: Vec<(&'static str, D)> = vec![];
    for t in ["1", "2", "10", "0.5", "0.1", "100", "2.718281828459045235360287471352662", "1.000000000000000000000000000000001", "0.9999999999999999999999999999999999", "1E-6176", "9.999999999999999999999999999999999E+6144", "1.0", "3", "7E+100", "1.5E-300"] {
      if let Some(DecV::Fin(d)) = parse_sci(&dec_to_string(&dec_from_string(t))) {
        args.push(("log", d));
      }
    }
    for t in ["0", "1", "-1", "0.5", "10", "100", "-100", "1000", "14000", "-14000", "1E-40", "-1E-40", "0.6931471805599453094172321214581766", "2.302585092994045684017991454684364", "12345.6789", "-0.000001", "7", "2.5"] {
      if let Some(DecV::Fin(d)) = parse_sci(&dec_to_string(&dec_from_string(t))) {
        args.push(("exp", d));
      }
    }
    for i in 0..n_t {
      let class = CLASSES[i % CLASSES.len()];
      let (a, b) = pair(&mut rng, class);
      let x = if rng.chance(1, 2) { a } else { b };
      if rng.chance(1, 2) {
        // the logarithm of any finite number (positive ones have one)
        args.push(("log", x));
      } else {
        // arguments of exp where the result is a normal number: |x| below 14 000
        let len = 1 + rng.below(34) as usize;
        let c = digits(&mut rng, len);
        let e = rng.range(-40, 4) as i32 - len as i32 + 1;
        args.push(("exp", D::new(rng.chance(1, 2), &c, e)));
      }
    }
    // zero and negative arguments of log
    args.push(("log", D::new(false, "0", 0)));
    args.push(("log", D::new(true, "1", 0)));
    args.push(("log", D::new(true, "25", -1)));
    let mut reqs = vec![];
    let mut kept: Vec<(&'static str, D, D)> = vec![];
    for (f, x) in &args {
      let xv = match number_of(x) {
        Some(n) => n,
        None => continue,
      };
      let expr = format!("{}(a)", f);
      rep.hit(&format!("op:{}", f));
      let positive = !x.neg && x.coeff.chars().any(|c| c != '0');
      match guarded(|| feel_eval(&[("a", Value::Number(xv))], &expr)) {
        Ok(Ok(Value::Number(n))) => match observe(&n) {
          Some(DecV::Fin(r)) => {
            if *f == "log" && !positive {
              rep.disagree(Kind::ImplVsSpec, "log", "log of zero or of a negative number is not null", &format!("log({})", x.to_sci_input()), &r.to_sci_input(), "null");
            } else {
              reqs.push(format!("(c02 judge{} {} {})", if *f == "log" { "ln" } else { "exp" }, x.wire(), r.wire()));
              kept.push((*f, x.clone(), r));
            }
          }
          _ => {
            // the known overflow finding keeps its signature (`FEEL exp() yields Infinity instead of null`)
            let shown = format!("{:?}", n);
            let what = if shown.contains("Inf") { "Infinity" } else { "NaN" };
            rep.disagree(Kind::ImplVsSpec, "feel_arith_finite", &format!("FEEL {}() yields {} instead of null", f, what), &format!("{}({})", f, x.to_sci_input()), &shown, "a finite number or null")
          }
        },
        Ok(Ok(Value::Null(_))) => {
          // null is right for log outside its domain and for exp beyond the range
          let in_domain = if *f == "log" {
            positive
          } else {
            // |x| < 14 000: the result is a normal decimal128 number
            let mag = x.coeff.trim_start_matches('0').len() as i32 + x.exp;
            mag <= 4 && !(mag == 5)
          };
          if in_domain && (*f == "log" || x.coeff.trim_start_matches('0').len() as i32 + x.exp <= 4) {
            rep.disagree(Kind::ImplVsSpec, *f, &format!("{}() of a number inside its domain is null", f), &format!("{}({})", f, x.to_sci_input()), "null", "a number within two units in the last place of the true value");
          }
        }
        Ok(Ok(other)) => rep.disagree(Kind::ImplVsSpec, *f, &format!("{}() yields a value that is not a number", f), &format!("{}({})", f, x.to_sci_input()), &value_show(&other), "a number or null"),
        Ok(Err(e)) => rep.disagree(Kind::ImplVsModel, *f, "the FEEL text of the case does not evaluate", &expr, &e, "a value"),
        Err(p) => rep.disagree(Kind::ImplVsSpec, *f, &format!("{}() panics", f), &format!("{}({})", f, x.to_sci_input()), &p, "a number or null"),
      }
    }
    let answers = model.ask_batch(&reqs);
    for (((f, x, r), req), ans) in kept.iter().zip(reqs.iter()).zip(answers.iter()) {
      rep.case(req, true);
      if ans.contains("false") {
        rep.disagree(
          Kind::ImplVsSpec,
          *f,
          &format!("{}() differs from the true value by more than two units in the last place", f),
          &format!("{}({})", f, x.to_sci_input()),
          &r.to_sci_input(),
          "within two units in the 34th digit of the true value",
        );
      } else if ans.contains("na") {
        rep.hit(&format!("{}:not-judged", f));
      } else if ans.contains("true") {
        rep.hit(&format!("{}:judged-ok", f));
      } else {
        rep.disagree(Kind::ImplVsModel, *f, "driver-error", req, "", ans);
      }
    }
  }

  // ---------------------------------------------------------------- square roots in bulk: a root lands next to a
  // rounding midpoint of the 34th digit for about one argument in ten thousand, and only there can the last
  // correction step of the algorithm matter
  {
    let n_sqrt = if thorough { 2_000_000 } else { 80_000 };
    let mut reqs = vec![];
    let mut kept: Vec<(D, D)> = vec![];
    for _ in 0..n_sqrt {
      let len = if rng.chance(3, 4) { 34 } else { 1 + rng.below(34) as usize };
      let a = D::new(false, &digits(&mut rng, len), rng.range(-40, 40) as i32);
      match guarded(|| show_quad(&dec_square_root(&a.quad()))) {
        Ok(Some(DecV::Fin(r))) => {
          reqs.push(format!("(c02 judge sqrt {} {})", a.wire(), r.wire()));
          kept.push((a, r));
        }
        Ok(_) => rep.hit("sqrt-bulk:not-finite"),
        Err(p) => rep.disagree(Kind::ImplVsSpec, "sqrt", "dec_square_root panics", &a.to_sci_input(), &p, "a number"),
      }
    }
    let (answers, n_req) = ask_parallel(&cfg.driver, &reqs);
    model.requests += n_req;
    let mut judged = 0u64;
    for (((a, r), req), ans) in kept.iter().zip(reqs.iter()).zip(answers.iter()) {
      if ans.contains("false") {
        rep.case(req, true);
        rep.disagree(Kind::ImplVsSpec, "sqrt", "sqrt does not return the specified (correctly rounded) result", &format!("sqrt({})", a.to_sci_input()), &r.to_sci_input(), "the correctly rounded root");
      } else if ans.contains("true") {
        judged += 1;
      }
    }
    // counted once (the cases are uniform): keeps the report small
    rep.case("sqrt-bulk", true);
    rep.extra.insert("sqrt_bulk_judged".into(), json!(judged));
  }

  // ---------------------------------------------------------------- square roots next to perfect squares
  near_square_family(&mut rep, &mut model, &mut rng, cfg, thorough);

  // ---------------------------------------------------------------- the guards around the number library
  feel_glue_family(&mut rep, &mut model, &mut rng, thorough);

  // ---------------------------------------------------------------- every operation on every representation of a value
  cohort_family(&mut rep, &mut model, &mut rng, cfg, thorough);

  // ---------------------------------------------------------------- short coefficients at the two ends of the exponent range
  clamp_family(&mut rep, &mut model, cfg, thorough);

  // ---------------------------------------------------------------- comparison
  let n_cmp = if thorough { 200_000 } else { 6_000 };
  let mut cmp_cases: Vec<(D, D)> = vec![];
  for i in 0..n_cmp {
    let class = CLASSES[i % CLASSES.len()];
    cmp_cases.push(pair(&mut rng, class));
  }
  let reqs: Vec<String> = cmp_cases.iter().map(|(a, b)| format!("(c02 cmp {} {})", a.wire(), b.wire())).collect();
  let answers = model.ask_batch(&reqs);
  for (((a, b), req), ans) in cmp_cases.iter().zip(reqs.iter()).zip(answers.iter()) {
    rep.case(req, a != b);
    rep.hit("op:cmp");
    let m = Sexp::parse(ans).and_then(|s| s.as_list().and_then(|l| l.get(1).and_then(|x| x.as_atom().map(|s| s.to_string())))).unwrap_or_default();
    let imp = guarded(|| {
      let x = number_of(a).unwrap();
      let y = number_of(b).unwrap();
      let flag = show_quad(&dec_compare(&a.quad(), &b.quad()));
      let raw = match flag {
        Some(DecV::Fin(d)) if d.is_zero() => "eq",
        Some(DecV::Fin(d)) if d.neg => "lt",
        Some(DecV::Fin(_)) => "gt",
        _ => "nan",
      };
      (raw.to_string(), ord_str(x.partial_cmp(&y)).to_string(), x == y, ord_str(y.partial_cmp(&x)).to_string())
    });
    match imp {
      Ok((raw, pc, eq, rev)) => {
        if raw != m {
          rep.disagree(Kind::ImplVsModel, "cmp", "dec_compare differs from the model Dec.cmp", req, &raw, &m);
        }
        if pc != m || eq != (m == "eq") {
          rep.disagree(Kind::ImplVsModel, "cmp", "FeelNumber comparison differs from the model Dec.cmp", req, &format!("{} {}", pc, eq), &m);
        }
        // law on the implementation's answers: antisymmetry
        let flipped = match pc.as_str() {
          "lt" => "gt",
          "gt" => "lt",
          x => x,
        };
        if rev != flipped {
          rep.disagree(Kind::ImplVsSpec, "cmp", "comparison is not antisymmetric", req, &format!("{} / {}", pc, rev), "mirror images");
        }
        // law: equal values compare equal whatever their trailing zeros (reduced forms equal ⇔ eq)
        let same = a.reduced() == b.reduced() || (a.is_zero() && b.is_zero());
        if same != eq {
          rep.disagree(Kind::ImplVsSpec, "cmp", "numbers of equal value do not compare equal (or unequal ones do)", req, &eq.to_string(), &same.to_string());
        }
      }
      Err(p) => rep.disagree(Kind::ImplVsSpec, "cmp", "comparison panics", req, &p, &m),
    }
  }

  // ---------------------------------------------------------------- FEEL chains and unmodelled operations
  // (exp, log, inexact power: not modelled; only "finite number or null" is checked)
  let mut exprs: Vec<String> = vec![
    "9999999999999999999999999999999999 * 10 ** 6111 * 10".into(),
    "10 ** 6144 + 10 ** 6144".into(),
    "10 ** 6144 * 10".into(),
    "10 ** 6144 * 10 * 0".into(),
    "10 ** 6144 * 10 - 10 ** 6144 * 10".into(),
    "-(10 ** 6144) - 10 ** 6144".into(),
    "1 / (10 ** -6176) / 0.0000000001".into(),
    "10 ** 6145".into(),
    "10 ** -6177".into(),
    "0 ** 0".into(),
    "0 ** -1".into(),
    "(-8) ** 0.5".into(),
    "exp(100000)".into(),
    "exp(-100000)".into(),
    "exp(14149)".into(),
    "exp(1)".into(),
    "log(0)".into(),
    "log(-1)".into(),
    "log(10)".into(),
    "sqrt(-1)".into(),
    "sqrt(2)".into(),
    "decimal(1234567890123456789012345678901234, 2)".into(),
    "decimal(10 ** 40, 0)".into(),
    "decimal(1, 6175)".into(),
    "decimal(0, -3)".into(),
    "string(decimal(0, -3))".into(),
    "modulo(10 ** 6144, 3)".into(),
    "modulo(10, 0)".into(),
    "1 / 0".into(),
    "even(10 ** 40)".into(),
    "even(2 * 10 ** 34)".into(),
    "odd(1.0)".into(),
    "odd(3.00)".into(),
    "odd(10 ** 2 + 1)".into(),
    "abs(-(10 ** 6144) * 10)".into(),
    "floor(10 ** 6144 * 10)".into(),
  ];
  let n_chain = if thorough { 20_000 } else { 1_500 };
  for _ in 0..n_chain {
    let big = |rng: &mut Rng| -> String {
      match rng.below(6) {
        0 => format!("10 ** {}", rng.range(6000, 6144)),
        1 => format!("10 ** -{}", rng.range(6000, 6176)),
        2 => format!("{}", rng.below(1000)),
        3 => format!("{}.{}", rng.below(100), rng.below(1000)),
        4 => format!("(-{})", rng.below(50)),
        _ => format!("{} * 10 ** {}", 1 + rng.below(99), rng.range(-6100, 6100)),
      }
    };
    let e = match rng.below(10) {
      0 => format!("{} * {} * {}", big(&mut rng), big(&mut rng), big(&mut rng)),
      1 => format!("{} + {} * {}", big(&mut rng), big(&mut rng), big(&mut rng)),
      2 => format!("{} / {} / {}", big(&mut rng), big(&mut rng), big(&mut rng)),
      3 => format!("exp({})", big(&mut rng)),
      4 => format!("log({})", big(&mut rng)),
      5 => format!("{} ** {}", big(&mut rng), big(&mut rng)),
      6 => format!("sqrt({})", big(&mut rng)),
      7 => format!("modulo({}, {})", big(&mut rng), big(&mut rng)),
      8 => format!("decimal({}, {})", big(&mut rng), rng.range(-40, 40)),
      _ => format!("{} - {} * {}", big(&mut rng), big(&mut rng), big(&mut rng)),
    };
    exprs.push(e);
  }
  for e in &exprs {
    rep.case(&format!("feel {}", e), true);
    let fam = if e.starts_with("exp(") {
      "exp()"
    } else if e.starts_with("log(") {
      "log()"
    } else if e.starts_with("sqrt(") {
      "sqrt()"
    } else if e.starts_with("decimal(") || e.starts_with("string(decimal(") {
      "decimal()"
    } else if e.starts_with("modulo(") {
      "modulo()"
    } else if e.starts_with("even(") || e.starts_with("odd(") {
      "even()/odd()"
    } else if e.starts_with("abs(") || e.starts_with("floor(") {
      "arithmetic operators"
    } else if e.contains("**") && !e.contains(" * ") && !e.contains(" + ") && !e.contains(" / ") && !e.contains(" - ") {
      "exponentiation"
    } else {
      "arithmetic operators"
    };
    rep.hit(&format!("feel-chain:{}", fam));
    match guarded(|| feel_eval(&[], e)) {
      Ok(Ok(Value::Number(n))) => {
        let shown = format!("{:?}", n);
        if shown.contains("Inf") || shown.contains("NaN") {
          let what = if shown.contains("Inf") { "Infinity" } else { "NaN" };
          rep.disagree(Kind::ImplVsSpec, "feel_arith_finite", &format!("FEEL {} yields {} instead of null", fam, what), e, &shown, "a finite number or null");
        }
      }
      Ok(Ok(_)) => {}
      Ok(Err(_)) => {}
      Err(p) => rep.disagree(Kind::ImplVsSpec, "feel_arith_finite", &format!("FEEL {} panics", fam), e, &p, "a finite number or null"),
    }
  }
  // fixed expectations for the few FEEL-level spellings whose specification is plain arithmetic
  for (e, want) in [("odd(1.0)", "true"), ("odd(3.00)", "true"), ("even(10 ** 40)", "true"), ("even(2 * 10 ** 34)", "true"), ("odd(10 ** 2 + 1)", "true"), ("even(2.0)", "true"), ("odd(2.5)", "false")] {
    if let Ok(Ok(v)) = guarded(|| feel_eval(&[], e)) {
      let got = value_show(&v);
      if got != want {
        let sig = if e.starts_with("odd") { "odd() is false for an odd integer written with fraction zeros (is_integer tests exponent = 0)" } else { "even() is false for even integers of 2E+34 and above (remainder: Division impossible)" };
        rep.disagree(Kind::ImplVsSpec, "odd_even_spec", sig, e, &got, want);
      }
    }
  }
  // the range of scales of decimal(): [-6111 .. 6176] (DMN 1.3 table 75), both ends included, null outside
  for (e, want) in [
    ("decimal(0, 6176)", "(n false 0 0)"),
    ("decimal(10 ** -6176, 6176)", "(n false 1 -6176)"),
    ("decimal(-3 * 10 ** -6170, 6176)", "(n true 3 -6170)"),
    ("decimal(10 ** 6000, -6111)", "(n false 0 0)"),
    ("decimal(0, 6177)", "null"),
    ("decimal(1, 6177)", "null"),
    ("decimal(0, -6112)", "null"),
    ("decimal(1, 100000)", "null"),
  ] {
    rep.case(&format!("feel {}", e), true);
    match guarded(|| feel_eval(&[], e)) {
      Ok(Ok(v)) => {
        let got = value_show(&v);
        if got != want {
          let sig = if want == "null" { "FEEL decimal() accepts a scale outside the specified range -6111..6176" } else { "FEEL decimal() is null for a scale inside the specified range -6111..6176" };
          rep.disagree(Kind::ImplVsSpec, "rescale", sig, e, &got, want);
        }
      }
      Ok(Err(err)) => rep.disagree(Kind::ImplVsSpec, "rescale", "FEEL decimal() fails to evaluate", e, &err, want),
      Err(p) => rep.disagree(Kind::ImplVsSpec, "rescale", "FEEL decimal() panics", e, &p, want),
    }
  }
  // integer powers of -1 are 1 or -1 exactly, whatever the size of the exponent (decNumberPower refuses a negative
  // base when the integer exponent has more than 9 digits)
  for (e, want) in [
    ("(-1) ** 999999999", "(n true 1 0)"),
    ("(-1) ** 1000000000", "(n false 1 0)"),
    ("(-1) ** 1000000001", "(n true 1 0)"),
    ("(-1.0) ** 4000000000", "(n false 1 0)"),
    ("(-1) ** (10 ** 40)", "(n false 1 0)"),
    ("(-1) ** -1000000001", "(n true 1 0)"),
    ("1 ** (10 ** 40)", "(n false 1 0)"),
  ] {
    rep.case(&format!("feel {}", e), true);
    rep.hit("feel-chain:power of -1");
    match guarded(|| feel_eval(&[], e)) {
      Ok(Ok(v)) => {
        let got = value_show(&v);
        if got != want {
          rep.disagree(Kind::ImplVsSpec, "pow", "an integer power of -1 is not 1 or -1 (negative base, integer exponent of more than 9 digits)", e, &got, want);
        }
      }
      Ok(Err(err)) => rep.disagree(Kind::ImplVsSpec, "pow", "FEEL ** does not evaluate", e, &err, want),
      Err(p) => rep.disagree(Kind::ImplVsSpec, "pow", "FEEL ** panics", e, &p, want),
    }
  }
  // ---------------------------------------------------------------- the same operations from many threads at once
  // (last: a context shared between threads can stay changed for the rest of the process)
  threads_family(&mut rep, &settled, thorough);

  rep.extra.insert("unproved_ops".into(), json!(["exp and log: judged against computed enclosures of the true value (Driver/Transcend.lean), not modelled", "pow_inexact"]));
  rep.exhaustive = false;
  rep.model_requests = model.requests;
  rep
}

/// The integer part (towards zero) of a finite number, when it is small enough to matter here; `None`: beyond +-10^9.
fn trunc_int(d: &D) -> Option<i64> {
  let mag: i64 = if d.is_zero() {
    0
  } else if d.exp >= 0 {
    if d.coeff.len() as i32 + d.exp > 10 {
      return None;
    }
    format!("{}{}", d.coeff, "0".repeat(d.exp as usize)).parse().ok()?
  } else {
    let f = (-d.exp) as usize;
    if f >= d.coeff.len() {
      0
    } else {
      let ip = &d.coeff[..d.coeff.len() - f];
      if ip.len() > 10 {
        return None;
      }
      ip.parse().ok()?
    }
  };
  Some(if d.neg { -mag } else { mag })
}

/// `feelglue`: what builders.rs / core.rs do around the number library, against the model `FeelNum.*`
/// (`Model/DecFeel.lean`, request `feelnum`) and against expectations written out here: `decimal(a, s)` with scales
/// that are not integers (`2.7`, `-0.5`, `6176.9`, `-6111.5`), negative zeros, integers with folded zeros (`1E+1`),
/// both ends of the range and the first values outside (null there: the integer part of the scale decides), huge
/// scales; `/` and `modulo` by zeros of both signs and every exponent (null); `sqrt` of negative numbers (null), of
/// zeros of both signs and every exponent (zero). Numbers are judged by the specification of the operation.
fn feel_glue_family(rep: &mut Report, model: &mut Model, rng: &mut Rng, thorough: bool) {
  let n = if thorough { 40_000 } else { 1_200 };
  // (operation, a, b)
  let mut cases: Vec<(&'static str, D, Option<D>)> = vec![];
  let scales_fixed: Vec<D> = [
    (false, "27", -1), (true, "5", -1), (true, "0", 0), (true, "0", -3), (false, "61769", -1), (false, "6176", 0), (false, "6177", 0), (false, "61770", -1), (true, "61115", -1), (true, "6111", 0),
    (true, "6112", 0), (true, "61120", -1), (false, "1", 1), (false, "6", 3), (false, "7", 3), (false, "1", 10), (true, "1", 10), (false, "1", 6111), (false, "29999", -4), (false, "2", 0), (false, "200", -2),
    (false, "1", -6176), (true, "9", -1), (false, "34", 0), (false, "339", -1),
  ]
  .iter()
  .map(|(n, c, e)| D::new(*n, c, *e))
  .collect();
  for s in &scales_fixed {
    for a in [D::new(false, "1", 0), D::new(true, "25", -1), D::new(false, "123456789", -4), D::new(false, "0", 0), D::new(false, "5", -7000 + 6176 - 6176 + 824)] {
      let a = if a.exp < -6176 { D::new(false, "5", -6176) } else { a };
      cases.push(("decimal", a, Some(s.clone())));
    }
  }
  for _ in 0..n {
    let class = CLASSES[rng.below(CLASSES.len() as u64) as usize];
    let (a, b) = pair(rng, class);
    match rng.below(6) {
      0 | 1 | 2 => {
        // a scale with a fraction, around an integer inside, at the ends of, or outside the range
        let k: i64 = match rng.below(5) {
          0 => rng.range(-6115, 6180),
          1 => *rng.pick(&[-6112i64, -6111, -6110, 6175, 6176, 6177]),
          2 => -(a.exp as i64) + rng.range(-3, 3),
          _ => rng.range(-40, 40),
        };
        let frac_len = rng.below(4) as usize;
        let frac = if frac_len == 0 { String::new() } else { digits(rng, frac_len) };
        let s = D::new(k < 0 || (k == 0 && rng.chance(1, 2)), &format!("{}{}", k.abs(), frac), -(frac_len as i32));
        let s = if frac_len == 0 && rng.chance(1, 3) { s.reduced() } else { s };
        cases.push(("decimal", a, Some(s)));
      }
      3 => cases.push((*rng.pick(&["div", "modulo"]), a, Some(D::new(rng.chance(1, 2), "0", any_exp(rng))))),
      4 => cases.push(("sqrt", D::new(true, &a.coeff, a.exp), None)),
      _ => cases.push(("sqrt", D::new(rng.chance(1, 2), "0", any_exp(rng)), None)),
    }
    let _ = b;
  }
  let reqs: Vec<String> = cases
    .iter()
    .map(|(op, a, b)| match b {
      Some(b) => format!("(c02 feelnum {} {} {})", op, a.wire(), b.wire()),
      None => format!("(c02 feelnum {} {})", op, a.wire()),
    })
    .collect();
  let answers = model.ask_batch(&reqs);
  let mut jreqs: Vec<String> = vec![];
  let mut jinfo: Vec<(String, String)> = vec![];
  for (((op, a, b), req), ans) in cases.iter().zip(reqs.iter()).zip(answers.iter()) {
    rep.case(req, true);
    rep.hit(&format!("feelglue:{}", op));
    let expr = match *op {
      "decimal" => "decimal(a, b)",
      "div" => "a / b",
      "modulo" => "modulo(a, b)",
      _ => "sqrt(a)",
    };
    let shown_input = format!("{} with a={} b={}", expr, a.to_sci_input(), b.as_ref().map(|b| b.to_sci_input()).unwrap_or_default());
    let mut vars: Vec<(&str, Value)> = vec![];
    match number_of(a) {
      Some(n) => vars.push(("a", Value::Number(n))),
      None => continue,
    }
    if let Some(b) = b {
      match number_of(b) {
        Some(n) => vars.push(("b", Value::Number(n))),
        None => continue,
      }
    }
    let got = match guarded(|| feel_eval(&vars, expr)) {
      Ok(Ok(v)) => value_show(&v),
      Ok(Err(e)) => {
        rep.disagree(Kind::ImplVsSpec, op, &format!("FEEL {} fails to evaluate", op), &shown_input, &e, "a number or null");
        continue;
      }
      Err(p) => {
        rep.disagree(Kind::ImplVsSpec, op, &format!("FEEL {} panics", op), &shown_input, &p, "a number or null");
        continue;
      }
    };
    // the model of the glue
    let m = Sexp::parse(ans).and_then(|s| s.as_list().and_then(|l| l.get(1).cloned()));
    let m_shown = match &m {
      Some(x) => match DecV::from_sexp(x) {
        Some(v) => v.reduced().wire(),
        None => x.to_string(),
      },
      None => ans.clone(),
    };
    if got != m_shown {
      rep.disagree(Kind::ImplVsModel, op, &format!("FEEL {} differs from the model FeelNum.{}", op, op), &shown_input, &got, &m_shown);
    }
    // the written-out expectation
    match *op {
      "div" | "modulo" => {
        if got != "null" {
          rep.disagree(Kind::ImplVsSpec, op, &format!("FEEL {} by zero is not null", if *op == "div" { "division" } else { "modulo()" }), &shown_input, &got, "null");
        }
      }
      "sqrt" => {
        if a.is_zero() {
          if !(got.starts_with("(n ") && got.contains(" 0 ")) {
            rep.disagree(Kind::ImplVsSpec, op, "FEEL sqrt() of a zero is not zero", &shown_input, &got, "0");
          }
        } else if got != "null" {
          rep.disagree(Kind::ImplVsSpec, op, "FEEL sqrt() of a negative number is not null", &shown_input, &got, "null");
        }
      }
      _ => {
        let s = b.as_ref().unwrap();
        let k = trunc_int(s);
        let inside = matches!(k, Some(k) if (-6111..=6176).contains(&k));
        rep.hit(if inside { "feelglue:decimal:scale inside the range" } else { "feelglue:decimal:scale outside the range" });
        if !inside {
          if got != "null" {
            rep.disagree(Kind::ImplVsSpec, "rescale", "FEEL decimal() accepts a scale outside the specified range -6111..6176", &shown_input, &got, "null");
          }
        } else if got == "null" {
          rep.disagree(Kind::ImplVsSpec, "rescale", "FEEL decimal() is null for a scale inside the specified range -6111..6176", &shown_input, &got, "a number");
        } else if got.starts_with("(n ") {
          // a zero result is observed reduced (exponent 0): the specification speaks about the zero at the scale
          let judged = match Sexp::parse(&got).as_ref().and_then(DecV::from_sexp) {
            Some(DecV::Fin(z)) if z.is_zero() => D { neg: z.neg, coeff: "0".into(), exp: -(k.unwrap() as i32) }.wire(),
            _ => got.clone(),
          };
          jreqs.push(format!("(c02 judgev rescale {} {} {})", a.wire(), k.unwrap(), judged));
          jinfo.push((shown_input.clone(), got.clone()));
        } else {
          // NaN / Infinity inside a number: the known finding keeps its signature
          let what = if got.starts_with("(inf") { "Infinity" } else { "NaN" };
          rep.disagree(Kind::ImplVsSpec, "rescale", &format!("FEEL decimal() yields {} instead of null", what), &shown_input, &got, "a finite number or null");
        }
      }
    }
  }
  let janswers = model.ask_batch(&jreqs);
  for ((input, got), ans) in jinfo.iter().zip(janswers.iter()) {
    if ans.contains("false") {
      rep.disagree(Kind::ImplVsSpec, "rescale", "FEEL decimal() with a scale that is not a plain integer does not round half-even at the integer part of the scale", input, got, "the correctly rounded value");
    }
  }
}

/// Plain decimal text (the syntax of a FEEL literal) of a non-negative finite number.
fn plain_literal(d: &D) -> String {
  let len = d.coeff.len();
  if d.exp >= 0 {
    if d.is_zero() {
      "0".to_string()
    } else {
      format!("{}{}", d.coeff, "0".repeat(d.exp as usize))
    }
  } else {
    let f = (-d.exp) as usize;
    if f < len {
      format!("{}.{}", &d.coeff[..len - f], &d.coeff[len - f..])
    } else {
      format!("0.{}{}", "0".repeat(f - len), d.coeff)
    }
  }
}

const NEAR_SQUARE_SIGNATURE: &str = "sqrt next to a perfect square does not return the specified (correctly rounded) result";

/// `nearsquare`: square roots of numbers whose coefficient is a perfect square `n*n` or one of its neighbours
/// `n*n + d` (d = -3 .. 3, now and then up to +-2048: the spacing of binary floating point at 2^64), for roots `n` of
/// every length 1 .. 17 digits (squares of 1 .. 34 digits), powers of two and ten and their neighbours, the roots
/// next to 2^53, 2^63, 2^64 (where a detour through f64 / u64 / i64 loses digits); written as a whole number
/// (exponent 0), as a whole number with fraction zeros (`n.000`), with folded trailing zeros, and at even and odd
/// exponents over the whole range. Four observation points: `dec_square_root`, `FeelNumber::sqrt`, FEEL `sqrt(a)`
/// with the operand bound to `a`, and FEEL `sqrt(<literal>)`. Oracle: the specification `SqrtSpec` (the correctly
/// rounded root, stated through squares of scaled integers), decided by the driver on every answer of the
/// implementation — the implementation's answers are never compared with each other only.
fn near_square_family(rep: &mut Report, model: &mut Model, rng: &mut Rng, cfg: &Cfg, thorough: bool) {
  let per_len = if thorough { 3_000 } else { 36 };
  let limit: u128 = 10u128.pow(34);
  let mut roots: Vec<u128> = vec![];
  for k in 0..=56u32 {
    let p = 1u128 << k;
    roots.extend([p.saturating_sub(1), p, p + 1]);
  }
  for k in 0..=17u32 {
    let p = 10u128.pow(k);
    roots.extend([p.saturating_sub(1), p, p + 1, 3 * p, 3 * p + 1]);
  }
  // floor(sqrt(2^53)), floor(sqrt(2^63)), sqrt(2^64) and neighbours; floor(sqrt(10^33)); the largest root
  roots.extend([94906265, 94906266, 94906267, 3037000499, 3037000500, 4294967295, 4294967296, 4294967297, 31622776601683793, 31622776601683794, 99999999999999999]);
  for len in 1..=17usize {
    for _ in 0..per_len {
      roots.push(digits(rng, len).parse::<u128>().unwrap());
    }
  }
  roots.retain(|r| *r >= 1 && *r * *r < limit);
  // operands
  let mut ops: Vec<(u128, i64, D)> = vec![];
  let spell = |rng: &mut Rng, v: u128, kind: u64| -> D {
    let text = v.to_string();
    match kind {
      // a whole number
      0 => D::new(false, &text, 0),
      // a whole number written with fraction zeros
      1 => {
        let room = 34 - text.len();
        let z = if room == 0 { 0 } else { 1 + rng.below(room as u64) as usize };
        D::new(false, &format!("{}{}", text, "0".repeat(z)), -(z as i32))
      }
      // an even exponent: the value is a perfect square's neighbour scaled by a power of a hundred
      2 => D::new(false, &text, 2 * rng.range(-20, 20) as i32),
      3 => D::new(false, &text, 2 * rng.range(-3070, 3040) as i32),
      // an odd exponent
      4 => D::new(false, &text, 2 * rng.range(-20, 20) as i32 + 1),
      _ => D::new(false, &text, 2 * rng.range(-3070, 3040) as i32 + 1),
    }
  };
  for r in &roots {
    let sq = r * r;
    let mut deltas: Vec<i64> = vec![-2, -1, 0, 1, 2];
    for _ in 0..2 {
      deltas.push(match rng.below(4) {
        0 => *rng.pick(&[-3i64, 3]),
        1 => rng.range(-2048, 2048),
        2 => *rng.pick(&[-1024i64, -512, -256, -128, 128, 256, 512, 1024, 2047]),
        _ => rng.range(-3, 3),
      });
    }
    for (i, dl) in deltas.iter().enumerate() {
      let v = sq as i128 + *dl as i128;
      if v < 0 || v as u128 >= limit {
        continue;
      }
      let v = v as u128;
      let kind = if i < 5 && rng.chance(2, 3) { 0 } else { 1 + rng.below(5) };
      let d = spell(rng, v, kind);
      // a coefficient with trailing zeros also in its reduced spelling (what every computed number looks like)
      if d.coeff.ends_with('0') && rng.chance(1, 2) {
        ops.push((*r, *dl, d.reduced()));
      }
      ops.push((*r, *dl, d));
    }
  }
  // ---- layer 1: dec_square_root, judged
  let mut reqs: Vec<String> = vec![];
  let mut raws: Vec<Option<D>> = vec![];
  for (_, _, a) in &ops {
    let raw = guarded(|| show_quad(&dec_square_root(&a.quad())));
    match raw {
      Ok(Some(DecV::Fin(r))) => {
        reqs.push(format!("(c02 judge sqrt {} {})", a.wire(), r.wire()));
        raws.push(Some(r));
      }
      Ok(other) => {
        rep.disagree(Kind::ImplVsSpec, "sqrt", "sqrt of a non-negative number is not a finite number", &format!("dec_square_root({})", a.to_sci_input()), &format!("{:?}", other), "the correctly rounded root");
        raws.push(None);
      }
      Err(p) => {
        rep.disagree(Kind::ImplVsSpec, "sqrt", "dec_square_root panics", &a.to_sci_input(), &p, "a number");
        raws.push(None);
      }
    }
  }
  let (answers, n_req) = ask_parallel(&cfg.driver, &reqs);
  model.requests += n_req;
  let mut raw_ok: Vec<bool> = vec![false; ops.len()];
  {
    let mut it = answers.iter();
    for (i, (_, _, a)) in ops.iter().enumerate() {
      if let Some(r) = &raws[i] {
        let ans = it.next().map(|s| s.as_str()).unwrap_or("");
        if ans.contains("true") {
          raw_ok[i] = true;
        } else if ans.contains("false") {
          rep.disagree(Kind::ImplVsSpec, "sqrt", NEAR_SQUARE_SIGNATURE, &format!("dec_square_root({})", a.to_sci_input()), &r.to_sci_input(), "the correctly rounded root");
        } else {
          rep.disagree(Kind::ImplVsModel, "sqrt", "driver-error", &a.to_sci_input(), "", ans);
        }
      }
    }
  }
  // ---- layers 2 and 3: FeelNumber::sqrt, FEEL sqrt(a), FEEL sqrt(literal); an answer that is not the reduced
  // (already judged) dec.rs answer goes to the specification by itself
  let mut jreqs: Vec<String> = vec![];
  let mut jinfo: Vec<(usize, String, String)> = vec![];
  for (i, (root, dl, a)) in ops.iter().enumerate() {
    let key = format!("nearsquare {}", a.wire());
    rep.case(&key, *dl != 0 || a.exp % 2 != 0);
    rep.hit("op:sqrt-nearsquare");
    rep.hit(&format!(
      "nearsquare:{}:{}",
      match dl.abs() {
        0 => "square",
        1 => "+-1",
        2..=3 => "+-2..3",
        _ => "+-4..2048",
      },
      if a.exp == 0 {
        "whole"
      } else if a.exp < 0 && a.coeff.ends_with('0') && a.exp.unsigned_abs() as usize <= a.coeff.len() - a.coeff.trim_end_matches('0').len() {
        "whole with fraction zeros"
      } else if a.exp % 2 == 0 {
        "even exponent"
      } else {
        "odd exponent"
      }
    ));
    rep.hit(&format!("nearsquare:root digits {}", root.to_string().len()));
    let expected = raws[i].as_ref().filter(|_| raw_ok[i]).map(|r| r.reduced().wire());
    let mut observed: Vec<(String, String)> = vec![];
    match impl_feelnumber("sqrt", a, None, 0) {
      Ok(f) => observed.push((format!("FeelNumber::sqrt({})", a.to_sci_input()), f)),
      Err(p) => rep.disagree(Kind::ImplVsSpec, "sqrt", "FeelNumber sqrt panics", &a.to_sci_input(), &p, "a number"),
    }
    if let Some(va) = number_of(a) {
      match guarded(|| feel_eval(&[("a", Value::Number(va))], "sqrt(a)")) {
        Ok(Ok(v)) => observed.push((format!("FEEL sqrt(a) with a={}", a.to_sci_input()), value_show(&v))),
        Ok(Err(e)) => rep.disagree(Kind::ImplVsSpec, "sqrt", "FEEL sqrt fails to evaluate", &a.to_sci_input(), &e, "a number"),
        Err(p) => rep.disagree(Kind::ImplVsSpec, "sqrt", "FEEL sqrt panics", &a.to_sci_input(), &p, "a number"),
      }
    }
    if a.exp.abs() <= 60 {
      let text = format!("sqrt({})", plain_literal(a));
      match guarded(|| feel_eval(&[], &text)) {
        Ok(Ok(v)) => observed.push((format!("FEEL {}", text), value_show(&v))),
        Ok(Err(e)) => rep.disagree(Kind::ImplVsSpec, "sqrt", "FEEL sqrt fails to evaluate", &text, &e, "a number"),
        Err(p) => rep.disagree(Kind::ImplVsSpec, "sqrt", "FEEL sqrt panics", &text, &p, "a number"),
      }
    }
    for (what, got) in observed {
      if Some(&got) == expected.as_ref() {
        continue;
      }
      if got.starts_with("(n ") {
        jreqs.push(format!("(c02 judgev sqrt {} {})", a.wire(), got));
        jinfo.push((i, what, got));
      } else {
        rep.disagree(Kind::ImplVsSpec, "sqrt", "sqrt of a non-negative number is not a finite number", &what, &got, "the correctly rounded root");
      }
    }
  }
  let janswers = model.ask_batch(&jreqs);
  for ((_, what, got), ans) in jinfo.iter().zip(janswers.iter()) {
    if ans.contains("false") {
      rep.disagree(Kind::ImplVsSpec, "sqrt", NEAR_SQUARE_SIGNATURE, what, got, "the correctly rounded root");
    } else if !ans.contains("true") {
      rep.disagree(Kind::ImplVsModel, "sqrt", "driver-error", what, got, ans);
    }
  }
  rep.extra.insert("nearsquare_operands".into(), json!(ops.len()));
  rep.extra.insert("nearsquare_judged_separately".into(), json!(jinfo.len()));
}

/// The written-out expectation for a value `(-1)^neg · c · 10^exp` (`c` of at most 34 digits) that decimal128 holds
/// exactly or that lies beyond the largest number: above exponent 6111 the coefficient is padded with `exp − 6111`
/// zeros (fold-down) as long as the padded coefficient has at most 34 digits (34 exactly: the format is filled, the
/// adjusted exponent is 6144), one more is an overflow (half-even: Infinity); below −6176 only trailing zeros can be
/// dropped. `None`: digits are lost (the specification decides, not this function).
fn clamp_exact_expected(neg: bool, c: &str, exp: i32) -> Option<DecV> {
  let mut c = c.to_string();
  let mut exp = exp;
  while exp < -6176 && c.len() > 1 && c.ends_with('0') {
    c.pop();
    exp += 1;
  }
  if exp < -6176 {
    return None;
  }
  if exp > 6111 {
    let pad = (exp - 6111) as usize;
    if c.len() + pad <= 34 {
      return Some(DecV::Fin(D::new(neg, &format!("{}{}", c, "0".repeat(pad)), 6111)));
    }
    return Some(DecV::Inf(neg));
  }
  Some(DecV::Fin(D::new(neg, &c, exp)))
}

/// `clamp`: results and literals at the two ends of the exponent range with a *short* coefficient. Top end
/// (clamp range): every coefficient length 1 .. 34 x every exponent 6077 .. 6144, so that the coefficient has to be
/// padded with 0 .. 33 zeros to bring the exponent down to 6111 (fold-down) — including the exact fit (length +
/// padding = 34, adjusted exponent 6144) and one beyond (overflow). Bottom end (subnormal range): every length x
/// every exponent −6210 .. −6143 (exact subnormals, and up to 34 digits to be rounded away). Each target value is
/// produced (a) as a literal (`dec_from_string`, `FeelNumber::from_str`, a FEEL numeric literal written out with all
/// its zeros), (b) as a product of two operands whose exponents add up to it (halves, one operand near 6000 / near
/// zero / at the end of the range; the coefficient split into two factors or times a power of ten), (c) as an exact
/// quotient (dividend = coefficient x divisor), at three layers (dec.rs, FeelNumber operator, FEEL text with bound
/// operands). Oracle: `MulSpec` / `DivSpec` of the driver on every dec.rs answer (the literal `c·10^e` is judged as
/// the product `c·10^e x 1`: the specification rounds the exact value once and does not need held operands), the
/// other layers equal to the judged answer or judged by themselves (`judgev`), plus the written-out expectation
/// (`clamp_exact_expected`) wherever the value is exactly representable or beyond the largest number.
fn clamp_family(rep: &mut Report, model: &mut Model, cfg: &Cfg, thorough: bool) {
  // its own stream: the generators of the other families see the same numbers as before
  let mut rng = Rng::new(cfg.seed ^ 0xC02C_1A4D);
  let rng = &mut rng;
  struct T {
    top: bool,
    what: &'static str, // "literal" | "product" | "quotient"
    neg: bool,
    c: String,
    exp: i32,
    a: D,
    b: D,
  }
  let split_exp = |rng: &mut Rng, exp: i32, sub: bool| -> (i32, i32) {
    // e1 (+ or −) e2 = exp with both operands held exactly: −6176 <= e <= 6111
    let fits = |e1: i32, e2: i32| (-6176..=6111).contains(&e1) && (-6176..=6111).contains(&e2);
    for _ in 0..6 {
      let e1 = match rng.below(5) {
        0 => exp / 2 + rng.range(-3, 3) as i32,
        1 => (if exp > 0 { 6000 } else { -6000 }) + rng.range(-120, 111) as i32,
        2 => rng.range(-40, 40) as i32,
        3 => if exp > 0 { 6111 } else { -6176 },
        _ => rng.range(-6176, 6111) as i32,
      };
      let (e1, e2) = if sub {
        (e1, e1 - exp)
      } else if rng.chance(1, 2) {
        (e1, exp - e1)
      } else {
        (exp - e1, e1)
      };
      if fits(e1, e2) {
        return (e1, e2);
      }
    }
    let h = exp / 2;
    if sub {
      (h, h - exp)
    } else {
      (h, exp - h)
    }
  };
  let mut targets: Vec<T> = vec![];
  let rounds = if thorough { 6 } else { 1 };
  for round in 0..rounds {
    for top in [true, false] {
      let exps: Vec<i32> = if top { (6077..=6144).collect() } else { (-6210..=-6143).collect() };
      for len in 1..=34usize {
        for &exp in &exps {
          let pad = exp - 6111;
          // the exact fit and its two neighbours with both signs; the rest with one sign per round
          let both = top && (33..=35).contains(&(len as i32 + pad));
          let signs: Vec<bool> = if both || thorough && round == 0 { vec![false, true] } else { vec![rng.chance(1, 2)] };
          for neg in signs {
            // (a) literal
            let c = if rng.chance(1, 6) { format!("{}{}", 1 + rng.below(9), "0".repeat(len - 1)) } else if rng.chance(1, 8) { nines(len) } else { digits(rng, len) };
            targets.push(T { top, what: "literal", neg, c: c.clone(), exp, a: D::new(neg, &c, exp), b: D::new(false, "1", 0) });
            // (b) product: c = c1 x c2 (or c x 1), e1 + e2 = exp
            let (c1, c2) = {
              let mut found: Option<(String, String)> = None;
              if len >= 2 && !rng.chance(1, 3) {
                for _ in 0..8 {
                  let l1 = 1 + rng.below(len as u64 - 1) as usize;
                  let x = digits(rng, l1);
                  let l2 = (len - l1 + rng.below(2) as usize).max(1);
                  let y = digits(rng, l2);
                  let p = x.parse::<u128>().unwrap().checked_mul(y.parse::<u128>().unwrap());
                  if p.map(|p| p.to_string().len() == len).unwrap_or(false) {
                    found = Some((x, y));
                    break;
                  }
                }
              }
              found.unwrap_or_else(|| (if rng.chance(1, 4) { format!("1{}", "0".repeat(len - 1)) } else { digits(rng, len) }, "1".to_string()))
            };
            let pc = (c1.parse::<u128>().unwrap() * c2.parse::<u128>().unwrap()).to_string();
            let (e1, e2) = split_exp(rng, exp, false);
            let nb = rng.chance(1, 2);
            targets.push(T { top, what: "product", neg, c: pc, exp, a: D::new(neg != nb, &c1, e1), b: D::new(nb, &c2, e2) });
            // (c) quotient: (c x d) / d, e1 − e2 = exp
            let dl = if len >= 34 || rng.chance(1, 3) { 0 } else { 1 + rng.below((34 - len).min(12) as u64) as usize };
            let d = if dl == 0 { "1".to_string() } else { digits(rng, dl) };
            let q = digits(rng, len);
            let dividend = (q.parse::<u128>().unwrap() * d.parse::<u128>().unwrap()).to_string();
            if dividend.len() <= 34 {
              let (e1, e2) = split_exp(rng, exp, true);
              let nb = rng.chance(1, 2);
              // the quotient of the coefficients is `q` with its trailing zeros kept or not (decNumber's choice of
              // the exponent): the target value is q·10^exp either way
              targets.push(T { top, what: "quotient", neg, c: q, exp, a: D::new(neg != nb, &dividend, e1), b: D::new(nb, &d, e2) });
            }
          }
        }
      }
    }
  }
  let sig = |t: &T| -> String {
    format!(
      "{} in the {} is not the correctly rounded value",
      match t.what {
        "literal" => "a literal",
        "product" => "a product",
        _ => "a quotient",
      },
      if t.top { "clamp range (exponent above 6077 with a short coefficient: padded with zeros, exact fit, overflow)" } else { "subnormal range (exponent below -6143 with a short coefficient)" }
    )
  };
  let op_of = |t: &T| -> &'static str { if t.what == "quotient" { "div" } else { "mul" } };
  let spec_of = |t: &T| -> &'static str { if t.what == "quotient" { "the correctly rounded quotient (DivSpec)" } else { "the correctly rounded value (MulSpec)" } };
  // ---- layer 1: dec.rs, every answer judged by the specification
  let mut reqs: Vec<String> = vec![];
  let mut raws: Vec<Option<DecV>> = vec![];
  let mut inputs: Vec<String> = vec![];
  for t in &targets {
    let (input, raw) = match t.what {
      "literal" => {
        // the two spellings decQuadFromString is given: digits and exponent, or with a point after the first digit
        let text = if t.c.len() > 1 && rng.chance(1, 2) {
          format!("{}{}.{}E{:+}", if t.neg { "-" } else { "" }, &t.c[..1], &t.c[1..], t.exp + t.c.len() as i32 - 1)
        } else {
          t.a.to_sci_input()
        };
        let r = guarded(|| show_quad(&dec_from_string(&text)));
        (format!("dec_from_string({})", text), r)
      }
      "product" => (format!("dec_multiply({}, {})", t.a.to_sci_input(), t.b.to_sci_input()), guarded(|| show_quad(&dec_multiply(&t.a.quad(), &t.b.quad())))),
      _ => (format!("dec_divide({}, {})", t.a.to_sci_input(), t.b.to_sci_input()), guarded(|| show_quad(&dec_divide(&t.a.quad(), &t.b.quad())))),
    };
    match raw {
      Ok(Some(v)) if v != DecV::NaN => {
        reqs.push(format!("(c02 judge {} {} {} {})", op_of(t), t.a.wire(), t.b.wire(), v.wire()));
        raws.push(Some(v));
      }
      Ok(other) => {
        rep.disagree(Kind::ImplVsSpec, op_of(t), &sig(t), &input, &format!("{:?}", other), spec_of(t));
        raws.push(None);
      }
      Err(p) => {
        rep.disagree(Kind::ImplVsSpec, op_of(t), &format!("dec.rs {} panics", t.what), &input, &p, spec_of(t));
        raws.push(None);
      }
    }
    inputs.push(input);
  }
  let (answers, n_req) = ask_parallel(&cfg.driver, &reqs);
  model.requests += n_req;
  let mut raw_ok: Vec<bool> = vec![false; targets.len()];
  {
    let mut it = answers.iter();
    for (i, t) in targets.iter().enumerate() {
      if let Some(r) = &raws[i] {
        let ans = it.next().map(|s| s.as_str()).unwrap_or("");
        if ans.contains("true") {
          raw_ok[i] = true;
        } else if ans.contains("false") {
          rep.disagree(Kind::ImplVsSpec, op_of(t), &sig(t), &inputs[i], &r.wire(), spec_of(t));
        } else {
          rep.disagree(Kind::ImplVsModel, op_of(t), "driver-error", &inputs[i], &r.wire(), ans);
        }
        // the written-out expectation, where there is one
        if let Some(e) = clamp_exact_expected(t.neg, &t.c, t.exp) {
          if r.reduced() != e.reduced() && raw_ok[i] {
            // the specification accepted what the written-out expectation rejects: one of the two oracles is wrong
            rep.disagree(Kind::ImplVsModel, op_of(t), "clamp: the specification and the written-out expectation disagree", &inputs[i], &r.wire(), &e.wire());
          }
        }
      }
    }
  }
  // ---- layers 2 and 3: an answer that is not the reduced (judged) dec.rs answer goes to the specification by itself
  let mut jreqs: Vec<String> = vec![];
  let mut jinfo: Vec<(usize, String, String)> = vec![];
  for (i, t) in targets.iter().enumerate() {
    let pad = t.exp - 6111;
    let exact = clamp_exact_expected(t.neg, &t.c, t.exp);
    rep.case(&format!("clamp {} {} {}", t.what, t.a.wire(), t.b.wire()), true);
    rep.hit(&format!("op:clamp-{}", t.what));
    rep.hit(&format!(
      "clamp:{}",
      if t.top {
        match t.c.len() as i32 + pad {
          35.. => "top: beyond the largest number",
          34 if pad > 0 => "top: padded, exact fit (adjusted exponent 6144)",
          _ if pad > 0 => "top: padded",
          _ => "top: no padding needed",
        }
      } else if exact.is_some() {
        if t.exp < -6176 {
          "bottom: trailing zeros dropped"
        } else {
          "bottom: exact subnormal"
        }
      } else if t.c.len() as i32 + t.exp < -6176 {
        "bottom: all digits rounded away"
      } else {
        "bottom: digits rounded away"
      }
    ));
    let expected = match (&raws[i], raw_ok[i], &exact) {
      (_, _, Some(e)) => Some(e.reduced().wire()),
      (Some(r), true, None) => Some(r.reduced().wire()),
      _ => None,
    };
    let overflow = matches!(exact, Some(DecV::Inf(_)));
    let mut observed: Vec<(String, String)> = vec![];
    let va = number_of(&t.a);
    let vb = number_of(&t.b);
    match t.what {
      "literal" => {
        let text = t.a.to_sci_input();
        // from_str refuses what is not finite: the refusal stands for the infinity it saw
        match guarded(|| FeelNumber::from_str(&text)) {
          Ok(Ok(n)) => observed.push((format!("FeelNumber::from_str({})", text), observe(&n).map(|v| v.wire()).unwrap_or_else(|| format!("unparsed:{:?}", n)))),
          Ok(Err(_)) => observed.push((format!("FeelNumber::from_str({})", text), DecV::Inf(t.neg).wire())),
          Err(p) => rep.disagree(Kind::ImplVsSpec, "mul", "FeelNumber from_str panics", &text, &p, "a number"),
        }
        // the literal in FEEL text, written with all its zeros (FEEL has no exponent notation)
        if !overflow {
          let text = format!("{}{}", if t.neg { "-" } else { "" }, plain_literal(&D::new(false, &t.c, t.exp)));
          let shown = format!("FEEL literal {}", t.a.to_sci_input());
          match guarded(|| feel_eval(&[], &text)) {
            Ok(Ok(v)) => {
              // `-0.00…1` is the negation of a literal: when the literal rounds to zero the sign of that zero is
              // the negation's business (0 − 0 = +0), not the conversion's; it is not looked at here
              let got = match (t.neg, Sexp::parse(&value_show(&v)).as_ref().and_then(DecV::from_sexp)) {
                (true, Some(DecV::Fin(d))) if d.is_zero() => D { neg: true, ..d }.wire(),
                _ => value_show(&v),
              };
              observed.push((shown, got))
            }
            Ok(Err(e)) => observed.push((shown, format!("error:{}", e))),
            Err(p) => rep.disagree(Kind::ImplVsSpec, "mul", "FEEL numeric literal panics", &shown, &p, "a number"),
          }
        }
      }
      _ => {
        let op = op_of(t);
        match impl_feelnumber(op, &t.a, Some(&t.b), 0) {
          Ok(f) => observed.push((format!("FeelNumber {} {} {}", t.a.to_sci_input(), if op == "mul" { "*" } else { "/" }, t.b.to_sci_input()), f)),
          Err(p) => rep.disagree(Kind::ImplVsSpec, op, &format!("FeelNumber {} panics", op), &inputs[i], &p, "a number"),
        }
        // FEEL: beyond the largest number the answer is the known non-finite number (judged by the `edge` class)
        if let (false, Some(va), Some(vb)) = (overflow, va, vb) {
          let expr = if op == "mul" { "a * b" } else { "a / b" };
          let shown = format!("FEEL {} with a={} b={}", expr, t.a.to_sci_input(), t.b.to_sci_input());
          match guarded(|| feel_eval(&[("a", Value::Number(va)), ("b", Value::Number(vb))], expr)) {
            Ok(Ok(v)) => observed.push((shown, value_show(&v))),
            Ok(Err(e)) => observed.push((shown, format!("error:{}", e))),
            Err(p) => rep.disagree(Kind::ImplVsSpec, op, &format!("FEEL {} panics", op), &shown, &p, "a number"),
          }
        }
      }
    }
    for (what, got) in observed {
      if Some(&got) == expected.as_ref() {
        continue;
      }
      if exact.is_some() || !(got.starts_with("(n ") || got.starts_with("(inf")) {
        // written out: the exact value (or Infinity beyond the largest number) and nothing else
        rep.disagree(Kind::ImplVsSpec, op_of(t), &sig(t), &what, &got, expected.as_deref().unwrap_or(spec_of(t)));
      } else {
        jreqs.push(format!("(c02 judgev {} {} {} {})", op_of(t), t.a.wire(), t.b.wire(), got));
        jinfo.push((i, what, got));
      }
    }
  }
  let janswers = model.ask_batch(&jreqs);
  for ((i, what, got), ans) in jinfo.iter().zip(janswers.iter()) {
    let t = &targets[*i];
    if ans.contains("false") {
      rep.disagree(Kind::ImplVsSpec, op_of(t), &sig(t), what, got, spec_of(t));
    } else if !ans.contains("true") {
      rep.disagree(Kind::ImplVsModel, op_of(t), "driver-error", what, got, ans);
    }
  }
  rep.extra.insert("clamp_targets".into(), json!(targets.len()));
  rep.extra.insert("clamp_judged_separately".into(), json!(jinfo.len()));
}

const COHORT_SIGNATURE: &str = "the result depends on the representation of an operand (trailing zeros folded into the exponent or not, computed or written), not on its value only";

/// Plain decimal text of a finite value without fraction zeros at the end: the written-out expectation of `string()`.
fn cohort_plain(neg: bool, c: &str, e: i32) -> String {
  let d = D::new(false, c, e);
  let mut t = plain_literal(&d);
  if t.contains('.') {
    t = t.trim_end_matches('0').trim_end_matches('.').to_string();
  }
  if neg {
    format!("-{}", t)
  } else {
    t
  }
}

/// `cohort`: every operation observed on every *representation* of the same value. A decimal128 value `c * 10^e` has
/// up to 34 members in its cohort (`c*10^j` at `e - j`); which one a FEEL number holds depends on where it came from:
/// results of `+ - * /`, `floor`, `ceiling`, `sqrt`, `log`, `**` are reduced (trailing zeros folded into the exponent:
/// ten is `1E+1`, 10010 is `1001E+1`), literals keep the digits as written (`10010`, `10.0`), `decimal(n, s)` yields
/// the exponent `-s`, negation and `abs` keep what they get. Values: coefficients ending in 1, 01, 001, 0001, 2, 02,
/// 002, 5 ... behind 0 .. 31 further digits (the low coefficient unit of the C library holds three digits), bare short
/// coefficients, exponents 0, 1, 2, 3 ... up to the end of the range, negative exponents, zeros of both signs.
/// Operand expressions per member: held as is (a variable), written as a literal, made by `decimal(r, -E)` from the
/// reduced member, made by negating the held opposite; and for the value: computed as a sum, a difference, a product
/// and a quotient of other numbers (variables and, for short numbers, literals). Operations: log exp sqrt floor
/// ceiling abs - decimal ** (as base and as exponent) modulo (both places) / * + - even odd = < <= > != between
/// in string, through FEEL; ln / exp / sqrt also through `FeelNumber` and `dec.rs` on every member.
/// Judges: (i) the law that the answer is the same for all operand expressions of one value (numbers compared as
/// values; `string()` by the digits up to fraction zeros at the end, which must be the written-out plain text of the
/// value); (ii) every distinct answer of log / exp against the enclosure of the true value, of sqrt against
/// `SqrtSpec`, of integer powers against the exact power; comparisons against the written-out truth value;
/// (iii) floor ceiling abs - decimal / * + - modulo sqrt against the model of the glue (`feelnum`) on the member.
fn cohort_family(rep: &mut Report, model: &mut Model, rng: &mut Rng, cfg: &Cfg, thorough: bool) {
  let t_start = std::time::Instant::now();
  const SUFFIXES: [&str; 18] = ["1", "01", "001", "0001", "00001", "2", "02", "002", "0002", "5", "05", "005", "3", "7", "9", "11", "101", "1001"];
  const PREFIX_LENS: [usize; 10] = [0, 1, 2, 3, 4, 6, 9, 15, 24, 30];
  // (name, template, needs w)
  const OPS: [(&str, &str); 34] = [
    ("log", "log({})"), ("exp", "exp({})"), ("sqrt", "sqrt({})"), ("floor", "floor({})"), ("ceiling", "ceiling({})"), ("abs", "abs({})"), ("neg", "-({})"),
    ("decimal 0", "decimal({}, 0)"), ("decimal 2", "decimal({}, 2)"), ("decimal -1", "decimal({}, -1)"), ("power 2", "({}) ** 2"), ("power 3", "({}) ** 3"), ("power -1", "({}) ** -1"),
    ("power 0.5", "({}) ** 0.5"), ("2 power", "2 ** ({})"), ("1.5 power", "1.5 ** ({})"), ("modulo 7", "modulo({}, 7)"), ("modulo 0.3", "modulo({}, 0.3)"), ("modulo by", "modulo(100003, {})"),
    ("div 3", "({}) / 3"), ("reciprocal", "1 / ({})"), ("mul 3", "({}) * 3"), ("add 1", "({}) + 1"), ("sub 1", "({}) - 1"), ("even", "even({})"), ("odd", "odd({})"),
    ("eq", "({}) = w"), ("lt", "({}) < w"), ("le", "({}) <= w"), ("gt", "({}) > w"), ("ne", "({}) != w"), ("between", "({}) between w and w"), ("in", "({}) in [w..w]"), ("string", "string({})"),
  ];
  let limit: u128 = 10u128.pow(34);
  // ---- the values: (neg, coefficient without trailing zeros, exponent, always-ops only?)
  let mut values: Vec<(bool, String, i32, bool)> = vec![];
  // systematic: every suffix x exponents 0..4 x prefix lengths (log / exp / sqrt and a few others)
  for suf in SUFFIXES {
    for e in 0..=4 {
      for pl in PREFIX_LENS {
        if !thorough && !(pl == 0 || rng.chance(1, 3)) {
          continue;
        }
        if pl + suf.len() > 34 {
          continue;
        }
        let c = format!("{}{}", if pl == 0 { String::new() } else { digits(rng, pl) }, suf);
        values.push((false, c, e, true));
      }
    }
  }
  let n_random = if thorough { 6_000 } else { 260 };
  for i in 0..n_random {
    let suf = SUFFIXES[i % SUFFIXES.len()];
    let pl = if rng.chance(1, 3) { 0 } else { rng.below((35 - suf.len()) as u64) as usize };
    let c = format!("{}{}", if pl == 0 { String::new() } else { digits(rng, pl) }, suf);
    let len = c.trim_start_matches('0').len().max(1) as i32;
    let e = match rng.below(8) {
      0 => rng.range(0, 4) as i32,
      1 => rng.range(5, 40) as i32,
      2 => rng.range(41, (6111 - 34) as i64) as i32,
      // the end of the range: the reduced member sits at or just below the largest exponent
      3 => 6111 - rng.below(3) as i32,
      4 => -(rng.range(1, 40) as i32),
      5 => rng.range(-6176, -41) as i32,
      6 => -len + rng.range(-2, 2) as i32,
      _ => rng.range(0, 12) as i32,
    };
    values.push((rng.chance(1, 8), c, e, false));
  }
  for (neg, e) in [(false, 0), (true, 0), (false, 3), (false, -2)] {
    values.push((neg, "0".to_string(), e, false));
  }
  // ---- observations per value
  struct Obs {
    value: usize,
    op: &'static str,
    text: String,
    got: String,
    member: Option<D>,
  }
  let mut obs: Vec<Obs> = vec![];
  let show_vars = |vars: &[(&'static str, D)]| -> String { vars.iter().map(|(k, d)| format!("{}={}", k, d.to_sci_input())).collect::<Vec<_>>().join(" ") };
  for (vi, (neg, c0, e, basic)) in values.iter().enumerate() {
    let c = D::new(false, c0, 0).coeff;
    let zero = c == "0";
    let len = c.len();
    let cv: u128 = c.parse().unwrap();
    // members of the cohort: j zeros moved from the exponent into the coefficient
    let mut js: Vec<usize> = vec![0, 1, 2, 3, 34 - len];
    if *e > 0 {
      js.extend([*e as usize, *e as usize + 1, *e as usize + 2]);
    }
    js.retain(|j| (zero || *j + len <= 34) && *e as i64 - *j as i64 >= -6176);
    js.sort();
    js.dedup();
    if zero {
      js = vec![0, 1, 5];
    }
    while js.len() > 5 {
      let k = 2 + rng.below(js.len() as u64 - 2) as usize;
      js.remove(k);
    }
    let members: Vec<D> = js.iter().map(|j| D::new(*neg, &format!("{}{}", c, if zero { String::new() } else { "0".repeat(*j) }), e - *j as i32)).collect();
    // operand expressions: (text, variables, the member it holds when that is known)
    let mut operands: Vec<(String, Vec<(&'static str, D)>, Option<D>)> = vec![];
    let reduced = members[0].clone();
    for m in &members {
      operands.push(("a".into(), vec![("a", m.clone())], Some(m.clone())));
      if m.exp <= 0 && m.exp >= -60 && !m.neg {
        operands.push((plain_literal(m), vec![], Some(m.clone())));
      }
      if (-6111..=6176).contains(&(-m.exp)) {
        operands.push((format!("decimal(r, {})", -m.exp), vec![("r", reduced.clone())], Some(m.clone())));
      }
      // (the opposite of a zero is +0 whatever its sign: not a way to make -0)
      if !zero {
        operands.push(("-(m)".into(), vec![("m", D::new(!m.neg, &m.coeff, m.exp))], Some(m.clone())));
      }
    }
    if !zero {
      let x = cv / 2;
      let sum = (D::new(*neg, &x.to_string(), *e), D::new(*neg, &(cv - x).to_string(), *e));
      operands.push(("(x + y)".into(), vec![("x", sum.0.clone()), ("y", sum.1.clone())], None));
      if !*neg && (0..=6).contains(e) && len + *e as usize <= 30 {
        operands.push((format!("({} + {})", plain_literal(&sum.0), plain_literal(&sum.1)), vec![], None));
      }
      if cv + 7 < limit {
        operands.push(("(x - y)".into(), vec![("x", D::new(*neg, &(cv + 7).to_string(), *e)), ("y", D::new(*neg, "7", *e))], None));
      }
      if cv * 25 < limit && *e - 2 >= -6176 {
        operands.push(("(x * y)".into(), vec![("x", D::new(*neg, &(cv * 25).to_string(), *e - 2)), ("y", D::new(false, "4", 0))], None));
      } else {
        operands.push(("(x * y)".into(), vec![("x", D::new(*neg, &c, 0)), ("y", D::new(false, "1", *e))], None));
      }
      if cv * 3 < limit {
        operands.push(("(x / y)".into(), vec![("x", D::new(*neg, &(cv * 3).to_string(), *e)), ("y", D::new(false, "3", 0))], None));
      }
    }
    // the other operand of the comparisons: one more member
    let w = rng.pick(&members).clone();
    // operations
    let mut ops: Vec<usize> = vec![0, 2];
    let magnitude = len as i32 + *e;
    if magnitude <= 4 {
      ops.push(1);
    }
    let extra = if *basic { 3 } else { 7 };
    for _ in 0..extra {
      ops.push(3 + rng.below(OPS.len() as u64 - 3) as usize);
    }
    ops.sort();
    ops.dedup();
    for oi in ops {
      let (name, template) = OPS[oi];
      // exponents of ** beyond a few digits cost time and are null anyway
      if (name == "2 power" || name == "1.5 power") && magnitude > 6 {
        continue;
      }
      for (otext, ovars, member) in &operands {
        let text = template.replace("{}", otext);
        let mut vars: Vec<(&'static str, D)> = ovars.clone();
        if template.contains('w') {
          vars.push(("w", w.clone()));
        }
        let bound: Vec<(&str, Value)> = vars.iter().filter_map(|(k, d)| number_of(d).map(|n| (*k, Value::Number(n)))).collect();
        if bound.len() != vars.len() {
          continue;
        }
        let shown = if vars.is_empty() { text.clone() } else { format!("{} with {}", text, show_vars(&vars)) };
        let got = match guarded(|| feel_eval(&bound, &text)) {
          Ok(Ok(Value::String(s))) => format!("text:{}", s),
          Ok(Ok(v)) => value_show(&v),
          Ok(Err(e)) => {
            rep.disagree(Kind::ImplVsSpec, "cohort", &format!("FEEL {} fails to evaluate", name), &shown, &e, "a value");
            continue;
          }
          Err(p) => {
            rep.disagree(Kind::ImplVsSpec, "cohort", &format!("FEEL {} panics", name), &shown, &p, "a value");
            continue;
          }
        };
        obs.push(Obs { value: vi, op: name, text: shown, got, member: member.clone() });
      }
      // the same through FeelNumber and dec.rs, on every member
      if matches!(name, "log" | "exp" | "sqrt") {
        for m in &members {
          let q = m.quad();
          let raw = guarded(|| {
            show_quad(&match name {
              "log" => dec_ln(&q),
              "exp" => dec_exp(&q),
              _ => dec_square_root(&q),
            })
          });
          // the FEEL built-ins answer null where the library answers NaN or an infinity (log of zero or of a negative
          // number, sqrt of a negative number); exp is not checked (finding F7c)
          let as_feel = |v: Option<DecV>| -> String {
            match v {
              Some(DecV::Fin(d)) => DecV::Fin(d).reduced().wire(),
              Some(other) if name == "exp" => other.wire(),
              _ => "null".to_string(),
            }
          };
          match raw {
            Ok(v) => obs.push(Obs { value: vi, op: name, text: format!("dec.rs {}({})", name, m.to_sci_input()), got: as_feel(v), member: Some(m.clone()) }),
            Err(p) => rep.disagree(Kind::ImplVsSpec, "cohort", &format!("dec.rs {} panics", name), &m.to_sci_input(), &p, "a value"),
          }
          if let Some(x) = number_of(m) {
            let f = guarded(|| match name {
              "log" => x.ln().and_then(|n| observe(&n)),
              "exp" => observe(&x.exp()),
              _ => x.sqrt().and_then(|n| observe(&n)),
            });
            match f {
              Ok(v) => {
                // core.rs: log and sqrt of a number that is not positive / is negative are null before the library is asked
                let got = if (name == "log" && (m.neg || zero)) || (name == "sqrt" && m.neg && !zero) { "null".to_string() } else { as_feel(v) };
                obs.push(Obs { value: vi, op: name, text: format!("FeelNumber {}({})", name, m.to_sci_input()), got, member: Some(m.clone()) })
              }
              Err(p) => rep.disagree(Kind::ImplVsSpec, "cohort", &format!("FeelNumber {} panics", name), &m.to_sci_input(), &p, "a value"),
            }
          }
        }
      }
    }
  }
  if std::env::var("VERIF_TIMING").is_ok() { eprintln!("cohort: observations {:?}", t_start.elapsed()); }
  let t_obs = std::time::Instant::now();
  // ---- judges
  // canonical form of an answer for the law: numbers as reduced values (done by `value_show`), the text of `string()`
  // without fraction zeros at the end
  let canon = |got: &str| -> String {
    match got.strip_prefix("text:") {
      Some(t) if t.contains('.') => format!("text:{}", t.trim_end_matches('0').trim_end_matches('.')),
      _ => got.to_string(),
    }
  };
  let mut jreqs: Vec<String> = vec![];
  let mut jfor: Vec<(usize, &'static str)> = vec![]; // (observation, signature)
  let mut mreqs: Vec<String> = vec![];
  let mut mfor: Vec<usize> = vec![];
  let mut seen_judge: std::collections::HashSet<String> = std::collections::HashSet::new();
  let mut start = 0usize;
  while start < obs.len() {
    let mut end = start;
    while end < obs.len() && obs[end].value == obs[start].value && obs[end].op == obs[start].op {
      end += 1;
    }
    let group = &obs[start..end];
    let (neg, c0, e, _) = &values[group[0].value];
    let c = D::new(false, c0, 0).coeff;
    let zero = c == "0";
    let reduced_wire = D::new(*neg, &c, *e).reduced().wire();
    let op = group[0].op;
    rep.case(&format!("cohort {} {}", op, reduced_wire), true);
    rep.hit(&format!("cohort:{}", op));
    rep.hit(&format!("cohort:operand expressions {}", if group.len() >= 16 { "16.." } else if group.len() >= 8 { "8..15" } else { "..7" }));
    rep.hit(&format!("cohort:exponent {}", match *e { 0 => "0", 1 => "1", 2 => "2", 3 => "3", 4 => "4", 5..=40 => "5..40", 41..=6000 => "41..6000", x if x > 6000 => "6001..6111", -40..=-1 => "-40..-1", _ => "..-41" }));
    // (i) the law
    let first = canon(&group[0].got);
    if let Some(other) = group.iter().find(|o| canon(&o.got) != first) {
      rep.disagree(Kind::ImplVsSpec, "cohort", &format!("{}: {}", op, COHORT_SIGNATURE), &format!("{}  versus  {}", other.text, group[0].text), &other.got, &group[0].got);
    }
    // (ii) every distinct answer against what is written out / the specification
    for (k, o) in group.iter().enumerate() {
      let key = format!("{} {} {}", op, reduced_wire, o.got);
      let m = o.member.clone().unwrap_or_else(|| D::new(*neg, &c, *e).reduced());
      let positive = !*neg && !zero;
      match op {
        "eq" | "le" | "between" | "in" => {
          if o.got != "true" {
            rep.disagree(Kind::ImplVsSpec, "cmp", "numbers of equal value do not compare equal (or unequal ones do)", &o.text, &o.got, "true");
          }
        }
        "lt" | "gt" | "ne" => {
          if o.got != "false" {
            rep.disagree(Kind::ImplVsSpec, "cmp", "numbers of equal value do not compare equal (or unequal ones do)", &o.text, &o.got, "false");
          }
        }
        "string" => {
          let want = format!("text:{}", cohort_plain(*neg && !zero, &c, *e));
          let got = canon(&o.got);
          let got = if zero { got.replace("text:-0", "text:0") } else { got };
          if got != want {
            rep.disagree(Kind::ImplVsSpec, "cohort", "string() of a number is not the plain decimal text of its value", &o.text, &o.got, &want);
          }
        }
        "log" => {
          if !positive {
            if o.got != "null" {
              rep.disagree(Kind::ImplVsSpec, "log", "log of zero or of a negative number is not null", &o.text, &o.got, "null");
            }
          } else if o.got == "null" {
            rep.disagree(Kind::ImplVsSpec, "log", "log() of a number inside its domain is null", &o.text, &o.got, "a number within two units in the last place of the true value");
          } else if o.got.starts_with("(n ") && seen_judge.insert(key) {
            jreqs.push(format!("(c02 judgeln {} {})", m.wire(), o.got));
            jfor.push((start + k, "log() differs from the true value by more than two units in the last place"));
          }
        }
        "exp" => {
          if o.got.starts_with("(n ") && seen_judge.insert(key) {
            jreqs.push(format!("(c02 judgeexp {} {})", m.wire(), o.got));
            jfor.push((start + k, "exp() differs from the true value by more than two units in the last place"));
          }
        }
        "sqrt" => {
          // (the root of a zero is judged by `feelglue`: the observation is reduced, the specification names the exponent)
          if o.got.starts_with("(n ") && !zero && seen_judge.insert(format!("{} {}", key, m.wire())) {
            jreqs.push(format!("(c02 judgev sqrt {} {})", m.wire(), o.got));
            jfor.push((start + k, "sqrt does not return the specified (correctly rounded) result"));
          }
        }
        "power 2" | "power 3" | "power -1" => {
          if o.got.starts_with("(n ") && !zero && seen_judge.insert(key) {
            let n = match op { "power 2" => 2, "power 3" => 3, _ => -1 };
            jreqs.push(format!("(c02 judgepow {} {} {})", m.wire(), n, o.got));
            jfor.push((start + k, "an integer power differs from the exact power by more than two units in the last place"));
          }
        }
        _ => {}
      }
      // (iii) the model of the glue on the member
      if let Some(mb) = &o.member {
        if o.text.starts_with("dec.rs") || o.text.starts_with("FeelNumber") {
          continue;
        }
        let req = match op {
          "floor" | "ceiling" | "abs" | "neg" | "sqrt" => Some(format!("(c02 feelnum {} {})", op, mb.wire())),
          "decimal 0" => Some(format!("(c02 feelnum decimal {} (n false 0 0))", mb.wire())),
          "decimal 2" => Some(format!("(c02 feelnum decimal {} (n false 2 0))", mb.wire())),
          "decimal -1" => Some(format!("(c02 feelnum decimal {} (n true 1 0))", mb.wire())),
          "div 3" => Some(format!("(c02 feelnum div {} (n false 3 0))", mb.wire())),
          "mul 3" => Some(format!("(c02 feelnum mul {} (n false 3 0))", mb.wire())),
          "add 1" => Some(format!("(c02 feelnum add {} (n false 1 0))", mb.wire())),
          "sub 1" => Some(format!("(c02 feelnum sub {} (n false 1 0))", mb.wire())),
          "modulo 7" => Some(format!("(c02 feelnum modulo {} (n false 7 0))", mb.wire())),
          "modulo 0.3" => Some(format!("(c02 feelnum modulo {} (n false 3 -1))", mb.wire())),
          "modulo by" => Some(format!("(c02 feelnum modulo (n false 100003 0) {})", mb.wire())),
          "reciprocal" => Some(format!("(c02 feelnum div (n false 1 0) {})", mb.wire())),
          _ => None,
        };
        if let Some(r) = req {
          if seen_judge.insert(format!("{} {}", r, o.got)) {
            mreqs.push(r);
            mfor.push(start + k);
          }
        }
      }
    }
    start = end;
  }
  let t_j = std::time::Instant::now();
  let (janswers, n_req) = ask_parallel(&cfg.driver, &jreqs);
  model.requests += n_req;
  if std::env::var("VERIF_TIMING").is_ok() { eprintln!("cohort: judge {} reqs {:?}", jreqs.len(), t_j.elapsed()); }
  for (((oi, sig), req), ans) in jfor.iter().zip(jreqs.iter()).zip(janswers.iter()) {
    let o = &obs[*oi];
    if ans.contains("false") {
      let fam = if sig.starts_with("log") { "log" } else if sig.starts_with("exp") { "exp" } else if sig.starts_with("sqrt") { "sqrt" } else { "pow" };
      rep.disagree(Kind::ImplVsSpec, fam, sig, &o.text, &o.got, "the specified value");
    } else if ans.contains("true") {
      rep.hit("cohort:judged-ok");
    } else if ans.contains("na") {
      rep.hit("cohort:not-judged");
    } else {
      rep.disagree(Kind::ImplVsModel, "cohort", "driver-error", req, "", ans);
    }
  }
  let t_m = std::time::Instant::now();
  let manswers = model.ask_batch(&mreqs);
  if std::env::var("VERIF_TIMING").is_ok() { eprintln!("cohort: model {} reqs {:?}; since obs {:?}", mreqs.len(), t_m.elapsed(), t_obs.elapsed()); }
  for ((oi, req), ans) in mfor.iter().zip(mreqs.iter()).zip(manswers.iter()) {
    let o = &obs[*oi];
    let m = Sexp::parse(ans).and_then(|s| s.as_list().and_then(|l| l.get(1).cloned()));
    let m_shown = match &m {
      Some(x) => match DecV::from_sexp(x) {
        Some(v) => v.reduced().wire(),
        None => x.to_string(),
      },
      None => ans.clone(),
    };
    rep.hit("cohort:model-compared");
    if o.got != m_shown {
      rep.disagree(Kind::ImplVsModel, "cohort", &format!("FEEL {} on a cohort member differs from the model FeelNum", o.op), &format!("{} [{}]", o.text, req), &o.got, &m_shown);
    }
  }
  rep.extra.insert("cohort_values".into(), json!(values.len()));
  rep.extra.insert("cohort_observations".into(), json!(obs.len()));
  rep.extra.insert("cohort_judged".into(), json!(jreqs.len()));
}

/// A case of the main run whose sequential answer is settled (equal to the model's, which its specification accepts).
struct TItem {
  class: &'static str,
  op: &'static str,
  a: D,
  b: Option<D>,
  k: i32,
  req: String,
  /// expected dec.rs-level answer
  raw: Option<String>,
  /// expected FeelNumber-level answer
  f: Option<String>,
}

/// the operations whose result depends on the rounding mode of the decimal context
const THREAD_WORK_OPS: [&str; 4] = ["add", "sub", "mul", "div"];
/// the operations that round to an integer / to a scale with a rounding mode of their own
const THREAD_INTEGRAL_OPS: [&str; 8] = ["floor", "ceiling", "trunc", "fract", "rescale", "even", "odd", "isint"];
const THREADS_SIGNATURE: &str = "the result of an operation differs when other threads use numbers at the same time";
const THREADS_AFTER_SIGNATURE: &str = "the result of an operation differs after other threads have used numbers";

/// Both layers of one settled case; the differences from the expectation as (layer, observed, expected).
fn titem_differences(it: &TItem) -> Vec<(&'static str, String, String)> {
  let mut out = vec![];
  if let Some(want) = &it.raw {
    let got = impl_raw(it.op, &it.a, it.b.as_ref(), it.k).unwrap_or_else(|p| format!("panic: {}", p));
    if got != *want {
      out.push(("dec.rs", got, want.clone()));
    }
  }
  if let Some(want) = &it.f {
    let got = impl_feelnumber(it.op, &it.a, it.b.as_ref(), it.k).unwrap_or_else(|p| format!("panic: {}", p));
    if got != *want {
      out.push(("FeelNumber", got, want.clone()));
    }
  }
  out
}

/// `threads`: every number operation is a function of its operands alone, whatever other threads compute at the
/// same time (the decimal context — precision, rounding mode — is per call). The settled add / sub / mul / div cases
/// of the main run (every second one an exact tie at the 34th digit or a tie and a little more / less: the results
/// that tell the rounding modes apart) are computed by 8 threads at once for several rounds; the odd threads follow
/// every operation by a floor / ceiling / trunc / fract / round-to-scale / even / odd / is-integer call on a number
/// with a fraction (the operations that round with a mode of their own). Every answer must be the sequential one;
/// afterwards every case is computed once more on the main thread.
fn threads_family(rep: &mut Report, settled: &[TItem], thorough: bool) {
  const THREADS: usize = 8;
  let rounds = if thorough { 40 } else { 6 };
  let ties: Vec<&TItem> = settled.iter().filter(|i| THREAD_WORK_OPS.contains(&i.op) && (i.class == "tie" || i.class == "sticky")).collect();
  let others: Vec<&TItem> = settled.iter().filter(|i| THREAD_WORK_OPS.contains(&i.op) && !(i.class == "tie" || i.class == "sticky")).collect();
  // rounding to an integer only touches numbers that have a fraction
  let integral: Vec<&TItem> = settled.iter().filter(|i| THREAD_INTEGRAL_OPS.contains(&i.op) && i.a.exp < 0 && !i.a.is_zero()).collect();
  if ties.is_empty() || others.is_empty() || integral.is_empty() {
    rep.notes.push("threads: no settled cases to run concurrently".into());
    return;
  }
  let mut work: Vec<&TItem> = vec![];
  for (i, o) in others.iter().enumerate() {
    work.push(o);
    work.push(ties[i % ties.len()]);
  }
  for it in others.iter().chain(ties.iter()) {
    let nontrivial = it.raw.as_ref().map(|r| *r != it.a.wire() && Some(r.clone()) != it.b.as_ref().map(|b| b.wire())).unwrap_or(true);
    rep.case(&format!("threads {}", it.req), nontrivial);
    rep.hit(&format!("threads:class:{}", it.class));
    rep.hit(&format!("threads:op:{}", it.op));
  }
  for it in &integral {
    rep.hit(&format!("threads:interleaved:{}", it.op));
  }
  // (item, thread, round, layer, observed, expected)
  type Diff = (usize, bool, usize, usize, &'static str, String, String);
  let mut diffs: Vec<Diff> = vec![];
  let mut calls = 0u64;
  for round in 0..rounds {
    let barrier = std::sync::Barrier::new(THREADS);
    let (work, integral, barrier) = (&work, &integral, &barrier);
    let outs: Vec<(Vec<Diff>, u64)> = std::thread::scope(|sc| {
      let handles: Vec<_> = (0..THREADS)
        .map(|t| {
          sc.spawn(move || {
            let mut out: Vec<Diff> = vec![];
            let mut n = 0u64;
            // every thread walks the whole list, from a place of its own
            let start = (t * work.len() / THREADS + round * 131) % work.len();
            barrier.wait();
            for j in 0..work.len() {
              let wi = (start + j) % work.len();
              n += 1;
              for (layer, got, want) in titem_differences(work[wi]) {
                if out.len() < 40 {
                  out.push((wi, false, t, round, layer, got, want));
                }
              }
              if t % 2 == 1 {
                let ii = (j * 7 + t * 13 + round) % integral.len();
                n += 1;
                for (layer, got, want) in titem_differences(integral[ii]) {
                  if out.len() < 40 {
                    out.push((ii, true, t, round, layer, got, want));
                  }
                }
              }
            }
            (out, n)
          })
        })
        .collect();
      handles.into_iter().map(|h| h.join().unwrap_or_default()).collect()
    });
    for (o, n) in outs {
      calls += n;
      diffs.extend(o);
    }
    crate::util::beat();
  }
  rep.extra.insert("threads_concurrent_calls".into(), json!(calls));
  rep.extra.insert("threads_cases".into(), json!({"tie_or_sticky": ties.len(), "other": others.len(), "interleaved_integral": integral.len(), "threads": THREADS, "rounds": rounds}));
  // stable order (the threads finish in any order)
  diffs.sort_by(|x, y| (x.1, x.0, x.3, x.2).cmp(&(y.1, y.0, y.3, y.2)));
  for (idx, is_integral, t, round, layer, got, want) in diffs {
    let it = if is_integral { integral[idx] } else { work[idx] };
    rep.disagree(
      Kind::ImplVsSpec,
      "threads",
      THREADS_SIGNATURE,
      &format!("{} {} ;; a={} b={} k={} ;; thread {} of {}, round {}; the odd threads follow every operation by floor / ceiling / trunc / fract / decimal / even / odd of a number with a fraction", layer, it.req, it.a.to_sci_input(), it.b.as_ref().map(|b| b.to_sci_input()).unwrap_or_default(), it.k, t, THREADS, round),
      &got,
      &want,
    );
  }
  // afterwards, alone again
  for it in others.iter().chain(ties.iter()).chain(integral.iter()) {
    for (layer, got, want) in titem_differences(it) {
      rep.disagree(
        Kind::ImplVsSpec,
        "threads",
        THREADS_AFTER_SIGNATURE,
        &format!("{} {} ;; a={} b={} k={}", layer, it.req, it.a.to_sci_input(), it.b.as_ref().map(|b| b.to_sci_input()).unwrap_or_default(), it.k),
        &got,
        &want,
      );
    }
  }
}

fn feel_family(op: &str) -> &'static str {
  match op {
    "add" | "sub" | "mul" | "div" | "neg" | "abs" | "floor" | "ceiling" => "arithmetic operators",
    "modulo" => "modulo()",
    "rescale" => "decimal()",
    "sqrt" => "sqrt()",
    _ => "numeric built-in",
  }
}

fn spec_signature(op: &str, a: &D) -> String {
  match op {
    "even" if a.exp > 0 || a.coeff.len() as i32 + a.exp > 34 => "even() is false for even integers of 2E+34 and above (remainder: Division impossible)".to_string(),
    "odd" | "isint" if a.exp != 0 => "odd() is false for an odd integer written with fraction zeros (is_integer tests exponent = 0)".to_string(),
    _ => format!("{} does not return the specified (correctly rounded) result", op),
  }
}
