//! C04 — a decision's value is its logic evaluated over its requirement graph; input entries
//! outside the requirement closure have no influence.
//!
//! Acyclic requirement graphs (inputs, decisions, knowledge models, decision services) are
//! generated, rendered as DMN XML, loaded with `dmntk_model::parse` + `ModelEvaluator::new`, and
//! every invocable is evaluated with `evaluate_invocable` on generated input contexts — plain,
//! with additional entries outside the requirement closure, and with entries named like the
//! variables of decisions / knowledge models / decision services (the repaired finding F14: they
//! are outside the closure unless they are input decisions of an invoked service).  The same graph — the logic as syntax
//! trees delivered by the real parser in the scope the builder uses — goes to the Lean model
//! (`Dmn.Drg.evaluateInvocable`) and the specification (`Dmn.Drg.Spec.evaluateInvocable`).

use crate::c01::{Gen, Vars, K};
use crate::model::Model;
use crate::report::{Kind, Report};
use crate::rng::Rng;
use crate::sexp::Sexp;
use crate::util::guarded;
use crate::vals::{ast_sexp, value_sexp};
use crate::Cfg;
use dmntk_feel::context::FeelContext;
use dmntk_feel::values::Value;
use dmntk_feel::{FeelType, Name, Scope};
use dmntk_model_evaluator::ModelEvaluator;
use serde_json::json;
use std::collections::{BTreeMap, BTreeSet};

// ------------------------------------------------------------------------------------------
// the generated graph

#[derive(Clone, Copy, PartialEq, Eq, Debug)]
pub enum Ty {
  Untyped,
  Other,
  Number,
  Str,
  Boolean,
  /// `typeRef="Any"`: the value passes as it is and the name is known to the logic (input data only)
  Any,
  /// `typeRef=" number "`: white space around a type reference is not a part of the name (input data only)
  NumberSp,
  /// item definitions of `ITEMS`: a number with allowed values, a reference to it with allowed
  /// values of its own, a collection of numbers, a component type, a string with allowed values
  ItemNum,
  ItemRef,
  ItemList,
  ItemComp,
  ItemStr,
}

/// The item definitions a generated graph may use: name, XML body (after the name), and the
/// definition for the driver (the format of C11).
const ITEMS: [(&str, &str, &str); 5] = [
  ("tNum", "><typeRef>number</typeRef><allowedValues><text>&gt;= 0</text></allowedValues>", "(simple number (cmp ge 0))"),
  ("tRef", "><typeRef>tNum</typeRef><allowedValues><text>&lt; 20</text></allowedValues>", "(ref (s 116 78 117 109) (cmp lt 20))"),
  ("tList", " isCollection=\"true\"><typeRef>number</typeRef>", "(collSimple number none)"),
  (
    "tComp",
    "><itemComponent name=\"r\"><typeRef>number</typeRef></itemComponent><itemComponent name=\"s\"><typeRef>tNum</typeRef></itemComponent>",
    "(comp (((s 114) (simple number none)) ((s 115) (ref (s 116 78 117 109) none))) none)",
  ),
  ("tStr", "><typeRef>string</typeRef><allowedValues><text>\"a\",\"b\"</text></allowedValues>", "(simple string (lits (s 97) (s 98)))"),
];

impl Ty {
  fn atom(self) -> &'static str {
    match self {
      Ty::Untyped | Ty::Any => "untyped",
      Ty::Other => "other",
      Ty::Number | Ty::NumberSp => "number",
      Ty::Str => "string",
      Ty::Boolean => "boolean",
      Ty::ItemNum => "tNum",
      Ty::ItemRef => "tRef",
      Ty::ItemList => "tList",
      Ty::ItemComp => "tComp",
      Ty::ItemStr => "tStr",
    }
  }
  fn is_item(self) -> bool {
    matches!(self, Ty::ItemNum | Ty::ItemRef | Ty::ItemList | Ty::ItemComp | Ty::ItemStr)
  }
  /// the type for the driver
  fn sexp(self) -> Sexp {
    if self.is_item() {
      Sexp::tagged("named", vec![Sexp::str(self.atom())])
    } else {
      Sexp::atom(self.atom())
    }
  }
  fn attr(self) -> String {
    match self {
      Ty::Untyped => String::new(),
      Ty::Other => " typeRef=\"tNoSuchType\"".into(),
      Ty::Any => " typeRef=\"Any\"".into(),
      Ty::NumberSp => " typeRef=\" number \"".into(),
      t => format!(" typeRef=\"{}\"", t.atom()),
    }
  }
  fn feel_type(self) -> Option<FeelType> {
    match self {
      Ty::Number | Ty::NumberSp => Some(FeelType::Number),
      Ty::Any => Some(FeelType::Any),
      Ty::Str => Some(FeelType::String),
      Ty::Boolean => Some(FeelType::Boolean),
      _ => None,
    }
  }
}

#[derive(Clone, Debug)]
pub enum Logic {
  Lit(String),
  /// entries with a variable, or (`None`) the result entry
  Ctx(Vec<(Option<String>, Logic)>),
  /// called function, bindings; `true`: rendered as a boxed function definition whose formal
  /// parameters carry value expressions (the closure is the same, `mod.rs:330-349`)
  Inv(Box<Logic>, Vec<(String, Logic)>, bool),
  /// columns, rows of literal expressions
  Rel(Vec<String>, Vec<Vec<String>>),
  /// a decision table
  Table(GTable),
}

#[derive(Clone, Debug)]
pub struct GTable {
  /// `hitPolicy` attribute, `aggregation` attribute, tag for the driver
  hit_policy: (&'static str, Option<&'static str>, &'static str),
  /// input expression, input values
  inputs: Vec<(String, Option<String>)>,
  /// name, output values, default output entry
  outputs: Vec<(Option<String>, Option<String>, Option<String>)>,
  /// input entries, output entries
  rules: Vec<(Vec<String>, Vec<String>)>,
}

#[derive(Clone, Debug)]
pub struct GInput {
  id: String,
  name: String,
  ty: Ty,
}

#[derive(Clone, Debug)]
pub struct GDecision {
  id: String,
  name: String,
  var: String,
  ty: Ty,
  req_inputs: Vec<String>,
  req_decisions: Vec<String>,
  req_knowledge: Vec<String>,
  logic: Logic,
}

#[derive(Clone, Debug)]
pub struct GBkm {
  id: String,
  name: String,
  var: String,
  ty: Ty,
  params: Vec<(String, Ty)>,
  req_knowledge: Vec<String>,
  logic: Logic,
}

#[derive(Clone, Debug)]
pub struct GService {
  id: String,
  name: String,
  var: String,
  ty: Ty,
  input_data: Vec<String>,
  input_decisions: Vec<String>,
  encapsulated: Vec<String>,
  output: Vec<String>,
}

#[derive(Clone, Debug, Default)]
pub struct Graph {
  inputs: Vec<GInput>,
  decisions: Vec<GDecision>,
  bkms: Vec<GBkm>,
  services: Vec<GService>,
}

impl Graph {
  fn input(&self, id: &str) -> Option<&GInput> {
    self.inputs.iter().rev().find(|x| x.id == id)
  }
  fn decision(&self, id: &str) -> Option<&GDecision> {
    self.decisions.iter().rev().find(|x| x.id == id)
  }
  fn bkm(&self, id: &str) -> Option<&GBkm> {
    self.bkms.iter().rev().find(|x| x.id == id)
  }
  fn service(&self, id: &str) -> Option<&GService> {
    self.services.iter().rev().find(|x| x.id == id)
  }
  /// names of every variable of a decision, knowledge model or decision service
  fn var_names(&self) -> BTreeSet<String> {
    let mut s = BTreeSet::new();
    for d in &self.decisions {
      s.insert(d.var.clone());
    }
    for b in &self.bkms {
      s.insert(b.var.clone());
    }
    for x in &self.services {
      s.insert(x.var.clone());
    }
    s
  }
  fn invocable_names(&self) -> Vec<String> {
    let mut v: Vec<String> = vec![];
    for n in self.bkms.iter().map(|b| &b.name).chain(self.decisions.iter().map(|d| &d.name)).chain(self.services.iter().map(|s| &s.name)) {
      if !v.contains(n) {
        v.push(n.clone());
      }
    }
    v
  }
  fn uses_items(&self) -> bool {
    self.inputs.iter().any(|i| i.ty.is_item()) || self.decisions.iter().any(|d| d.ty.is_item()) || self.bkms.iter().any(|b| b.ty.is_item()) || self.services.iter().any(|s| s.ty.is_item())
  }
  fn bkm_requires_service(&self) -> bool {
    self.bkms.iter().any(|b| b.req_knowledge.iter().any(|k| self.service(k).is_some()))
  }
}

// ------------------------------------------------------------------------------------------
// XML

fn esc(s: &str) -> String {
  s.replace('&', "&amp;").replace('<', "&lt;").replace('>', "&gt;").replace('"', "&quot;")
}

fn logic_xml(l: &Logic) -> String {
  match l {
    Logic::Lit(t) => format!("<literalExpression><text>{}</text></literalExpression>", esc(t)),
    Logic::Ctx(entries) => {
      let mut s = String::from("<context>");
      for (n, e) in entries {
        s.push_str("<contextEntry>");
        if let Some(n) = n {
          s.push_str(&format!("<variable name=\"{}\"/>", esc(n)));
        }
        s.push_str(&logic_xml(e));
        s.push_str("</contextEntry>");
      }
      s.push_str("</context>");
      s
    }
    Logic::Inv(f, bindings, false) => {
      let mut s = String::from("<invocation>");
      s.push_str(&logic_xml(f));
      for (n, e) in bindings {
        s.push_str(&format!("<binding><parameter name=\"{}\"/>{}</binding>", esc(n), logic_xml(e)));
      }
      s.push_str("</invocation>");
      s
    }
    Logic::Inv(f, bindings, true) => {
      let mut s = String::from("<functionDefinition>");
      for (n, e) in bindings {
        s.push_str(&format!("<formalParameter name=\"{}\">{}</formalParameter>", esc(n), logic_xml(e)));
      }
      s.push_str(&logic_xml(f));
      s.push_str("</functionDefinition>");
      s
    }
    Logic::Table(t) => {
      let mut s = format!("<decisionTable hitPolicy=\"{}\"", t.hit_policy.0);
      if let Some(a) = t.hit_policy.1 {
        s.push_str(&format!(" aggregation=\"{}\"", a));
      }
      s.push('>');
      for (e, v) in &t.inputs {
        s.push_str(&format!("<input><inputExpression><text>{}</text></inputExpression>", esc(e)));
        if let Some(v) = v {
          s.push_str(&format!("<inputValues><text>{}</text></inputValues>", esc(v)));
        }
        s.push_str("</input>");
      }
      for (n, v, d) in &t.outputs {
        s.push_str("<output");
        if let Some(n) = n {
          s.push_str(&format!(" name=\"{}\"", esc(n)));
        }
        s.push('>');
        if let Some(v) = v {
          s.push_str(&format!("<outputValues><text>{}</text></outputValues>", esc(v)));
        }
        if let Some(d) = d {
          s.push_str(&format!("<defaultOutputEntry><text>{}</text></defaultOutputEntry>", esc(d)));
        }
        s.push_str("</output>");
      }
      for (ies, oes) in &t.rules {
        s.push_str("<rule>");
        for e in ies {
          s.push_str(&format!("<inputEntry><text>{}</text></inputEntry>", esc(e)));
        }
        for e in oes {
          s.push_str(&format!("<outputEntry><text>{}</text></outputEntry>", esc(e)));
        }
        s.push_str("</rule>");
      }
      s.push_str("</decisionTable>");
      s
    }
    Logic::Rel(cols, rows) => {
      let mut s = String::from("<relation>");
      for c in cols {
        s.push_str(&format!("<column name=\"{}\"/>", esc(c)));
      }
      for r in rows {
        s.push_str("<row>");
        for c in r {
          s.push_str(&format!("<literalExpression><text>{}</text></literalExpression>", esc(c)));
        }
        s.push_str("</row>");
      }
      s.push_str("</relation>");
      s
    }
  }
}

const HEAD: &str = r#"<?xml version="1.0" encoding="UTF-8"?><definitions namespace="ns" name="m" id="_m" xmlns="https://www.omg.org/spec/DMN/20191111/MODEL/">"#;

pub fn graph_xml(g: &Graph) -> String {
  let mut x = String::from(HEAD);
  if g.uses_items() {
    for (name, body, _) in ITEMS {
      x.push_str(&format!("<itemDefinition name=\"{}\"{}</itemDefinition>", name, body));
    }
  }
  for i in &g.inputs {
    x.push_str(&format!("<inputData name=\"{}\" id=\"{}\"><variable name=\"{}\"{}/></inputData>", esc(&i.name), i.id, esc(&i.name), i.ty.attr()));
  }
  for d in &g.decisions {
    x.push_str(&format!("<decision name=\"{}\" id=\"{}\"><variable name=\"{}\"{}/>", esc(&d.name), d.id, esc(&d.var), d.ty.attr()));
    let mut r = 0;
    for q in &d.req_decisions {
      r += 1;
      x.push_str(&format!("<informationRequirement id=\"{}_i{}\"><requiredDecision href=\"#{}\"/></informationRequirement>", d.id, r, q));
    }
    for q in &d.req_inputs {
      r += 1;
      x.push_str(&format!("<informationRequirement id=\"{}_i{}\"><requiredInput href=\"#{}\"/></informationRequirement>", d.id, r, q));
    }
    for q in &d.req_knowledge {
      r += 1;
      x.push_str(&format!("<knowledgeRequirement id=\"{}_k{}\"><requiredKnowledge href=\"#{}\"/></knowledgeRequirement>", d.id, r, q));
    }
    x.push_str(&logic_xml(&d.logic));
    x.push_str("</decision>");
  }
  for b in &g.bkms {
    x.push_str(&format!("<businessKnowledgeModel name=\"{}\" id=\"{}\"><variable name=\"{}\"{}/><encapsulatedLogic>", esc(&b.name), b.id, esc(&b.var), b.ty.attr()));
    for (p, t) in &b.params {
      x.push_str(&format!("<formalParameter name=\"{}\"{}/>", esc(p), t.attr()));
    }
    x.push_str(&logic_xml(&b.logic));
    x.push_str("</encapsulatedLogic>");
    for (r, q) in b.req_knowledge.iter().enumerate() {
      x.push_str(&format!("<knowledgeRequirement id=\"{}_k{}\"><requiredKnowledge href=\"#{}\"/></knowledgeRequirement>", b.id, r, q));
    }
    x.push_str("</businessKnowledgeModel>");
  }
  for s in &g.services {
    x.push_str(&format!("<decisionService name=\"{}\" id=\"{}\"><variable name=\"{}\"{}/>", esc(&s.name), s.id, esc(&s.var), s.ty.attr()));
    for q in &s.output {
      x.push_str(&format!("<outputDecision href=\"#{}\"/>", q));
    }
    for q in &s.encapsulated {
      x.push_str(&format!("<encapsulatedDecision href=\"#{}\"/>", q));
    }
    for q in &s.input_decisions {
      x.push_str(&format!("<inputDecision href=\"#{}\"/>", q));
    }
    for q in &s.input_data {
      x.push_str(&format!("<inputData href=\"#{}\"/>", q));
    }
    x.push_str("</decisionService>");
  }
  x.push_str("</definitions>");
  x
}

// ------------------------------------------------------------------------------------------
// the graph for the driver: literal expressions parsed by the real parser in the builder's scope

/// `bring_knowledge_requirements_into_context` (`decision.rs:197-218`); `depth` guards the
/// harness against a cyclic input (the generator makes none).
fn bring_knowledge(g: &Graph, ids: &[String], ctx: &mut FeelContext, depth: usize) {
  if depth > 32 {
    return;
  }
  for id in ids {
    if let Some(b) = g.bkm(id) {
      ctx.set_null(Name::from(b.var.as_str()));
      bring_knowledge(g, &b.req_knowledge, ctx, depth + 1);
    } else if let Some(s) = g.service(id) {
      ctx.set_null(Name::from(s.var.as_str()));
    }
  }
}

/// The context `build_decision_evaluator` parses the logic in (`decision.rs:100-118`).
fn decision_build_ctx(g: &Graph, d: &GDecision) -> FeelContext {
  let mut ctx = FeelContext::default();
  bring_knowledge(g, &d.req_knowledge, &mut ctx, 0);
  for q in &d.req_decisions {
    if let Some(r) = g.decision(q) {
      ctx.set_null(Name::from(r.var.as_str()));
      bring_knowledge(g, &r.req_knowledge, &mut ctx, 0);
    }
  }
  for q in &d.req_inputs {
    if let Some(i) = g.input(q) {
      if let Some(t) = i.ty.feel_type() {
        ctx.set_entry(&Name::from(i.name.as_str()), Value::FeelType(t));
      } else if i.ty.is_item() {
        // `item_definition_context_evaluator.eval` (`item_definition_context.rs`): what the
        // definition's kind puts under the name
        let n = Name::from(i.name.as_str());
        let num = || Value::FeelType(FeelType::Number);
        match i.ty {
          Ty::ItemNum | Ty::ItemRef => ctx.set_entry(&n, num()),
          Ty::ItemStr => ctx.set_entry(&n, Value::FeelType(FeelType::String)),
          Ty::ItemList => ctx.set_entry(&n, Value::List(dmntk_feel::values::Values::new(vec![num()]))),
          _ => {
            let mut c = FeelContext::default();
            c.set_entry(&Name::from("r"), num());
            c.set_entry(&Name::from("s"), num());
            ctx.set_entry(&n, Value::Context(c));
          }
        }
      }
    }
  }
  ctx
}

/// The context `build_business_knowledge_model_evaluator` parses the body in
/// (`business_knowledge_model.rs:96-106`).
fn bkm_build_ctx(b: &GBkm) -> FeelContext {
  let mut ctx = FeelContext::default();
  for (p, t) in &b.params {
    ctx.set_entry(&Name::from(p.as_str()), Value::FeelType(t.feel_type().unwrap_or(FeelType::Any)));
  }
  ctx
}

/// Mirrors the scope handling of `build_expression_instance_evaluator` (`mod.rs:272-405`).
fn logic_sexp(scope: &Scope, l: &Logic) -> Option<Sexp> {
  match l {
    Logic::Lit(t) => {
      let node = match guarded(|| dmntk_feel_parser::parse_expression(scope, t, false)) {
        Ok(Ok(n)) => n,
        _ => return None,
      };
      Some(Sexp::tagged("lit", vec![ast_sexp(&node)]))
    }
    Logic::Ctx(entries) => {
      let mut xs = vec![];
      scope.push(FeelContext::default());
      let mut ok = true;
      for (n, e) in entries {
        match logic_sexp(scope, e) {
          Some(s) => match n {
            Some(n) => {
              scope.insert_null(Name::from(n.as_str()));
              xs.push(Sexp::tagged("entry", vec![Sexp::str(n), s]));
            }
            None => xs.push(Sexp::tagged("result", vec![s])),
          },
          None => {
            ok = false;
            break;
          }
        }
      }
      scope.pop();
      if ok {
        Some(Sexp::tagged("ctx", xs))
      } else {
        None
      }
    }
    Logic::Inv(f, bindings, _) => {
      let mut xs = vec![logic_sexp(scope, f)?];
      for (n, e) in bindings {
        xs.push(Sexp::list(vec![Sexp::str(n), logic_sexp(scope, e)?]));
      }
      Some(Sexp::tagged("inv", xs))
    }
    Logic::Table(t) => {
      // `parse_decision_table` (`decision_table.rs:271-347`): every cell in the scope of the
      // enclosing element; input expressions and output entries are expressions, the other
      // cells unary tests
      let expr = |text: &str| -> Option<Sexp> {
        match guarded(|| dmntk_feel_parser::parse_expression(scope, text, false)) {
          Ok(Ok(n)) => Some(ast_sexp(&n)),
          _ => None,
        }
      };
      let tests = |text: &str| -> Option<Sexp> {
        match guarded(|| dmntk_feel_parser::parse_unary_tests(scope, text, false)) {
          Ok(Ok(n)) => Some(ast_sexp(&n)),
          _ => None,
        }
      };
      let opt = |text: &Option<String>| -> Option<Sexp> {
        match text {
          Some(t) => tests(t),
          None => Some(Sexp::atom("absent")),
        }
      };
      let mut ins = vec![];
      for (e, v) in &t.inputs {
        ins.push(Sexp::tagged("in", vec![expr(e)?, opt(v)?]));
      }
      let mut outs = vec![];
      for (n, v, d) in &t.outputs {
        let name = match n {
          Some(n) => Sexp::str(n),
          None => Sexp::atom("absent"),
        };
        outs.push(Sexp::tagged("out", vec![name, opt(v)?, opt(d)?]));
      }
      let mut rules = vec![];
      for (ies, oes) in &t.rules {
        let mut a = vec![];
        for e in ies {
          a.push(tests(e)?);
        }
        let mut b = vec![];
        for e in oes {
          b.push(expr(e)?);
        }
        rules.push(Sexp::tagged("rule", vec![Sexp::list(a), Sexp::list(b)]));
      }
      Some(Sexp::tagged("dt", vec![Sexp::str(t.hit_policy.2), Sexp::list(ins), Sexp::list(outs), Sexp::list(rules)]))
    }
    Logic::Rel(cols, rows) => {
      let mut rs = vec![];
      for r in rows {
        let mut cells = vec![];
        for (i, c) in r.iter().enumerate() {
          if let Some(col) = cols.get(i) {
            cells.push(Sexp::list(vec![Sexp::str(col), logic_sexp(scope, &Logic::Lit(c.clone()))?]));
          }
        }
        rs.push(Sexp::tagged("row", cells));
      }
      Some(Sexp::tagged("rel", rs))
    }
  }
}

fn strs(xs: &[String]) -> Sexp {
  Sexp::list(xs.iter().map(|s| Sexp::str(s)).collect())
}

fn type_atom(t: Ty) -> Sexp {
  // formal parameter types: the FEEL type (`Any` when untyped)
  crate::vals::type_sexp(&t.feel_type().unwrap_or(FeelType::Any))
}

pub fn graph_sexp(g: &Graph) -> Option<Sexp> {
  let mut is = vec![];
  for i in &g.inputs {
    is.push(Sexp::list(vec![Sexp::str(&i.id), Sexp::str(&i.name), i.ty.sexp()]));
  }
  let mut ds = vec![];
  for d in &g.decisions {
    let scope: Scope = decision_build_ctx(g, d).into();
    let l = logic_sexp(&scope, &d.logic)?;
    ds.push(Sexp::list(vec![
      Sexp::str(&d.id),
      Sexp::str(&d.name),
      Sexp::str(&d.var),
      d.ty.sexp(),
      strs(&d.req_inputs),
      strs(&d.req_decisions),
      strs(&d.req_knowledge),
      l,
    ]));
  }
  let mut ks = vec![];
  for b in &g.bkms {
    let scope: Scope = bkm_build_ctx(b).into();
    let l = logic_sexp(&scope, &b.logic)?;
    ks.push(Sexp::list(vec![
      Sexp::str(&b.id),
      Sexp::str(&b.name),
      Sexp::str(&b.var),
      b.ty.sexp(),
      Sexp::list(b.params.iter().map(|(p, t)| Sexp::list(vec![Sexp::str(p), type_atom(*t)])).collect()),
      strs(&b.req_knowledge),
      l,
    ]));
  }
  let mut ss = vec![];
  for s in &g.services {
    ss.push(Sexp::list(vec![
      Sexp::str(&s.id),
      Sexp::str(&s.name),
      Sexp::str(&s.var),
      s.ty.sexp(),
      strs(&s.input_data),
      strs(&s.input_decisions),
      strs(&s.encapsulated),
      strs(&s.output),
    ]));
  }
  let mut parts = vec![Sexp::list(is), Sexp::list(ds), Sexp::list(ks), Sexp::list(ss)];
  if g.uses_items() {
    let mut items = vec![];
    for (name, _, def) in ITEMS {
      items.push(Sexp::list(vec![Sexp::str(name), Sexp::parse(def)?]));
    }
    parts.push(Sexp::list(items));
  }
  Some(Sexp::tagged("graph", parts))
}

// ------------------------------------------------------------------------------------------
// generation

/// What a name in scope evaluates to (decides how it is used in generated text).
#[derive(Clone, Debug, PartialEq)]
enum VK {
  Num,
  /// a number that is certainly an integer (or null): what decision tables may compute with
  Int,
  Str,
  Bool,
  /// context with numeric entries `r`, `s`
  CtxRS,
  /// context with integer entries `r`, `s`
  CtxInt,
  /// list of numbers
  ListN,
  /// list of contexts with column `c0`
  Rel,
  /// function of the given parameter names returning a number
  Fun(Vec<String>),
  /// function returning a context keyed by the given names
  FunCtx(Vec<String>, Vec<String>),
  Null,
}

struct Env {
  names: Vec<(String, VK)>,
}

impl Env {
  fn vars(&self) -> Vars {
    let mut v = vec![];
    for (n, k) in &self.names {
      let k = match k {
        VK::Num | VK::Int => K::Num,
        VK::Str => K::Str,
        VK::Bool => K::Bool,
        VK::ListN => K::List,
        VK::Null => K::Any,
        _ => continue,
      };
      // a later binding of the same name shadows
      v.retain(|(m, _): &(String, K)| m != n);
      v.push((n.clone(), k));
    }
    Vars { vars: v }
  }
}

struct GraphGen<'a> {
  rng: &'a mut Rng,
  fresh: u32,
}

impl<'a> GraphGen<'a> {
  fn sub(&mut self, d: u32, vars: &Vars, what: u8) -> String {
    let mut g = Gen { rng: self.rng, fresh: self.fresh };
    let t = match what {
      0 => g.num(d, vars),
      1 => g.string(d, vars),
      2 => g.boolean(d, vars),
      _ => g.list(d, vars),
    };
    self.fresh = g.fresh;
    t
  }
  /// a small numeric expression that does not multiply variables (keeps values small)
  fn small(&mut self, env: &Env) -> String {
    let nums: Vec<&String> = env.names.iter().filter(|(_, k)| matches!(k, VK::Num | VK::Int)).map(|(n, _)| n).collect();
    if !nums.is_empty() && self.rng.chance(1, 2) {
      (*self.rng.pick(&nums)).clone()
    } else {
      format!("{}", self.rng.range(0, 9))
    }
  }
  /// a number-valued use of the name `n` of kind `k`
  fn use_num(&mut self, n: &str, k: &VK, env: &Env) -> Option<String> {
    Some(match k {
      VK::Num | VK::Int => n.to_string(),
      VK::CtxRS | VK::CtxInt => format!("{}.{}", n, self.rng.pick(&["r", "s"])),
      VK::ListN => format!("{}[{}]", n, self.rng.range(1, 2)),
      VK::Rel => format!("{}[1].c0", n),
      VK::Fun(ps) => self.call(n, ps, env),
      VK::FunCtx(ps, keys) => {
        let c = self.call(n, ps, env);
        if keys.is_empty() {
          return None;
        }
        let k = self.rng.pick(keys).clone();
        format!("{}.{}", c, k)
      }
      _ => return None,
    })
  }
  fn call(&mut self, f: &str, ps: &[String], env: &Env) -> String {
    let args: Vec<String> = ps.iter().map(|_| self.small(env)).collect();
    match self.rng.below(8) {
      // named invocation
      0 | 1 if !ps.is_empty() => format!("{}({})", f, ps.iter().zip(args.iter()).map(|(p, a)| format!("{}: {}", p, a)).collect::<Vec<_>>().join(", ")),
      // wrong arity
      2 if !ps.is_empty() => format!("{}({})", f, args[1..].join(", ")),
      _ => format!("{}({})", f, args.join(", ")),
    }
  }
  /// an integer-valued expression: integer literals and names of kind `Int`, `+` and `-`
  fn int_expr(&mut self, env: &Env) -> String {
    let ints: Vec<&String> = env.names.iter().filter(|(_, k)| *k == VK::Int).map(|(n, _)| n).collect();
    let atom = |me: &mut Self| -> String {
      if !ints.is_empty() && me.rng.chance(2, 3) {
        (*me.rng.pick(&ints)).clone()
      } else {
        format!("{}", me.rng.range(0, 12))
      }
    };
    match self.rng.below(4) {
      0 => format!("{} + {}", atom(self), atom(self)),
      1 => format!("{} - {}", atom(self), self.rng.range(0, 5)),
      _ => atom(self),
    }
  }
  /// a unary test on an integer
  fn int_test(&mut self, env: &Env, names: bool) -> String {
    // (a negative literal is not a unary test of this parser: `>= -1` is a syntax error)
    let k = self.rng.range(0, 20);
    match self.rng.below(12) {
      0 | 1 => "-".to_string(),
      2 => format!("< {}", k),
      3 => format!("<= {}", k),
      4 => format!("> {}", k),
      5 => format!(">= {}", k),
      6 => format!("{}", k),
      7 => format!("[{}..{}]", k, k + self.rng.range(0, 10)),
      8 => format!("not({})", k),
      9 => format!("{}, {}", k, k + 3),
      10 if names => format!("< {}", self.int_expr(env)),
      _ => format!(">= {}", k),
    }
  }
  /// A decision table over the names in `env` (the cells of a knowledge model's table use
  /// literals in the output entries: its parameters need not be integers).
  fn table(&mut self, env: &Env, for_bkm: bool) -> (Logic, VK) {
    const POLICIES: [(&str, Option<&str>, &str); 11] = [
      ("UNIQUE", None, "U"),
      ("FIRST", None, "F"),
      ("PRIORITY", None, "P"),
      ("COLLECT", Some("SUM"), "C+"),
      ("ANY", None, "A"),
      ("RULE ORDER", None, "R"),
      ("OUTPUT ORDER", None, "O"),
      ("COLLECT", None, "C"),
      ("COLLECT", Some("MIN"), "C<"),
      ("COLLECT", Some("MAX"), "C>"),
      ("COLLECT", Some("COUNT"), "C#"),
    ];
    let hp = if self.rng.chance(2, 3) { POLICIES[self.rng.below(4) as usize] } else { *self.rng.pick(&POLICIES) };
    let tag = hp.2;
    let aggregating = matches!(tag, "C+" | "C<" | "C>" | "C#");
    let prioritising = matches!(tag, "P" | "O");
    let n_in = 1 + self.rng.below(2) as usize;
    let n_out = if aggregating && self.rng.chance(9, 10) { 1 } else { 1 + self.rng.below(2) as usize };
    let strings = !aggregating && self.rng.chance(1, 5);
    let mut inputs = vec![];
    for _ in 0..n_in {
      let e = if for_bkm {
        // a parameter, or an integer expression
        let ps: Vec<&String> = env.names.iter().filter(|(_, k)| matches!(k, VK::Num | VK::Int)).map(|(n, _)| n).collect();
        if !ps.is_empty() && self.rng.chance(3, 4) {
          (*self.rng.pick(&ps)).clone()
        } else {
          self.int_expr(env)
        }
      } else {
        self.int_expr(env)
      };
      let iv = match self.rng.below(8) {
        0 => Some("[0..100]".to_string()),
        1 => Some(">= 0".to_string()),
        _ => None,
      };
      inputs.push((e, iv));
    }
    // one numeric table in four computes with decimals (written without trailing zeros: the model layer carries the
    // value of a number, and `toDT` passes the representations that are the normal form already)
    let decimals = !strings && self.rng.chance(1, 4);
    let lits: Vec<String> = if strings {
      vec!["\"a\"".into(), "\"b\"".into(), "\"c\"".into()]
    } else if decimals {
      vec!["0.5".into(), "1.25".into(), "2.5".into(), "0.15".into()]
    } else {
      vec!["1".into(), "2".into(), "3".into(), "10".into()]
    };
    let mut outputs = vec![];
    for o in 0..n_out {
      let name = if n_out == 2 { Some(if o == 0 { "r".to_string() } else { "s".to_string() }) } else if self.rng.chance(1, 3) { Some("o".to_string()) } else { None };
      let ov = if prioritising || self.rng.chance(1, 8) {
        let mut l = lits.clone();
        if self.rng.chance(1, 2) {
          l.reverse();
        }
        l.truncate(3);
        Some(l.join(", "))
      } else {
        None
      };
      let def = if self.rng.chance(1, 3) { Some(self.rng.pick(&lits).clone()) } else { None };
      outputs.push((name, ov, def));
    }
    let n_rules = self.rng.below(5) as usize;
    let mut rules = vec![];
    for _ in 0..n_rules {
      let ies: Vec<String> = (0..n_in)
        .map(|_| {
          if decimals && self.rng.chance(1, 3) {
            let k = self.rng.range(0, 12);
            match self.rng.below(4) {
              0 => format!("< {}.5", k),
              1 => format!(">= {}.25", k),
              2 => format!("[{}.5..{}.75]", k, k + 4),
              _ => format!("not({}.5)", k),
            }
          } else {
            self.int_test(env, !for_bkm)
          }
        })
        .collect();
      let oes: Vec<String> = (0..n_out)
        .map(|o| {
          if outputs[o].1.is_some() || strings || for_bkm || self.rng.chance(1, 2) {
            self.rng.pick(&lits).clone()
          } else {
            self.int_expr(env)
          }
        })
        .collect();
      rules.push((ies, oes));
    }
    let kind = match (tag, n_out) {
      ("U" | "F" | "P" | "A", 1) if decimals => VK::Num,
      ("U" | "F" | "P" | "A", _) if decimals => VK::CtxRS,
      ("C+" | "C<" | "C>", 1) if decimals => VK::Num,
      ("U" | "F" | "P" | "A", 1) => if strings { VK::Str } else { VK::Int },
      ("U" | "F" | "P" | "A", _) => if strings { VK::Null } else { VK::CtxInt },
      ("C+" | "C<" | "C>" | "C#", 1) => VK::Int,
      ("C" | "R" | "O", 1) => if strings { VK::Null } else { VK::ListN },
      _ => VK::Null,
    };
    (Logic::Table(GTable { hit_policy: hp, inputs, outputs, rules }), kind)
  }
  /// literal expression text over the names in `env`, and the kind of its value
  fn expr(&mut self, env: &Env) -> (String, VK) {
    let vars = env.vars();
    let usable: Vec<(String, VK)> = env.names.iter().filter(|(_, k)| !matches!(k, VK::Str | VK::Bool | VK::Null)).cloned().collect();
    let mut pick_use = |me: &mut Self| -> String {
      if !usable.is_empty() && me.rng.chance(4, 5) {
        let (n, k) = me.rng.pick(&usable).clone();
        if let Some(t) = me.use_num(&n, &k, env) {
          return t;
        }
      }
      me.sub(1, &vars, 0)
    };
    match self.rng.below(16) {
      0 | 1 => (self.sub(2, &vars, 0), VK::Num),
      2 | 3 | 4 => {
        let a = pick_use(self);
        let b = pick_use(self);
        let op = *self.rng.pick(&["+", "-", "+"]);
        (format!("{} {} {}", a, op, b), VK::Num)
      }
      5 => {
        let a = pick_use(self);
        let n = self.sub(1, &vars, 0);
        (format!("{} + {}", a, n), VK::Num)
      }
      6 => {
        let c = self.sub(1, &vars, 2);
        let a = pick_use(self);
        let b = pick_use(self);
        (format!("if {} then {} else {}", c, a, b), VK::Num)
      }
      7 => {
        let a = pick_use(self);
        let b = pick_use(self);
        (format!("{{r: {}, s: {}}}", a, b), VK::CtxRS)
      }
      8 => {
        let a = pick_use(self);
        let b = pick_use(self);
        (format!("[{}, {}]", a, b), VK::ListN)
      }
      9 => (self.sub(1, &vars, 1), VK::Str),
      10 => {
        let a = pick_use(self);
        let n = self.rng.range(0, 20);
        (format!("{} > {}", a, n), VK::Bool)
      }
      11 => {
        // a function value flows on (a knowledge model, a decision service, a function literal)
        let funs: Vec<(String, VK)> = env.names.iter().filter(|(_, k)| matches!(k, VK::Fun(_))).cloned().collect();
        if !funs.is_empty() && self.rng.chance(2, 3) {
          let (n, k) = self.rng.pick(&funs).clone();
          (n, k)
        } else {
          let a = pick_use(self);
          (format!("function(u) u + {}", a), VK::Fun(vec!["u".into()]))
        }
      }
      12 => {
        let a = pick_use(self);
        (format!("for i in [1, 2] return i + {}", a), VK::ListN)
      }
      13 => {
        let a = pick_use(self);
        let b = pick_use(self);
        (format!("[{}, {}, 7][item > {}]", a, b, self.rng.range(0, 9)), VK::Null)
      }
      14 => (self.int_expr(env), VK::Int),
      _ => {
        let a = pick_use(self);
        (a, VK::Num)
      }
    }
  }
  /// decision logic / knowledge model body over `env`
  fn logic(&mut self, env: &Env, allow_boxed: bool) -> (Logic, VK) {
    let boxed = allow_boxed && self.rng.chance(2, 5);
    if !boxed {
      let (t, k) = self.expr(env);
      return (Logic::Lit(t), k);
    }
    match self.rng.below(9) {
      6 | 7 | 8 => self.table(env, false),
      0 | 1 => {
        // boxed context: r, s (sees r), optionally a result entry
        let (a, ka) = self.expr(env);
        let ka = if matches!(ka, VK::Num | VK::Int) { VK::Num } else { VK::Null };
        let mut inner = Env { names: env.names.clone() };
        inner.names.push(("r".into(), ka.clone()));
        let b = format!("{} + {}", if ka == VK::Num { "r".to_string() } else { "1".to_string() }, self.small(env));
        let mut entries = vec![(Some("r".to_string()), Logic::Lit(a)), (Some("s".to_string()), Logic::Lit(b))];
        if self.rng.chance(1, 2) {
          inner.names.push(("s".into(), VK::Num));
          let (c, kc) = self.expr(&inner);
          entries.push((None, Logic::Lit(c)));
          (Logic::Ctx(entries), kc)
        } else if self.rng.chance(1, 4) {
          // an entry that is a decision table over the entries before it
          inner.names.push(("s".into(), VK::Num));
          let (t, _) = self.table(&inner, false);
          entries.push((Some("t".to_string()), t));
          (Logic::Ctx(entries), if ka == VK::Num { VK::CtxRS } else { VK::Null })
        } else if self.rng.chance(1, 3) {
          // a nested boxed context writes into the same top context of the scope
          let nested = Logic::Ctx(vec![(Some("t".to_string()), Logic::Lit("s + 1".into()))]);
          entries.push((Some("n".to_string()), nested));
          entries.push((Some("u".to_string()), Logic::Lit("t".into())));
          (Logic::Ctx(entries), if ka == VK::Num { VK::CtxRS } else { VK::Null })
        } else {
          (Logic::Ctx(entries), if ka == VK::Num { VK::CtxRS } else { VK::Null })
        }
      }
      2 | 3 | 4 => {
        // boxed invocation of a function in scope
        let funs: Vec<(String, VK)> = env.names.iter().filter(|(_, k)| matches!(k, VK::Fun(_) | VK::FunCtx(..))).cloned().collect();
        if funs.is_empty() {
          let (t, k) = self.expr(env);
          return (Logic::Lit(t), k);
        }
        let (f, k) = self.rng.pick(&funs).clone();
        let (ps, rk) = match k {
          VK::Fun(ps) => (ps, VK::Num),
          VK::FunCtx(ps, _) => (ps, VK::Null),
          _ => (vec![], VK::Null),
        };
        let mut bindings = vec![];
        for p in &ps {
          if self.rng.chance(9, 10) {
            let (t, _) = if self.rng.chance(1, 2) { (self.small(env), VK::Num) } else { self.expr(env) };
            bindings.push((p.clone(), Logic::Lit(t)));
          }
        }
        if self.rng.chance(1, 8) {
          bindings.push(("zz".into(), Logic::Lit("1".into())));
        }
        let as_fd = self.rng.chance(1, 4);
        (Logic::Inv(Box::new(Logic::Lit(f)), bindings, as_fd), rk)
      }
      _ => {
        let a = self.small(env);
        let b = self.small(env);
        let c = self.small(env);
        (Logic::Rel(vec!["c0".into(), "c1".into()], vec![vec![a, b.clone()], vec![c, b]]), VK::Rel)
      }
    }
  }
}

const INPUT_NAMES: [&str; 5] = ["a", "b", "c", "Unit Price", "q"];
const INPUT_TYPES: [Ty; 8] = [Ty::Number, Ty::Number, Ty::Number, Ty::Str, Ty::Boolean, Ty::Other, Ty::Any, Ty::NumberSp];

fn logic_kinds(l: &Logic, out: &mut BTreeSet<&'static str>) {
  match l {
    Logic::Lit(_) => {
      out.insert("literal");
    }
    Logic::Ctx(es) => {
      out.insert("boxed-context");
      for (_, e) in es {
        logic_kinds(e, out);
      }
    }
    Logic::Inv(f, bs, fd) => {
      out.insert(if *fd { "boxed-function-definition" } else { "boxed-invocation" });
      logic_kinds(f, out);
      for (_, e) in bs {
        logic_kinds(e, out);
      }
    }
    Logic::Rel(..) => {
      out.insert("relation");
    }
    Logic::Table(_) => {
      out.insert("decision-table");
    }
  }
}

fn ty_of_kind(k: &VK, rng: &mut Rng) -> Ty {
  // variables typed by item definitions, where the values are certainly integers
  if rng.chance(1, 5) {
    match k {
      VK::Int => return *rng.pick(&[Ty::ItemNum, Ty::ItemRef]),
      VK::CtxInt => return Ty::ItemComp,
      _ => {}
    }
  }
  match rng.below(10) {
    0..=4 => Ty::Untyped,
    5 => Ty::Number,
    6 => Ty::Str,
    _ => match k {
      VK::Num | VK::Int => Ty::Number,
      VK::Str => Ty::Str,
      VK::Bool => Ty::Boolean,
      _ => Ty::Untyped,
    },
  }
}

/// the kind of value a variable of declared type `ty` holds when the logic yields kind `k`
fn coerced_kind(k: &VK, ty: Ty) -> VK {
  match (ty, k) {
    (Ty::Untyped, _) | (Ty::Other, _) => k.clone(),
    (Ty::Number, VK::Num) => VK::Num,
    (Ty::Number, VK::Int) | (Ty::ItemNum, VK::Int) | (Ty::ItemRef, VK::Int) => VK::Int,
    (Ty::ItemComp, VK::CtxInt) => VK::CtxInt,
    (Ty::Str, VK::Str) => VK::Str,
    (Ty::Boolean, VK::Bool) => VK::Bool,
    _ => VK::Null,
  }
}

struct Kinds {
  decisions: BTreeMap<String, VK>,
  bkms: BTreeMap<String, VK>,
  services: BTreeMap<String, VK>,
}

/// Names of built-in functions (`Bif::from_str`, from the regenerated table through the driver) that knowledge
/// models and decision services are named like now and then: a required knowledge model / service is bound under its
/// variable's name whatever that name is. Not used: `not` (a keyword) and the names the lexer hands out as date/time
/// literal names.
static BIF_POOL: std::sync::OnceLock<Vec<String>> = std::sync::OnceLock::new();

fn bif_pool() -> &'static [String] {
  BIF_POOL.get().map(|v| v.as_slice()).unwrap_or(&[])
}

fn set_bif_pool(model: &mut Model) {
  if BIF_POOL.get().is_some() {
    return;
  }
  let unused = ["not", "date", "time", "duration", "date and time", "years and months duration"];
  let names: Vec<String> = Sexp::parse(&model.ask("(c10 bifnames)"))
    .and_then(|x| {
      x.as_list().map(|l| {
        l.iter()
          .filter_map(|n| {
            let cs = n.as_list()?;
            let mut t = String::new();
            for c in cs.iter().skip(1) {
              t.push(char::from_u32(c.as_atom()?.parse::<u32>().ok()?)?);
            }
            Some(t)
          })
          .filter(|n| !unused.contains(&n.as_str()))
          .collect()
      })
    })
    .unwrap_or_default();
  let _ = BIF_POOL.set(names);
}

/// A built-in function's name that no variable of the graph has yet.
fn bif_var(rng: &mut Rng, g: &Graph) -> Option<String> {
  let pool = bif_pool();
  if pool.is_empty() {
    return None;
  }
  let n = rng.pick(pool).clone();
  if g.var_names().contains(&n) || g.inputs.iter().any(|i| i.name == n) {
    None
  } else {
    Some(n)
  }
}

pub fn gen_graph(rng: &mut Rng) -> Graph {
  let mut g = Graph::default();
  let mut kinds = Kinds { decisions: BTreeMap::new(), bkms: BTreeMap::new(), services: BTreeMap::new() };
  let n_inputs = 1 + rng.below(3) as usize;
  let mut names: Vec<&str> = INPUT_NAMES.to_vec();
  for k in 0..n_inputs {
    let ix = rng.below(names.len() as u64) as usize;
    let name = names.remove(ix);
    // an input without typeRef makes `ModelEvaluator::new` fail (input_data_context.rs:78)
    let ty = if rng.chance(1, 60) {
      Ty::Untyped
    } else if rng.chance(1, 5) {
      *rng.pick(&[Ty::ItemNum, Ty::ItemRef, Ty::ItemList, Ty::ItemComp, Ty::ItemStr])
    } else {
      *rng.pick(&INPUT_TYPES)
    };
    g.inputs.push(GInput { id: format!("_i{}", k), name: name.to_string(), ty });
  }
  let n_nodes = 2 + rng.below(6) as usize;
  let mut gg = GraphGen { rng, fresh: 0 };
  for node in 0..n_nodes {
    let kind = gg.rng.below(10);
    if kind < 5 || (kind >= 8 && g.decisions.is_empty()) || node == 0 {
      gen_decision(&mut gg, &mut g, &mut kinds, node);
    } else if kind < 8 {
      gen_bkm(&mut gg, &mut g, &mut kinds, node);
    } else {
      gen_service(&mut gg, &mut g, &mut kinds, node);
    }
  }
  g
}

fn input_kind(ty: Ty) -> VK {
  match ty {
    // the generated input values of type number are integers
    Ty::Number | Ty::NumberSp | Ty::ItemNum | Ty::ItemRef => VK::Int,
    Ty::ItemList => VK::ListN,
    Ty::ItemComp => VK::CtxInt,
    Ty::ItemStr => VK::Str,
    Ty::Str => VK::Str,
    Ty::Boolean => VK::Bool,
    _ => VK::Null,
  }
}

/// The names visible to the logic of a decision with the given requirements, in the order in
/// which the code lets them shadow each other: typed inputs, then knowledge, then decisions.
fn decision_env(g: &Graph, kinds: &Kinds, req_inputs: &[String], req_decisions: &[String], req_knowledge: &[String]) -> Env {
  let mut env = Env { names: vec![] };
  for q in req_inputs {
    if let Some(i) = g.input(q) {
      env.names.push((i.name.clone(), input_kind(i.ty)));
    }
  }
  fn add_bkms(g: &Graph, kinds: &Kinds, ids: &[String], env: &mut Env) {
    for id in ids {
      if let Some(b) = g.bkm(id) {
        add_bkms(g, kinds, &b.req_knowledge, env);
        for k in &b.req_knowledge {
          // a decision service required by a knowledge model is bound to its *value*
          if let Some(s) = g.service(k) {
            env.names.push((s.var.clone(), VK::Null));
          }
        }
        env.names.push((b.var.clone(), kinds.bkms.get(&b.id).cloned().unwrap_or(VK::Null)));
      }
    }
  }
  add_bkms(g, kinds, req_knowledge, &mut env);
  for id in req_knowledge {
    if let Some(s) = g.service(id) {
      env.names.push((s.var.clone(), kinds.services.get(&s.id).cloned().unwrap_or(VK::Null)));
    }
  }
  for id in req_decisions {
    if let Some(d) = g.decision(id) {
      env.names.push((d.var.clone(), kinds.decisions.get(&d.id).cloned().unwrap_or(VK::Null)));
    }
  }
  env
}

fn gen_decision(gg: &mut GraphGen, g: &mut Graph, kinds: &mut Kinds, node: usize) {
  let id = format!("_d{}", node);
  let mut req_inputs = vec![];
  for i in &g.inputs {
    if gg.rng.chance(1, 2) {
      req_inputs.push(i.id.clone());
    }
  }
  let mut req_decisions = vec![];
  for d in &g.decisions {
    if gg.rng.chance(1, 2) {
      req_decisions.push(d.id.clone());
    }
  }
  let mut req_knowledge = vec![];
  for b in &g.bkms {
    if gg.rng.chance(1, 2) {
      req_knowledge.push(b.id.clone());
    }
  }
  for s in &g.services {
    if gg.rng.chance(1, 2) {
      req_knowledge.push(s.id.clone());
    }
  }
  if gg.rng.chance(1, 30) {
    req_decisions.push("_missing".into());
  }
  let env = decision_env(g, kinds, &req_inputs, &req_decisions, &req_knowledge);
  let (logic, k) = gg.logic(&env, true);
  // variable name: usually its own, sometimes the name of an input (shadowing) or of another decision
  let var = match gg.rng.below(12) {
    0 if !g.inputs.is_empty() => gg.rng.pick(&g.inputs).name.clone(),
    1 if !g.decisions.is_empty() => gg.rng.pick(&g.decisions).var.clone(),
    2 => format!("Dec {}", node),
    _ => format!("d{}", node),
  };
  let name = if gg.rng.chance(1, 6) { format!("N{}", node) } else { var.clone() };
  let ty = ty_of_kind(&k, gg.rng);
  kinds.decisions.insert(id.clone(), coerced_kind(&k, ty));
  g.decisions.push(GDecision { id, name, var, ty, req_inputs, req_decisions, req_knowledge, logic });
}

fn gen_bkm(gg: &mut GraphGen, g: &mut Graph, kinds: &mut Kinds, node: usize) {
  let id = format!("_k{}", node);
  let mut req_knowledge = vec![];
  for b in &g.bkms {
    if gg.rng.chance(1, 2) {
      req_knowledge.push(b.id.clone());
    }
  }
  for s in &g.services {
    if gg.rng.chance(1, 6) {
      req_knowledge.push(s.id.clone());
    }
  }
  let n_params = gg.rng.below(3) as usize;
  let mut params = vec![];
  for p in 0..n_params {
    let pname = if gg.rng.chance(1, 3) && !g.inputs.is_empty() { gg.rng.pick(&g.inputs).name.clone() } else { format!("p{}", p) };
    if params.iter().any(|(n, _): &(String, Ty)| *n == pname) {
      continue;
    }
    let ty = *gg.rng.pick(&[Ty::Untyped, Ty::Untyped, Ty::Number, Ty::Str]);
    params.push((pname, ty));
  }
  // the body sees its parameters, the function values of its requirements (dynamically), and
  // — dynamic scoping — whatever the caller has in scope (`a` is tried now and then)
  let mut env = Env { names: vec![] };
  if gg.rng.chance(1, 5) {
    env.names.push(("a".into(), VK::Num));
  }
  for k in &req_knowledge {
    if let Some(b) = g.bkm(k) {
      env.names.push((b.var.clone(), kinds.bkms.get(&b.id).cloned().unwrap_or(VK::Null)));
    }
    if let Some(s) = g.service(k) {
      // bound to the service's value by the code, to the function by the specification
      env.names.push((s.var.clone(), kinds.services.get(&s.id).cloned().unwrap_or(VK::Null)));
    }
  }
  for (p, t) in &params {
    env.names.push((p.clone(), if *t == Ty::Str { VK::Str } else { VK::Num }));
  }
  // a knowledge model whose body is a decision table over its parameters
  let (logic, k) = if !params.is_empty() && gg.rng.chance(1, 4) { gg.table(&env, true) } else { gg.logic(&env, true) };
  let var = match gg.rng.below(12) {
    0 if !g.inputs.is_empty() => gg.rng.pick(&g.inputs).name.clone(),
    // named like a built-in function
    1 | 2 | 3 => bif_var(gg.rng, g).unwrap_or_else(|| format!("f{}", node)),
    _ => format!("f{}", node),
  };
  let ty = ty_of_kind(&k, gg.rng);
  let fk = match coerced_kind(&k, ty) {
    VK::Num | VK::Int => VK::Fun(params.iter().map(|(p, _)| p.clone()).collect()),
    _ => VK::Null,
  };
  kinds.bkms.insert(id.clone(), fk);
  g.bkms.push(GBkm { id, name: var.clone(), var, ty, params, req_knowledge, logic });
}

fn gen_service(gg: &mut GraphGen, g: &mut Graph, kinds: &mut Kinds, node: usize) {
  let id = format!("_s{}", node);
  let pick = |rng: &mut Rng, ids: Vec<String>, num: u64, den: u64| -> Vec<String> { ids.into_iter().filter(|_| rng.chance(num, den)).collect() };
  let input_data = pick(gg.rng, g.inputs.iter().map(|i| i.id.clone()).collect(), 1, 2);
  let dec_ids: Vec<String> = g.decisions.iter().map(|d| d.id.clone()).collect();
  let input_decisions = pick(gg.rng, dec_ids.clone(), 1, 4);
  let encapsulated = pick(gg.rng, dec_ids.clone(), 1, 3);
  let mut output = pick(gg.rng, dec_ids.clone(), 1, 3);
  if output.is_empty() || gg.rng.chance(1, 3) {
    output = vec![dec_ids[gg.rng.below(dec_ids.len() as u64) as usize].clone()];
  }
  if gg.rng.chance(1, 25) {
    output.push("_missing".into());
  }
  // now and then named like a built-in function
  let var = if gg.rng.chance(1, 4) { bif_var(gg.rng, g).unwrap_or_else(|| format!("s{}", node)) } else { format!("s{}", node) };
  let ty = if gg.rng.chance(1, 6) { Ty::Number } else { Ty::Untyped };
  // formal parameters: input data, then input decisions
  let mut ps = vec![];
  for q in &input_data {
    if let Some(i) = g.input(q) {
      ps.push(i.name.clone());
    }
  }
  for q in &input_decisions {
    if let Some(d) = g.decision(q) {
      ps.push(d.var.clone());
    }
  }
  let outs: Vec<&GDecision> = output.iter().filter_map(|q| g.decision(q)).collect();
  let k = if outs.len() == 1 {
    match coerced_kind(kinds.decisions.get(&outs[0].id).unwrap_or(&VK::Null), ty) {
      VK::Num | VK::Int => VK::Fun(ps.clone()),
      _ => VK::Null,
    }
  } else if ty == Ty::Untyped {
    let keys: Vec<String> = outs.iter().filter(|d| kinds.decisions.get(&d.id) == Some(&VK::Num)).map(|d| d.var.clone()).filter(|v| !v.contains(' ')).collect();
    VK::FunCtx(ps.clone(), keys)
  } else {
    VK::Null
  };
  // a service whose parameters are checked by item definitions is not invoked from generated
  // FEEL text (the arguments there need not be integers, which the model of C11 requires)
  let item_params = input_data.iter().any(|q| g.input(q).map_or(false, |i| i.ty.is_item())) || input_decisions.iter().any(|q| g.decision(q).map_or(false, |d| d.ty.is_item()));
  let k = if item_params { VK::Null } else { k };
  kinds.services.insert(id.clone(), k);
  g.services.push(GService { id, name: var.clone(), var, ty, input_data, input_decisions, encapsulated, output });
}

// ------------------------------------------------------------------------------------------
// hand-made shapes that always run first

fn lit(t: &str) -> Logic {
  Logic::Lit(t.to_string())
}

fn dec(id: &str, var: &str, ty: Ty, ri: &[&str], rd: &[&str], rk: &[&str], logic: Logic) -> GDecision {
  let v = |xs: &[&str]| xs.iter().map(|s| s.to_string()).collect::<Vec<_>>();
  GDecision { id: id.into(), name: var.into(), var: var.into(), ty, req_inputs: v(ri), req_decisions: v(rd), req_knowledge: v(rk), logic }
}

fn inp(id: &str, name: &str, ty: Ty) -> GInput {
  GInput { id: id.into(), name: name.into(), ty }
}

fn bkm(id: &str, var: &str, ty: Ty, params: &[(&str, Ty)], rk: &[&str], logic: Logic) -> GBkm {
  GBkm {
    id: id.into(),
    name: var.into(),
    var: var.into(),
    ty,
    params: params.iter().map(|(p, t)| (p.to_string(), *t)).collect(),
    req_knowledge: rk.iter().map(|s| s.to_string()).collect(),
    logic,
  }
}

fn svc(id: &str, var: &str, ty: Ty, ind: &[&str], inp: &[&str], enc: &[&str], out: &[&str]) -> GService {
  let v = |xs: &[&str]| xs.iter().map(|s| s.to_string()).collect::<Vec<_>>();
  GService { id: id.into(), name: var.into(), var: var.into(), ty, input_data: v(ind), input_decisions: v(inp), encapsulated: v(enc), output: v(out) }
}

pub fn corpus() -> Vec<(&'static str, Graph)> {
  let mut v = vec![];
  // ---- graphs whose evaluation pushes and pops contexts around a use of the caller's own names (also run by C13):
  // a decision service used as a function inside a larger expression
  v.push((
    "scope-service-as-function",
    Graph {
      inputs: vec![inp("_x", "x", Ty::Number), inp("_y", "y", Ty::Number)],
      decisions: vec![
        dec("_g", "G", Ty::Untyped, &["_x"], &[], &[], lit("x + 1")),
        dec("_d1", "D1", Ty::Untyped, &["_y"], &[], &["_s"], lit("S(1) + y")),
        dec("_d2", "D2", Ty::Untyped, &["_y"], &[], &["_s"], lit("S(1) + S(2) * y")),
        dec("_d3", "D3", Ty::Untyped, &["_y"], &[], &["_s"], Logic::Ctx(vec![(Some("a".into()), lit("S(3)")), (Some("b".into()), lit("a + y")), (None, lit("b + S(4)"))])),
      ],
      bkms: vec![],
      services: vec![svc("_s", "S", Ty::Untyped, &[], &["_x"], &[], &["_g"])],
    },
  ));
  // a boxed invocation without bindings of a knowledge model whose body is a boxed context with entries named
  // like the caller's, followed by further entries of the caller
  v.push((
    "scope-invocation-without-bindings",
    Graph {
      inputs: vec![inp("_y", "y", Ty::Number)],
      decisions: vec![dec(
        "_d",
        "D",
        Ty::Untyped,
        &["_y"],
        &[],
        &["_k"],
        Logic::Ctx(vec![
          (Some("Standard".into()), lit("6")),
          (Some("Individual".into()), Logic::Inv(Box::new(lit("K")), vec![], false)),
          (Some("After".into()), lit("Standard + y")),
          (None, lit("[After, Standard, Individual.Leaked]")),
        ]),
      )],
      bkms: vec![bkm("_k", "K", Ty::Untyped, &[], &[], Logic::Ctx(vec![(Some("Standard".into()), lit("12")), (Some("Leaked".into()), lit("Standard + 1"))]))],
      services: vec![],
    },
  ));
  // a knowledge model whose body is a boxed context with a result entry, its parameters named like the caller's input
  v.push((
    "scope-context-body-with-result",
    Graph {
      inputs: vec![inp("_a", "a", Ty::Number)],
      decisions: vec![
        dec("_d", "D", Ty::Untyped, &["_a"], &[], &["_f"], lit("F(1, 2) + a")),
        dec("_e", "E", Ty::Untyped, &["_a"], &[], &["_f"], Logic::Ctx(vec![(Some("x".into()), lit("F(1, 2)")), (Some("y".into()), lit("x + a"))])),
        dec("_h", "H", Ty::Untyped, &["_a"], &[], &["_f"], Logic::Ctx(vec![(Some("x".into()), Logic::Inv(Box::new(lit("F")), vec![("a".into(), lit("a + 1")), ("b".into(), lit("a"))], false)), (None, lit("x - a"))])),
      ],
      bkms: vec![bkm("_f", "F", Ty::Untyped, &[("a", Ty::Number), ("b", Ty::Number)], &[], Logic::Ctx(vec![(Some("s".into()), lit("a + b")), (None, lit("s * 2"))]))],
      services: vec![],
    },
  ));
  // knowledge models named like built-in functions (one word, several words): the name denotes the required knowledge
  // model wherever it is invoked — positionally and by name from a literal expression, from a context entry, by a boxed
  // invocation and by a boxed function definition with bindings
  v.push((
    "bif-named-knowledge-model",
    Graph {
      inputs: vec![inp("_x", "x", Ty::Number)],
      decisions: vec![
        dec("_p", "P", Ty::Untyped, &["_x"], &[], &["_max"], lit("max(2, 5) + x")),
        dec("_n", "N", Ty::Untyped, &["_x"], &[], &["_max"], lit("max(b: 5, a: x)")),
        dec("_b", "B", Ty::Untyped, &["_x"], &[], &["_max"], Logic::Inv(Box::new(lit("max")), vec![("a".into(), lit("x")), ("b".into(), lit("1"))], false)),
        dec("_b2", "B2", Ty::Untyped, &["_x"], &[], &["_max"], Logic::Inv(Box::new(lit("max")), vec![("a".into(), lit("x + 1")), ("b".into(), lit("2"))], true)),
        dec("_c", "C", Ty::Untyped, &["_x"], &[], &["_max", "_cnt"], Logic::Ctx(vec![(Some("u".into()), lit("max(1, x)")), (Some("w".into()), lit("count(u, 2)")), (None, lit("[u, w, max(count(1, 1), 3)]"))])),
        dec("_l", "L", Ty::Untyped, &["_x"], &[], &["_len", "_cnt"], lit("string length(x) + count(x, 1)")),
        dec("_m", "M", Ty::Number, &["_x"], &[], &["_min"], lit("min(x) + min(7)")),
        dec("_z", "Z", Ty::Untyped, &["_x"], &[], &["_min"], Logic::Inv(Box::new(lit("min")), vec![("v".into(), lit("x"))], false)),
      ],
      bkms: vec![
        bkm("_max", "max", Ty::Untyped, &[("a", Ty::Number), ("b", Ty::Number)], &[], lit("a * 10 + b")),
        bkm("_cnt", "count", Ty::Untyped, &[("l", Ty::Untyped), ("m", Ty::Untyped)], &[], lit("l * 100 + m")),
        bkm("_len", "string length", Ty::Number, &[("s", Ty::Number)], &[], lit("s + 1000")),
        bkm("_min", "min", Ty::Untyped, &[("v", Ty::Number)], &["_max"], lit("max(v, v)")),
      ],
      services: vec![],
    },
  ));
  // decision services named like built-in functions, invoked positionally, by name and by a boxed invocation
  v.push((
    "bif-named-decision-service",
    Graph {
      inputs: vec![inp("_x", "x", Ty::Number), inp("_y", "y", Ty::Number)],
      decisions: vec![
        dec("_g", "G", Ty::Untyped, &["_x"], &[], &[], lit("x + 1")),
        dec("_h", "H", Ty::Untyped, &["_x"], &[], &[], lit("x * 2")),
        dec("_t", "T", Ty::Untyped, &["_y"], &[], &["_s"], lit("sum(3) + y")),
        dec("_t2", "T2", Ty::Untyped, &["_y"], &[], &["_s"], lit("sum(x: y + 4)")),
        dec("_t3", "T3", Ty::Untyped, &["_y"], &[], &["_s"], Logic::Inv(Box::new(lit("sum")), vec![("x".into(), lit("y + 1"))], false)),
        dec("_t4", "T4", Ty::Untyped, &["_y"], &[], &["_s", "_s2"], Logic::Ctx(vec![(Some("u".into()), lit("sum(y)")), (None, lit("[u, list contains(u).G, list contains(x: 2).H, sum(sum(1))]"))])),
      ],
      bkms: vec![],
      services: vec![svc("_s", "sum", Ty::Untyped, &["_x"], &[], &[], &["_g"]), svc("_s2", "list contains", Ty::Untyped, &["_x"], &[], &[], &["_g", "_h"])],
    },
  ));
  // F14: B = A + 1, A = 1
  v.push((
    "f14",
    Graph { inputs: vec![], decisions: vec![dec("_a", "A", Ty::Untyped, &[], &[], &[], lit("1")), dec("_b", "B", Ty::Untyped, &[], &["_a"], &[], lit("A + 1"))], bkms: vec![], services: vec![] },
  ));
  // diamond over one input
  v.push((
    "diamond",
    Graph {
      inputs: vec![inp("_x", "x", Ty::Number), inp("_y", "y", Ty::Number)],
      decisions: vec![
        dec("_l", "L", Ty::Number, &["_x"], &[], &[], lit("x + 1")),
        dec("_r", "R", Ty::Number, &["_x"], &[], &[], lit("x * 2")),
        dec("_t", "T", Ty::Number, &[], &["_l", "_r"], &[], lit("L + R")),
      ],
      bkms: vec![],
      services: vec![],
    },
  ));
  // a decision required directly and through a decision service; the service has an input decision
  v.push((
    "direct-and-through-service",
    Graph {
      inputs: vec![inp("_x", "x", Ty::Number)],
      decisions: vec![
        dec("_a", "A", Ty::Number, &["_x"], &[], &[], lit("x + 1")),
        dec("_m", "M", Ty::Untyped, &[], &["_a"], &[], lit("A * 10")),
        dec("_t", "T", Ty::Untyped, &[], &["_a"], &["_s"], lit("A + S(5)")),
        dec("_t2", "T2", Ty::Untyped, &["_x"], &["_a"], &["_s"], lit("S(A: A + x)")),
      ],
      bkms: vec![],
      services: vec![svc("_s", "S", Ty::Untyped, &[], &["_a"], &[], &["_m"])],
    },
  ));
  // formal parameters named like the caller's inputs, bound crosswise by a boxed invocation: every binding
  // formula is evaluated in the scope of the caller (not in a scope that already holds earlier bindings)
  v.push((
    "boxed-invocation-crosswise",
    Graph {
      inputs: vec![inp("_w", "w", Ty::Number), inp("_h", "h", Ty::Number)],
      decisions: vec![
        dec("_l", "L", Ty::Untyped, &["_w", "_h"], &[], &["_r"], lit("R(h, w)")),
        dec("_b", "B", Ty::Untyped, &["_w", "_h"], &[], &["_r"], Logic::Inv(Box::new(lit("R")), vec![("w".into(), lit("h")), ("h".into(), lit("w"))], false)),
        dec("_b2", "B2", Ty::Untyped, &["_w", "_h"], &[], &["_r"], Logic::Inv(Box::new(lit("R")), vec![("w".into(), lit("h + 1")), ("h".into(), lit("w * 2"))], true)),
        dec("_b3", "B3", Ty::Untyped, &["_w", "_h"], &[], &["_r"], Logic::Inv(Box::new(lit("R")), vec![("h".into(), lit("w")), ("w".into(), lit("h"))], false)),
      ],
      bkms: vec![bkm("_r", "R", Ty::Untyped, &[("w", Ty::Number), ("h", Ty::Number)], &[], lit("w - h * 2"))],
      services: vec![],
    },
  ));
  // knowledge models requiring knowledge models; invocation by literal and by boxed invocation
  v.push((
    "bkm-chain",
    Graph {
      inputs: vec![inp("_x", "x", Ty::Number)],
      decisions: vec![
        dec("_d", "D", Ty::Untyped, &["_x"], &[], &["_g"], lit("G(x) + F(1)")),
        dec("_e", "E", Ty::Untyped, &["_x"], &[], &["_g"], Logic::Inv(Box::new(lit("G")), vec![("p".into(), lit("x + 2"))], false)),
        dec("_e2", "E2", Ty::Untyped, &["_x"], &[], &["_g"], Logic::Inv(Box::new(lit("G")), vec![("p".into(), lit("x + 2"))], true)),
      ],
      bkms: vec![bkm("_f", "F", Ty::Number, &[("p", Ty::Number)], &[], lit("p * 2")), bkm("_g", "G", Ty::Untyped, &[("p", Ty::Untyped)], &["_f"], lit("F(p) + 1"))],
      services: vec![],
    },
  ));
  // name shadowing: a decision's variable named like an input; a knowledge model body reading the caller's scope
  v.push((
    "shadowing",
    Graph {
      inputs: vec![inp("_x", "x", Ty::Number)],
      decisions: vec![
        dec("_a", "x", Ty::Untyped, &[], &[], &[], lit("100")),
        dec("_b", "B", Ty::Untyped, &["_x"], &["_a"], &["_f"], lit("x + F()")),
      ],
      bkms: vec![bkm("_f", "F", Ty::Untyped, &[], &[], lit("x + 1"))],
      services: vec![],
    },
  ));
  // boxed context (with a nested context writing into the same scope), relation
  v.push((
    "boxed",
    Graph {
      inputs: vec![inp("_x", "x", Ty::Number)],
      decisions: vec![
        dec(
          "_c",
          "C",
          Ty::Untyped,
          &["_x"],
          &[],
          &[],
          Logic::Ctx(vec![
            (Some("r".into()), lit("x + 1")),
            (Some("n".into()), Logic::Ctx(vec![(Some("t".into()), lit("r * 2"))])),
            (Some("u".into()), lit("t")),
          ]),
        ),
        dec("_c2", "C2", Ty::Untyped, &["_x"], &[], &[], Logic::Ctx(vec![(Some("r".into()), lit("x + 1")), (None, lit("r * 3"))])),
        dec("_r", "R", Ty::Untyped, &["_x"], &[], &[], Logic::Rel(vec!["c0".into(), "c1".into()], vec![vec!["x".into(), "1".into()], vec!["2".into(), "x + 2".into()]])),
      ],
      bkms: vec![],
      services: vec![],
    },
  ));
  // an input decision two levels below the output decision of a service; the service used as a
  // function by a decision of another service (three levels of services / decisions)
  v.push((
    "three-level-service",
    Graph {
      inputs: vec![inp("_x", "x", Ty::Number)],
      decisions: vec![
        dec("_a", "A", Ty::Number, &["_x"], &[], &[], lit("x + 1")),
        dec("_b", "B", Ty::Untyped, &[], &["_a"], &[], lit("A * 2")),
        dec("_c", "C", Ty::Untyped, &["_x"], &["_b"], &[], lit("B + x")),
        dec("_e", "E", Ty::Untyped, &["_x"], &[], &["_s"], lit("S(x, 10) + S(A: 1, x: 2)")),
      ],
      bkms: vec![],
      services: vec![svc("_s", "S", Ty::Untyped, &["_x"], &["_a"], &["_b"], &["_c"]), svc("_s2", "S2", Ty::Untyped, &["_x"], &[], &[], &["_e", "_c"])],
    },
  ));
  // decision tables: as decision logic over a required input and a required decision, as the
  // body of a knowledge model (invoked by literal and by boxed invocation), as a context entry;
  // item definitions on an input and on a decision variable that is an input decision
  v.push((
    "tables-and-item-definitions",
    Graph {
      inputs: vec![inp("_x", "x", Ty::ItemNum), inp("_p", "p", Ty::ItemComp)],
      decisions: vec![
        dec("_a", "A", Ty::ItemRef, &["_x"], &[], &[], lit("x + 15")),
        dec(
          "_t",
          "T",
          Ty::Untyped,
          &["_x"],
          &["_a"],
          &[],
          Logic::Table(GTable {
            hit_policy: ("UNIQUE", None, "U"),
            inputs: vec![("x".into(), None), ("A".into(), Some("[0..100]".into()))],
            outputs: vec![(None, None, Some("0".into()))],
            rules: vec![(vec!["< 3".into(), "-".into()], vec!["A + 1".into()]), (vec![">= 3".into(), "< x + 20".into()], vec!["x".into()])],
          }),
        ),
        dec(
          "_c",
          "C",
          Ty::ItemComp,
          &["_p"],
          &["_a"],
          &[],
          Logic::Table(GTable {
            hit_policy: ("PRIORITY", None, "P"),
            inputs: vec![("p.r".into(), None)],
            outputs: vec![(Some("r".into()), Some("3, 2, 1".into()), None), (Some("s".into()), Some("10, 20".into()), Some("20".into()))],
            rules: vec![(vec!["> 0".into()], vec!["1".into(), "10".into()]), (vec!["> 1".into()], vec!["2".into(), "20".into()]), (vec!["> 2".into()], vec!["3".into(), "20".into()])],
          }),
        ),
        dec("_s0", "Sum", Ty::Untyped, &["_x"], &[], &["_f"], lit("F(x, 2) + F(q: 5, p: x)")),
        dec("_i", "Inv", Ty::Untyped, &["_x"], &[], &["_f"], Logic::Inv(Box::new(lit("F")), vec![("p".into(), lit("x + 1")), ("q".into(), lit("3"))], false)),
        dec(
          "_k",
          "K",
          Ty::Untyped,
          &["_x"],
          &[],
          &[],
          Logic::Ctx(vec![
            (Some("r".into()), lit("x + 1")),
            (
              Some("t".into()),
              Logic::Table(GTable {
                hit_policy: ("COLLECT", Some("SUM"), "C+"),
                inputs: vec![("r".into(), None)],
                outputs: vec![(None, None, None)],
                rules: vec![(vec!["> 1".into()], vec!["r".into()]), (vec!["> 2".into()], vec!["10".into()]), (vec!["-".into()], vec!["1".into()])],
              }),
            ),
          ]),
        ),
        dec("_u", "U", Ty::Untyped, &[], &["_a", "_c"], &[], lit("A + C.r")),
      ],
      bkms: vec![bkm(
        "_f",
        "F",
        Ty::Untyped,
        &[("p", Ty::Untyped), ("q", Ty::Number)],
        &[],
        Logic::Table(GTable {
          hit_policy: ("FIRST", None, "F"),
          inputs: vec![("p".into(), None), ("q".into(), None)],
          outputs: vec![(Some("o".into()), None, Some("0".into()))],
          rules: vec![(vec!["< 5".into(), "< 5".into()], vec!["1".into()]), (vec![">= 5".into(), "-".into()], vec!["2".into()]), (vec!["-".into(), "not(3)".into()], vec!["3".into()])],
        }),
      )],
      services: vec![svc("_sv", "SV", Ty::Untyped, &["_x"], &["_a", "_c"], &[], &["_u"])],
    },
  ));
  // acyclic by ids, recursive by names: the knowledge model `_g` is named like the model it
  // requires and invokes; function values are dynamically scoped, so `F` in its body is itself.
  // The implementation overflows its stack (C05/C12 territory); the model diverges.
  v.push((
    "recursion-by-name",
    Graph {
      inputs: vec![inp("_x", "x", Ty::Number)],
      decisions: vec![dec("_d", "D", Ty::Untyped, &["_x"], &[], &["_g"], lit("F(x)"))],
      bkms: vec![bkm("_f", "F", Ty::Untyped, &[("p", Ty::Untyped)], &[], lit("p + 1")), bkm("_g", "F", Ty::Untyped, &[("p", Ty::Untyped)], &["_f"], lit("F(p) + 1"))],
      services: vec![],
    },
  ));
  // a knowledge model requiring a decision service; a service with two output decisions
  v.push((
    "bkm-requires-service",
    Graph {
      inputs: vec![inp("_x", "x", Ty::Number)],
      decisions: vec![
        dec("_a", "A", Ty::Number, &["_x"], &[], &[], lit("x + 1")),
        dec("_b", "B", Ty::Number, &["_x"], &[], &[], lit("x + 2")),
        dec("_d", "D", Ty::Untyped, &["_x"], &[], &["_f"], lit("F(x)")),
        dec("_d2", "D2", Ty::Untyped, &["_x"], &[], &["_s2"], lit("S2(x).A + S2(x: 10).B")),
      ],
      bkms: vec![bkm("_f", "F", Ty::Untyped, &[("p", Ty::Untyped)], &["_s"], lit("S(p)"))],
      services: vec![svc("_s", "S", Ty::Untyped, &["_x"], &[], &[], &["_a"]), svc("_s2", "S2", Ty::Untyped, &["_x"], &[], &[], &["_a", "_b"])],
    },
  ));
  v
}

pub fn cyclic_corpus() -> Vec<(&'static str, Graph)> {
  vec![
    (
      "two decisions requiring each other",
      Graph { inputs: vec![], decisions: vec![dec("_a", "A", Ty::Untyped, &[], &["_b"], &[], lit("B")), dec("_b", "B", Ty::Untyped, &[], &["_a"], &[], lit("A"))], bkms: vec![], services: vec![] },
    ),
    (
      "two knowledge models requiring each other",
      Graph {
        inputs: vec![],
        decisions: vec![dec("_a", "A", Ty::Untyped, &[], &[], &["_f"], lit("1"))],
        bkms: vec![bkm("_f", "F", Ty::Untyped, &[], &["_g"], lit("1")), bkm("_g", "G", Ty::Untyped, &[], &["_f"], lit("1"))],
        services: vec![],
      },
    ),
    (
      "a decision requiring a service whose output decision requires it",
      Graph {
        inputs: vec![],
        decisions: vec![dec("_a", "A", Ty::Untyped, &[], &[], &["_s"], lit("1")), dec("_b", "B", Ty::Untyped, &[], &["_a"], &[], lit("A"))],
        bkms: vec![],
        services: vec![svc("_s", "S", Ty::Untyped, &[], &[], &[], &["_b"])],
      },
    ),
    (
      "kind-blind: a knowledge requirement naming a decision that requires the requiring decision",
      Graph { inputs: vec![], decisions: vec![dec("_a", "A", Ty::Untyped, &[], &[], &["_b"], lit("1")), dec("_b", "B", Ty::Untyped, &[], &["_a"], &[], lit("A"))], bkms: vec![], services: vec![] },
    ),
    (
      "a decision requiring itself",
      Graph { inputs: vec![], decisions: vec![dec("_a", "A", Ty::Untyped, &[], &["_a"], &[], lit("1"))], bkms: vec![], services: vec![] },
    ),
  ]
}

// ------------------------------------------------------------------------------------------
// input contexts

fn eval_text(text: &str) -> Value {
  crate::util::note_case(text);
  let s = Scope::default();
  match dmntk_feel_parser::parse_expression(&s, text, false).ok().and_then(|n| dmntk_feel_evaluator::evaluate(&s, &n).ok()) {
    Some(v) => v,
    None => Value::Null(None),
  }
}

fn value_text(ty: Ty, rng: &mut Rng) -> String {
  match ty {
    Ty::ItemList => {
      return match rng.below(5) {
        0 => format!("{}", rng.range(0, 9)),
        1 => "[1, \"a\"]".to_string(),
        2 => "[]".to_string(),
        _ => format!("[{}, {}]", rng.range(0, 9), rng.range(0, 30)),
      }
    }
    Ty::ItemComp => {
      return match rng.below(6) {
        0 => format!("{{r: {}}}", rng.range(0, 9)),
        1 => format!("{{r: {}, s: \"a\"}}", rng.range(0, 9)),
        2 => format!("{{r: {}, s: {}, t: 1}}", rng.range(0, 9), rng.range(0, 9)),
        3 => "7".to_string(),
        _ => format!("{{r: {}, s: {}}}", rng.range(-3, 9), rng.range(-3, 30)),
      }
    }
    _ => {}
  }
  let ty = match ty {
    Ty::ItemNum | Ty::ItemRef | Ty::NumberSp => Ty::Number,
    Ty::ItemStr => Ty::Str,
    t => t,
  };
  let right = rng.chance(5, 6);
  let k = if right {
    match ty {
      Ty::Number => 0,
      Ty::Str => 1,
      Ty::Boolean => 2,
      _ => rng.below(3),
    }
  } else {
    rng.below(4)
  };
  match k {
    0 => format!("{}", rng.range(-3, 30)),
    1 => format!("\"{}\"", rng.pick(&["a", "b", "", "c"])),
    2 => format!("{}", rng.chance(1, 2)),
    _ => "null".into(),
  }
}

/// A base context: values for (most of) the inputs of the graph.
fn base_entries(g: &Graph, rng: &mut Rng) -> Vec<(String, String)> {
  let mut es = vec![];
  for i in &g.inputs {
    if rng.chance(7, 8) {
      es.push((i.name.clone(), value_text(i.ty, rng)));
    }
  }
  es
}

fn ctx_of(entries: &[(String, String)]) -> FeelContext {
  let mut c = FeelContext::default();
  for (n, t) in entries {
    c.set_entry(&Name::from(n.as_str()), eval_text(t));
  }
  c
}

fn ctx_text(entries: &[(String, String)]) -> String {
  format!("{{{}}}", entries.iter().map(|(n, t)| format!("{}: {}", n, t)).collect::<Vec<_>>().join(", "))
}


// ------------------------------------------------------------------------------------------
// the implementation runs in child processes of this executable (`vharness C04 c04-child`):
// unbounded recursion through function values overflows the stack and aborts the process

const SEP: char = '\u{1f}';

/// stdin: the XML on the first line, then one case per line: invocable, then name / text
/// pairs, all separated by U+001F.  stdout: `built` / `builderror` / `buildpanic`, then one
/// answer line per case.
fn child_main() {
  use std::io::{BufRead, Write};
  let stdin = std::io::stdin();
  let mut lines = stdin.lock().lines();
  let xml = match lines.next() {
    Some(Ok(l)) => l,
    _ => return,
  };
  let out = std::io::stdout();
  let me = match guarded(|| dmntk_model::parse(&xml).map_err(|e| e.to_string()).and_then(|d| ModelEvaluator::new(&d).map_err(|e| e.to_string()))) {
    Ok(Ok(me)) => me,
    Ok(Err(_)) => {
      println!("builderror");
      return;
    }
    Err(m) => {
      println!("buildpanic {}", Sexp::str(&m));
      return;
    }
  };
  println!("built");
  let _ = out.lock().flush();
  for l in lines {
    let l = match l {
      Ok(l) => l,
      Err(_) => break,
    };
    let parts: Vec<&str> = l.split(SEP).collect();
    let inv = parts[0];
    let mut entries = vec![];
    let mut i = 1;
    while i + 1 < parts.len() {
      entries.push((parts[i].to_string(), parts[i + 1].to_string()));
      i += 2;
    }
    let ctx = ctx_of(&entries);
    let r = render_impl(guarded(|| me.evaluate_invocable(inv, &ctx)));
    println!("{}", r);
    let _ = out.lock().flush();
  }
}

/// Runs the cases in a child; returns the build line and the answers received, and how the
/// child ended (`ok`, `signal:6`, `timeout`, …).
fn run_child(xml: &str, cases: &[(String, Vec<(String, String)>)], timeout_ms: u64) -> (String, Vec<String>, String) {
  use std::io::{Read, Write};
  use std::process::{Command, Stdio};
  let exe = std::env::current_exe().expect("current_exe");
  let mut ch = Command::new(exe).arg("C04").arg("c04-child").stdin(Stdio::piped()).stdout(Stdio::piped()).stderr(Stdio::null()).spawn().expect("spawn child");
  let mut data = String::new();
  data.push_str(xml);
  data.push('\n');
  for (inv, entries) in cases {
    data.push_str(inv);
    for (n, t) in entries {
      data.push(SEP);
      data.push_str(n);
      data.push(SEP);
      data.push_str(t);
    }
    data.push('\n');
  }
  let mut si = ch.stdin.take().unwrap();
  let writer = std::thread::spawn(move || {
    let _ = si.write_all(data.as_bytes());
  });
  let mut so = ch.stdout.take().unwrap();
  let reader = std::thread::spawn(move || {
    let mut out = String::new();
    let _ = so.read_to_string(&mut out);
    out
  });
  let start = std::time::Instant::now();
  let end;
  loop {
    match ch.try_wait() {
      Ok(Some(status)) => {
        end = if status.success() {
          "ok".to_string()
        } else {
          use std::os::unix::process::ExitStatusExt;
          match status.signal() {
            Some(sig) => format!("signal:{}", sig),
            None => format!("exit:{}", status.code().unwrap_or(-1)),
          }
        };
        break;
      }
      Ok(None) => {
        if start.elapsed().as_millis() as u64 > timeout_ms {
          let _ = ch.kill();
          let _ = ch.wait();
          end = "timeout".to_string();
          break;
        }
        std::thread::sleep(std::time::Duration::from_millis(1));
      }
      Err(_) => {
        end = "wait-error".to_string();
        break;
      }
    }
  }
  let _ = writer.join();
  let out = reader.join().unwrap_or_default();
  let mut ls = out.lines().map(|l| l.to_string());
  let first = ls.next().unwrap_or_default();
  (first, ls.collect(), end)
}

/// All cases of one graph: a batch in one child; when the child dies, the case it died on
/// is recorded as `(abort …)` and the rest continues in another child.
fn run_cases(xml: &str, cases: &[(String, Vec<(String, String)>)]) -> (String, Vec<String>) {
  let mut answers: Vec<String> = vec![];
  let mut build = String::new();
  let mut rounds = 0;
  while answers.len() < cases.len() && rounds < 40 {
    rounds += 1;
    let (first, got, end) = run_child(xml, &cases[answers.len()..], 20_000);
    if build.is_empty() {
      build = if first.is_empty() { format!("buildabort {}", end) } else { first.clone() };
    }
    if first != "built" {
      break;
    }
    let complete = got.len() == cases.len() - answers.len();
    answers.extend(got);
    if !complete {
      answers.push(format!("(abort {})", end));
    }
  }
  (build, answers)
}

// ------------------------------------------------------------------------------------------
// written-out expectations: small models whose value the property text prescribes, written down
// by hand (no model, no generated oracle) — the behaviours reviewers reported against the letter of
// the property.  Each has a signature of its own.

pub struct Expectation {
  pub family: &'static str,
  pub signature: &'static str,
  /// the body of `<definitions>`
  pub body: String,
  pub invocable: &'static str,
  /// FEEL context text
  pub input: &'static str,
  /// FEEL text of the expected value
  pub expected: &'static str,
}

/// a value without the messages inside its nulls
fn strip(v: &Value) -> Value {
  match v {
    Value::Null(_) => Value::Null(None),
    Value::List(vs) => Value::List(dmntk_feel::values::Values::new(vs.as_vec().iter().map(strip).collect())),
    Value::Context(c) => {
      let mut out = FeelContext::default();
      for (k, x) in c.iter() {
        out.set_entry(k, strip(x));
      }
      Value::Context(out)
    }
    other => other.clone(),
  }
}

pub fn run_expectations(rep: &mut Report, list: &[Expectation]) {
  for e in list {
    let xml = format!("{}{}</definitions>", HEAD, e.body);
    let ctx = match eval_text(e.input) {
      Value::Context(c) => c,
      _ => FeelContext::default(),
    };
    let built = guarded(|| dmntk_model::parse(&xml).map_err(|m| m.to_string()).and_then(|d| ModelEvaluator::new(&d).map_err(|m| m.to_string())));
    let obs = match built {
      Ok(Ok(me)) => match guarded(|| me.evaluate_invocable(e.invocable, &ctx)) {
        Ok(v) => format!("{}", strip(&v)),
        Err(p) => format!("panic: {}", p),
      },
      Ok(Err(m)) => format!("the model does not build: {}", m),
      Err(p) => format!("panic while building: {}", p),
    };
    let exp = format!("{}", strip(&eval_text(e.expected)));
    rep.case(&format!("expect {} {} {}", xml, e.invocable, e.input), true);
    rep.hit(&format!("expectation:{}", e.family));
    if obs != exp {
      rep.disagree(Kind::ImplVsSpec, e.family, e.signature, &format!("invocable {} on {} in model {}", e.invocable, e.input, xml), &obs, &exp);
    }
  }
}

fn x_input(name: &str, type_ref: &str) -> String {
  format!("<inputData name=\"{0}\" id=\"_{0}\"><variable name=\"{0}\" typeRef=\"{1}\"/></inputData>", name, type_ref)
}

fn x_lit(text: &str) -> String {
  format!("<literalExpression><text>{}</text></literalExpression>", text)
}

/// a decision `name` with the required inputs `ri`, decisions `rd`, knowledge `rk` and the logic (XML)
fn x_dec(name: &str, ri: &[&str], rd: &[&str], rk: &[&str], logic: &str) -> String {
  let mut s = format!("<decision name=\"{0}\" id=\"_{0}\"><variable name=\"{0}\"/>", name);
  for q in ri {
    s.push_str(&format!("<informationRequirement><requiredInput href=\"#_{}\"/></informationRequirement>", q));
  }
  for q in rd {
    s.push_str(&format!("<informationRequirement><requiredDecision href=\"#_{}\"/></informationRequirement>", q));
  }
  for q in rk {
    s.push_str(&format!("<knowledgeRequirement><requiredKnowledge href=\"#_{}\"/></knowledgeRequirement>", q));
  }
  s.push_str(logic);
  s.push_str("</decision>");
  s
}

/// a knowledge model `name(params)` with the body (XML) and the required knowledge `rk`
fn x_bkm(name: &str, params: &[(&str, &str)], rk: &[&str], body: &str) -> String {
  let mut s = format!("<businessKnowledgeModel name=\"{0}\" id=\"_{0}\"><variable name=\"{0}\"/><encapsulatedLogic>", name);
  for (p, t) in params {
    s.push_str(&format!("<formalParameter name=\"{}\" typeRef=\"{}\"/>", p, t));
  }
  s.push_str(body);
  s.push_str("</encapsulatedLogic>");
  for q in rk {
    s.push_str(&format!("<knowledgeRequirement><requiredKnowledge href=\"#_{}\"/></knowledgeRequirement>", q));
  }
  s.push_str("</businessKnowledgeModel>");
  s
}

fn x_entry(name: Option<&str>, logic: &str) -> String {
  match name {
    Some(n) => format!("<contextEntry><variable name=\"{}\"/>{}</contextEntry>", n, logic),
    None => format!("<contextEntry>{}</contextEntry>", logic),
  }
}

pub fn expectations() -> Vec<Expectation> {
  let mut v = vec![];
  let mut add = |family: &'static str, signature: &'static str, body: String, cases: &[(&'static str, &'static str, &'static str)]| {
    for (invocable, input, expected) in cases {
      v.push(Expectation { family, signature, body: body.clone(), invocable, input, expected });
    }
  };
  // a knowledge model computes its encapsulated logic: parameters and its own requirements, nothing of the caller
  add(
    "expect-bkm-scope",
    "the body of a knowledge model reads a variable of the invoking decision (neither a parameter nor a requirement of the knowledge model)",
    x_input("a", "number") + &x_input("y", "number") + &x_dec("D", &["a", "y"], &[], &["F"], &x_lit("F(a)")) + &x_bkm("F", &[("x", "number")], &[], &x_lit("x + y")),
    &[("D", "{a: 1, y: 2}", "null"), ("F", "{x: 1, y: 2}", "null"), ("D", "{a: 1}", "null")],
  );
  // boxed contexts compose: the entries of a nested context are its own
  add(
    "expect-nested-context",
    "an entry of a nested boxed context replaces a variable of the same name of the enclosing scope",
    x_input("a", "number")
      + &x_dec(
        "D",
        &["a"],
        &[],
        &[],
        &format!(
          "<context>{}{}</context>",
          x_entry(Some("inner"), &format!("<context>{}{}</context>", x_entry(Some("a"), &x_lit("1")), x_entry(None, &x_lit("a + 1")))),
          x_entry(Some("outer"), &x_lit("a"))
        ),
      )
      + &x_dec(
        "E",
        &["a"],
        &[],
        &[],
        &format!(
          "<context>{}{}{}</context>",
          x_entry(Some("k"), &x_lit("a * 2")),
          x_entry(Some("inner"), &format!("<context>{}{}</context>", x_entry(Some("k"), &x_lit("0")), x_entry(Some("a"), &x_lit("k - 1")))),
          x_entry(None, &x_lit("[a, k, inner.a, inner.k]"))
        ),
      ),
    &[("D", "{a: 10}", "{inner: 2, outer: 10}"), ("E", "{a: 10}", "[10, 20, -1, 0]")],
  );
  // boxed invocations compose like literal ones: the arguments are converted to the types of the formal parameters
  let g = x_bkm("G", &[("n", "number")], &[], &x_lit("n"));
  add(
    "expect-boxed-invocation-types",
    "a boxed invocation binds an argument that does not conform to the type of the formal parameter (the literal invocation gives null)",
    x_dec("L", &[], &[], &["G"], &x_lit("G(\"abc\")"))
      + &x_dec("N", &[], &[], &["G"], &x_lit("G(n: \"abc\")"))
      + &x_dec("B", &[], &[], &["G"], &format!("<invocation>{}<binding><parameter name=\"n\"/>{}</binding></invocation>", x_lit("G"), x_lit("\"abc\"")))
      + &g,
    &[("L", "{}", "null"), ("N", "{}", "null"), ("B", "{}", "null")],
  );
  add(
    "expect-surplus-arguments",
    "surplus positional arguments of a knowledge model are ignored",
    x_dec("P", &[], &[], &["G"], &x_lit("G(1, 2)")) + &x_dec("Q", &[], &[], &["G"], &x_lit("G(1)")) + &g,
    &[("P", "{}", "null"), ("Q", "{}", "1")],
  );
  // every required input is bound to the supplied value: the type Any accepts every value
  add(
    "expect-any-input",
    "input data of the type Any is bound to null, its name is unknown to the decision logic",
    x_input("z", "Any")
      + &x_dec("E", &["z"], &[], &[], &x_lit("z"))
      + &x_dec("P", &["z"], &[], &[], &x_lit("z + 1"))
      + &x_dec("C", &["z"], &[], &[], &format!("<context>{}{}</context>", x_entry(Some("w"), &x_lit("z")), x_entry(None, &x_lit("[w, z]")))),
    &[("E", "{z: 7}", "7"), ("E", "{z: \"s\"}", "\"s\""), ("E", "{z: [1, {a: 2}]}", "[1, {a: 2}]"), ("E", "{}", "null"), ("P", "{z: 7}", "8"), ("C", "{z: true}", "[true, true]")],
  );
  // boxed function definitions compose: a function value that can be invoked
  add(
    "expect-function-definition",
    "a boxed function definition with formal parameters is not usable as decision logic or as a context entry",
    x_input("a", "number")
      + &x_dec("F", &[], &[], &[], &format!("<functionDefinition><formalParameter name=\"x\"/>{}</functionDefinition>", x_lit("x + 1")))
      + &x_dec("U", &["a"], &["F"], &[], &x_lit("F(a)"))
      + &x_dec(
        "W",
        &["a"],
        &[],
        &[],
        &format!(
          "<context>{}{}</context>",
          x_entry(Some("f"), &format!("<functionDefinition><formalParameter name=\"x\"/>{}</functionDefinition>", x_lit("x * 2"))),
          x_entry(None, &x_lit("f(a)"))
        ),
      ),
    &[("U", "{a: 1}", "2"), ("W", "{a: 4}", "8")],
  );
  // the decision logic is the whole text of the expression
  add(
    "expect-text-with-comment",
    "the text of a literal expression ends at an XML comment inside it",
    x_dec("D", &[], &[], &[], &x_lit("1 <!-- c --> + 2")) + &x_dec("E", &[], &[], &[], &x_lit("<!-- c -->1 + 2")) + &x_dec("T", &[], &[], &[], &x_lit("1 + <![CDATA[2]]> + 4")),
    &[("D", "{}", "3"), ("E", "{}", "3"), ("T", "{}", "7")],
  );
  // the context binds the required knowledge models, not those behind them
  add(
    "expect-indirect-knowledge",
    "a decision invokes a knowledge model it does not require (required only by a knowledge model it requires)",
    x_dec("D", &[], &[], &["A"], &x_lit("G(5)")) + &x_dec("R", &[], &[], &["A"], &x_lit("A(5)")) + &x_bkm("A", &[("n", "number")], &["G"], &x_lit("G(n) + 1")) + &x_bkm("G", &[("n", "number")], &[], &x_lit("n * 2")),
    &[("R", "{}", "11"), ("D", "{}", "null")],
  );
  v
}

// ------------------------------------------------------------------------------------------
// family `nested-boxed`: boxed expressions nested in every position of every other boxed expression kind, with
// variables, to depth 3.  The logic is generated as a small tree of its own (`NL`) whose value is computed here, by
// the scope rules the property prescribes (an entry of a boxed context is visible to the entries after it and to
// the result entry, and to nothing outside the context; bindings and relation cells see the enclosing scope; a
// decision table's cells see the enclosing scope) — no model, no FEEL evaluator: integers only.

/// integer expression over the visible integer-valued names
#[derive(Clone, Debug)]
enum IE {
  K(i64),
  V(String),
  Add(Box<IE>, Box<IE>),
  SubK(Box<IE>, i64),
}

#[derive(Clone, Debug)]
enum NFun {
  /// the function literal as a literal expression
  Lit,
  /// the knowledge model `Pair(p, q) = [p, q]`
  Bkm,
  /// a boxed context with the given named entries whose result entry is the function literal
  Wrapped(Vec<(String, NL)>),
}

#[derive(Clone, Debug)]
enum NL {
  Int(IE),
  Rel(Vec<Vec<IE>>),
  /// variant (0 U, 1 F, 2 C+, 3 C), input expression, threshold, the two output entries
  Table(u8, IE, i64, IE, IE),
  Ctx(Vec<(Option<String>, NL)>),
  /// the called function, the form of its body (0 `[p, q]`, 1 `{r: p, s: q}`, 2 `p * 100 + q`), the bindings
  Inv(NFun, u8, Vec<(String, NL)>),
}

#[derive(Clone, Debug, PartialEq)]
enum NV {
  Null,
  Int(i64),
  Ctx(Vec<(String, NV)>),
  List(Vec<NV>),
}

impl NV {
  fn text(&self) -> String {
    match self {
      NV::Null => "null".into(),
      NV::Int(n) => n.to_string(),
      NV::Ctx(es) => format!("{{{}}}", es.iter().map(|(n, v)| format!("{}: {}", n, v.text())).collect::<Vec<_>>().join(", ")),
      NV::List(xs) => format!("[{}]", xs.iter().map(|v| v.text()).collect::<Vec<_>>().join(", ")),
    }
  }
}

impl IE {
  fn text(&self) -> String {
    match self {
      IE::K(n) => n.to_string(),
      IE::V(n) => n.clone(),
      IE::Add(l, r) => format!("{} + {}", l.text(), r.text()),
      IE::SubK(l, k) => format!("{} - {}", l.text(), k),
    }
  }
  fn eval(&self, env: &[(String, NV)]) -> Option<i64> {
    match self {
      IE::K(n) => Some(*n),
      IE::V(n) => match env.iter().rev().find(|(m, _)| m == n) {
        Some((_, NV::Int(k))) => Some(*k),
        _ => None,
      },
      IE::Add(l, r) => Some(l.eval(env)? + r.eval(env)?),
      IE::SubK(l, k) => Some(l.eval(env)? - k),
    }
  }
  fn value(&self, env: &[(String, NV)]) -> NV {
    self.eval(env).map_or(NV::Null, NV::Int)
  }
}

const N_FUN_TEXT: [&str; 3] = ["function(p, q) [p, q]", "function(p, q) {r: p, s: q}", "function(p, q) p * 100 + q"];

impl NL {
  /// whether the value is an integer (what a later integer expression may use)
  fn is_int(&self) -> bool {
    match self {
      NL::Int(_) => true,
      NL::Rel(_) => false,
      NL::Table(v, ..) => *v != 3,
      NL::Ctx(es) => matches!(es.last(), Some((None, r)) if r.is_int()),
      NL::Inv(_, form, _) => *form == 2,
    }
  }
  fn logic(&self) -> Logic {
    match self {
      NL::Int(e) => Logic::Lit(e.text()),
      NL::Rel(rows) => Logic::Rel(vec!["c0".into(), "c1".into()], rows.iter().map(|r| r.iter().map(|c| c.text()).collect()).collect()),
      NL::Table(variant, input, c, o1, o2) => {
        let (hp, e1, e2) = match variant {
          0 => (("UNIQUE", None, "U"), format!("< {}", c), format!(">= {}", c)),
          1 => (("FIRST", None, "F"), format!(">= {}", c), "-".to_string()),
          2 => (("COLLECT", Some("SUM"), "C+"), "-".to_string(), format!("> {}", c)),
          _ => (("COLLECT", None, "C"), "-".to_string(), format!("<= {}", c)),
        };
        Logic::Table(GTable { hit_policy: hp, inputs: vec![(input.text(), None)], outputs: vec![(None, None, None)], rules: vec![(vec![e1], vec![o1.text()]), (vec![e2], vec![o2.text()])] })
      }
      NL::Ctx(es) => Logic::Ctx(es.iter().map(|(n, e)| (n.clone(), e.logic())).collect()),
      NL::Inv(f, form, bindings) => {
        let fun_lit = Logic::Lit(N_FUN_TEXT[*form as usize].to_string());
        let f = match f {
          NFun::Lit => fun_lit,
          NFun::Bkm => Logic::Lit("Pair".into()),
          NFun::Wrapped(es) => {
            let mut entries: Vec<(Option<String>, Logic)> = es.iter().map(|(n, e)| (Some(n.clone()), e.logic())).collect();
            entries.push((None, fun_lit));
            Logic::Ctx(entries)
          }
        };
        Logic::Inv(Box::new(f), bindings.iter().map(|(n, e)| (n.clone(), e.logic())).collect(), false)
      }
    }
  }
  /// the value the property prescribes, in the scope `env` (later bindings shadow earlier ones)
  fn value(&self, env: &[(String, NV)]) -> NV {
    match self {
      NL::Int(e) => e.value(env),
      NL::Rel(rows) => NV::List(rows.iter().map(|r| NV::Ctx(r.iter().enumerate().map(|(i, c)| (format!("c{}", i), c.value(env))).collect())).collect()),
      NL::Table(variant, input, c, o1, o2) => {
        let v = match input.eval(env) {
          Some(v) => v,
          None => return NV::Null,
        };
        match variant {
          0 => if v < *c { o1.value(env) } else { o2.value(env) },
          1 => if v >= *c { o1.value(env) } else { o2.value(env) },
          2 => match (o1.eval(env), o2.eval(env)) {
            (Some(x), Some(y)) => NV::Int(if v > *c { x + y } else { x }),
            _ => NV::Null,
          },
          _ => NV::List(if v <= *c { vec![o1.value(env), o2.value(env)] } else { vec![o1.value(env)] }),
        }
      }
      NL::Ctx(es) => {
        let mut local = env.to_vec();
        let mut out: Vec<(String, NV)> = vec![];
        for (n, e) in es {
          let v = e.value(&local);
          match n {
            Some(n) => {
              local.push((n.clone(), v.clone()));
              out.retain(|(m, _)| m != n);
              out.push((n.clone(), v));
            }
            None => return v,
          }
        }
        NV::Ctx(out)
      }
      NL::Inv(_, form, bindings) => {
        let arg = |name: &str| bindings.iter().rev().find(|(n, _)| n == name).map_or(NV::Null, |(_, e)| e.value(env));
        let (p, q) = (arg("p"), arg("q"));
        match form {
          0 => NV::List(vec![p, q]),
          1 => NV::Ctx(vec![("r".into(), p), ("s".into(), q)]),
          _ => match (p, q) {
            (NV::Int(x), NV::Int(y)) => NV::Int(x * 100 + y),
            _ => NV::Null,
          },
        }
      }
    }
  }
}

/// the position of a nested expression in the expression around it
#[derive(Clone, Copy, Debug, PartialEq)]
enum NPos {
  /// the value of a named context entry
  Entry,
  /// the value of the result entry of a context
  Result,
  /// the binding formula of an invocation
  Binding,
  /// a named entry of a boxed context that stands for the called function of an invocation
  Function,
}

#[derive(Clone, Copy, Debug, PartialEq)]
enum NK {
  Lit,
  Rel,
  Table,
  CtxNoResult,
  CtxResult,
  Inv,
}

/// names of context entries: fresh ones, a name with a space, and the names of the inputs (shadowing)
const N_NAMES: [&str; 7] = ["x", "y", "k", "net amount", "a", "b", "m"];

struct NGen<'a> {
  rng: &'a mut Rng,
}

impl<'a> NGen<'a> {
  fn ie(&mut self, ints: &[String]) -> IE {
    let atom = |me: &mut Self| -> IE {
      if !ints.is_empty() && me.rng.chance(3, 4) {
        IE::V(me.rng.pick(ints).clone())
      } else {
        IE::K(me.rng.range(0, 9))
      }
    };
    match self.rng.below(4) {
      0 => IE::Add(Box::new(atom(self)), Box::new(atom(self))),
      1 => IE::SubK(Box::new(atom(self)), self.rng.range(0, 5)),
      2 if !ints.is_empty() => IE::Add(Box::new(IE::V(ints.last().unwrap().clone())), Box::new(atom(self))),
      _ => atom(self),
    }
  }
  /// an expression with `path` of positions around an expression of the kind `leaf`; the parts not on the path are
  /// random expressions of depth below `depth`
  fn gen(&mut self, ints: &[String], depth: u32, path: &[NPos], leaf: Option<NK>) -> NL {
    if let Some((p, rest)) = path.split_first() {
      return match p {
        NPos::Entry | NPos::Result => self.ctx(ints, depth, Some((*p, rest, leaf)), None),
        NPos::Binding | NPos::Function => self.inv(ints, depth, Some((*p, rest, leaf))),
      };
    }
    let kind = leaf.unwrap_or_else(|| {
      if depth == 0 {
        *self.rng.pick(&[NK::Lit, NK::Lit, NK::Rel, NK::Table])
      } else {
        *self.rng.pick(&[NK::Lit, NK::Rel, NK::Table, NK::CtxNoResult, NK::CtxResult, NK::CtxResult, NK::Inv, NK::Inv])
      }
    });
    match kind {
      NK::Lit => NL::Int(self.ie(ints)),
      NK::Rel => {
        let n = 1 + self.rng.below(2);
        NL::Rel((0..n).map(|_| vec![self.ie(ints), self.ie(ints)]).collect())
      }
      NK::Table => NL::Table(self.rng.below(4) as u8, self.ie(ints), self.rng.range(0, 12), self.ie(ints), self.ie(ints)),
      NK::CtxNoResult => self.ctx(ints, depth, None, Some(false)),
      NK::CtxResult => self.ctx(ints, depth, None, Some(true)),
      NK::Inv => self.inv(ints, depth, None),
    }
  }
  fn ctx(&mut self, ints: &[String], depth: u32, forced: Option<(NPos, &[NPos], Option<NK>)>, result: Option<bool>) -> NL {
    let d1 = depth.saturating_sub(1);
    let n = 1 + self.rng.below(3) as usize;
    let mut names: Vec<&str> = N_NAMES.to_vec();
    for i in (1..names.len()).rev() {
      let j = self.rng.below(i as u64 + 1) as usize;
      names.swap(i, j);
    }
    let forced_ix = self.rng.below(n as u64) as usize;
    let with_result = match forced {
      Some((NPos::Result, _, _)) => true,
      _ => result.unwrap_or_else(|| self.rng.chance(1, 2)),
    };
    let mut local: Vec<String> = ints.to_vec();
    let mut entries = vec![];
    for i in 0..n {
      let e = match forced {
        Some((NPos::Entry, rest, leaf)) if i == forced_ix => self.gen(&local, d1, rest, leaf),
        _ => self.gen(&local, d1.min(1), &[], None),
      };
      let name = names[i].to_string();
      local.retain(|m| *m != name);
      if e.is_int() {
        local.push(name.clone());
      }
      entries.push((Some(name), e));
    }
    if with_result {
      let e = match forced {
        Some((NPos::Result, rest, leaf)) => self.gen(&local, d1, rest, leaf),
        _ => self.gen(&local, d1.min(1), &[], None),
      };
      entries.push((None, e));
    }
    NL::Ctx(entries)
  }
  fn inv(&mut self, ints: &[String], depth: u32, forced: Option<(NPos, &[NPos], Option<NK>)>) -> NL {
    let d1 = depth.saturating_sub(1);
    let forced_q = self.rng.chance(1, 2);
    let mut bind = |me: &mut Self, is_q: bool| -> NL {
      match forced {
        Some((NPos::Binding, rest, leaf)) if is_q == forced_q => me.gen(ints, d1, rest, leaf),
        _ => me.gen(ints, d1.min(1), &[], None),
      }
    };
    let p = bind(self, false);
    let q = bind(self, true);
    let form = if p.is_int() && q.is_int() && self.rng.chance(1, 2) { 2 } else { self.rng.below(2) as u8 };
    let fun = match forced {
      Some((NPos::Function, rest, leaf)) => {
        let mut local: Vec<String> = ints.to_vec();
        let mut es = vec![];
        if self.rng.chance(1, 2) {
          es.push(("g".to_string(), NL::Int(self.ie(&local))));
          local.push("g".into());
        }
        es.push(("h".to_string(), self.gen(&local, d1, rest, leaf)));
        NFun::Wrapped(es)
      }
      _ => match self.rng.below(4) {
        0 if form == 0 => NFun::Bkm,
        1 => NFun::Wrapped(vec![("h".to_string(), self.gen(ints, 0, &[], None))]),
        _ => NFun::Lit,
      },
    };
    let mut bindings = vec![("p".to_string(), p), ("q".to_string(), q)];
    if self.rng.chance(1, 3) {
      bindings.reverse();
    }
    NL::Inv(fun, form, bindings)
  }
}

/// The graphs of the family: inputs `a`, `b` (numbers), the knowledge model `Pair`, and decisions `N0 …` whose logic
/// is a nested boxed expression — every path of one and of two positions (named entry, result entry, binding,
/// context at the called function) around every kind of expression, and random ones of depth ≤ 3.
fn nested_graphs(rng: &mut Rng, n_random: usize) -> Vec<(Graph, Vec<(String, NL)>)> {
  let positions = [NPos::Entry, NPos::Result, NPos::Binding, NPos::Function];
  let kinds = [NK::Lit, NK::Rel, NK::Table, NK::CtxNoResult, NK::CtxResult, NK::Inv];
  let ints: Vec<String> = vec!["a".into(), "b".into()];
  let mut logics: Vec<NL> = vec![];
  let mut g = NGen { rng };
  for k in kinds {
    for p1 in positions {
      logics.push(g.gen(&ints, 2, &[p1], Some(k)));
      for p2 in positions {
        logics.push(g.gen(&ints, 3, &[p1, p2], Some(k)));
      }
    }
  }
  for _ in 0..n_random {
    let d = 1 + g.rng.below(3) as u32;
    logics.push(g.gen(&ints, d, &[], None));
  }
  let mut out = vec![];
  for chunk in logics.chunks(8) {
    let mut graph = Graph {
      inputs: vec![inp("_a", "a", Ty::Number), inp("_b", "b", Ty::Number)],
      decisions: vec![],
      bkms: vec![bkm("_pair", "Pair", Ty::Untyped, &[("p", Ty::Untyped), ("q", Ty::Untyped)], &[], lit("[p, q]"))],
      services: vec![],
    };
    let mut named = vec![];
    for (i, nl) in chunk.iter().enumerate() {
      let name = format!("N{}", i);
      graph.decisions.push(dec(&format!("_n{}", i), &name, Ty::Untyped, &["_a", "_b"], &[], &["_pair"], nl.logic()));
      named.push((name, nl.clone()));
    }
    out.push((graph, named));
  }
  out
}

/// Evaluates every decision of the family on three input contexts and compares with the value computed here.
fn run_nested(rep: &mut Report, graphs: &[(Graph, Vec<(String, NL)>)], rng: &mut Rng) {
  fn depth(l: &NL) -> usize {
    match l {
      NL::Ctx(es) => 1 + es.iter().map(|(_, e)| depth(e)).max().unwrap_or(0),
      NL::Inv(f, _, bs) => {
        let df = match f {
          NFun::Wrapped(es) => 1 + es.iter().map(|(_, e)| depth(e)).max().unwrap_or(0),
          _ => 0,
        };
        1 + bs.iter().map(|(_, e)| depth(e)).max().unwrap_or(0).max(df)
      }
      _ => 1,
    }
  }
  let sig = "nested boxed expressions: the value of the decision differs from its logic evaluated in the scope of every part (written out)";
  for (g, named) in graphs {
    let xml = graph_xml(g);
    let built = guarded(|| dmntk_model::parse(&xml).map_err(|m| m.to_string()).and_then(|d| ModelEvaluator::new(&d).map_err(|m| m.to_string())));
    let me = match built {
      Ok(Ok(me)) => me,
      Ok(Err(m)) => {
        rep.disagree(Kind::ImplVsSpec, "nested-boxed", "nested boxed expressions: the model does not build", &xml, &m, "a model evaluator");
        continue;
      }
      Err(p) => {
        rep.disagree(Kind::ImplVsSpec, "nested-boxed", "nested boxed expressions: panic while building the model", &xml, &p, "a model evaluator");
        continue;
      }
    };
    for (name, nl) in named {
      rep.hit(&format!("nested-boxed:depth={}", depth(nl)));
      for k in 0..3 {
        let (a, b) = if k == 0 { (3, 10) } else { (rng.range(0, 12), rng.range(0, 12)) };
        let env = vec![("a".to_string(), NV::Int(a)), ("b".to_string(), NV::Int(b))];
        let expected = format!("{}", strip(&eval_text(&nl.value(&env).text())));
        let mut ctx = FeelContext::default();
        ctx.set_entry(&Name::from("a"), eval_text(&a.to_string()));
        ctx.set_entry(&Name::from("b"), eval_text(&b.to_string()));
        let obs = match guarded(|| me.evaluate_invocable(name, &ctx)) {
          Ok(v) => format!("{}", strip(&v)),
          Err(p) => format!("panic: {}", p),
        };
        rep.case(&format!("nested {} {} {} {}", xml, name, a, b), true);
        if obs != expected {
          rep.disagree(Kind::ImplVsSpec, "nested-boxed", sig, &format!("invocable {} on {{a: {}, b: {}}} in model {}", name, a, b, xml), &obs, &expected);
        }
      }
    }
  }
}

// ------------------------------------------------------------------------------------------
// running

fn render_impl(r: Result<Value, String>) -> String {
  match r {
    Ok(v) => match value_sexp(&v) {
      Some(s) => format!("(ok {})", s),
      None => "(unencodable)".to_string(),
    },
    Err(m) => format!("(panic {})", Sexp::str(&m)),
  }
}

struct Pending {
  shape: String,
  xml: String,
  invocable: String,
  input_text: String,
  implementation: String,
  /// what the additional entries are, relative to `base`: none / outside the closure / named like a variable
  variant: &'static str,
  /// index (into the pending list) of the evaluation of the same invocable on the base context
  base: Option<usize>,
  var_clash: bool,
  bkm_svc: bool,
  /// a knowledge model or a decision service of the graph is named like a built-in function
  bif_named: bool,
  nontrivial: bool,
}

fn parse_names(ans: &str) -> Option<BTreeSet<String>> {
  let x = Sexp::parse(ans)?;
  let xs = x.as_list()?;
  if xs.first()?.as_atom()? != "names" {
    return None;
  }
  let mut out = BTreeSet::new();
  for n in &xs[1..] {
    let cs = n.as_list()?;
    let s: String = cs.iter().skip(1).filter_map(|c| c.as_atom().and_then(|a| a.parse::<u32>().ok()).and_then(char::from_u32)).collect();
    out.insert(s);
  }
  Some(out)
}

// ------------------------------------------------------------------------------------------
// Family `absent-input`: what a name bound by a requirement is in the logic, whatever the name is
// and whether or not the input context has an entry for it.
//
// (who binds the name: a required input, a required decision's variable fed by an input, an input of a
// decision service evaluated by name and invoked from a decision, an input handed to a knowledge model, a
// parameter of a knowledge model) x (the name: every name `Bif::from_str` accepts — regenerated table, through
// the driver — and ordinary names) x (type reference number / string / boolean / Any — input data without a type reference is refused by the builder) x (the entry of the input
// context: supplied, supplied as null, ABSENT, of the wrong type) x (the use as a value: `n = null`,
// `if n = null then Price else n`, `[n]`, `{r: n}`).
//
// Oracle, written out (nothing of the implementation, no model): a required input without an entry is null in
// the logic (DMN: missing input data is null), so is one supplied as null and one whose value does not conform to
// the type reference; otherwise it is the supplied value. `n = null` is then true / false, the conditional Price /
// the value, the list `[v]`, the context `{r: v}`. A name bound by a requirement is never the built-in function
// it is spelled like.

/// The names the lexer hands out as the names of date / time literal functions: a variable of that name is
/// refused when the model is built ("empty FEEL name"), so no requirement can bind it.
const ABSENT_NOT_NAMES: [&str; 4] = ["date", "time", "duration", "date and time"];
const ABSENT_ORDINARY: [&str; 6] = ["x", "Quantity", "net amount", "k1", "Count", "summ"];
const ABSENT_USES: [&str; 4] = ["eq-null", "if-null", "list", "context"];
const ABSENT_POSITIONS: [&str; 6] = ["input", "decision-variable", "service", "service-invoked", "knowledge", "knowledge-parameter"];

fn absent_names(model: &mut Model) -> Vec<String> {
  let mut names: Vec<String> = Sexp::parse(&model.ask("(c10 bifnames)"))
    .and_then(|x| {
      x.as_list().map(|l| {
        l.iter()
          .filter_map(|n| {
            let cs = n.as_list()?;
            let mut t = String::new();
            for c in cs.iter().skip(1) {
              t.push(char::from_u32(c.as_atom()?.parse::<u32>().ok()?)?);
            }
            Some(t)
          })
          .filter(|n| !ABSENT_NOT_NAMES.contains(&n.as_str()))
          .collect()
      })
    })
    .unwrap_or_default();
  names.extend(ABSENT_ORDINARY.iter().map(|s| s.to_string()));
  names
}

fn absent_use(u: usize, n: &str, other: &str) -> String {
  match u {
    0 => format!("{} = null", n),
    1 => format!("if {} = null then {} else {}", n, other, n),
    2 => format!("[{}]", n),
    _ => format!("{{r: {}}}", n),
  }
}

/// input data / decision with ids of their own (the names have blanks)
fn absent_input(id: &str, name: &str, ty: &str) -> String {
  let t = if ty.is_empty() { String::new() } else { format!(" typeRef=\"{}\"", ty) };
  format!("<inputData name=\"{1}\" id=\"{0}\"><variable name=\"{1}\"{2}/></inputData>", id, name, t)
}

fn absent_dec(id: &str, name: &str, ty: &str, ri: &[&str], rd: &[&str], rk: &[&str], text: &str) -> String {
  let t = if ty.is_empty() { String::new() } else { format!(" typeRef=\"{}\"", ty) };
  let mut s = format!("<decision name=\"{1}\" id=\"{0}\"><variable name=\"{1}\"{2}/>", id, name, t);
  for q in ri {
    s.push_str(&format!("<informationRequirement><requiredInput href=\"#{}\"/></informationRequirement>", q));
  }
  for q in rd {
    s.push_str(&format!("<informationRequirement><requiredDecision href=\"#{}\"/></informationRequirement>", q));
  }
  for q in rk {
    s.push_str(&format!("<knowledgeRequirement><requiredKnowledge href=\"#{}\"/></knowledgeRequirement>", q));
  }
  s.push_str(&x_lit(&esc(text)));
  s.push_str("</decision>");
  s
}

/// The model for one (position, name, type): four invocables `U0 … U3`, one per use. Returns the body of
/// `<definitions>` and the name of the entry of the input context that feeds the name.
fn absent_model(pos: usize, n: &str, ty: &str, src: &str) -> (String, String) {
  let mut b = String::new();
  let price = absent_input("_price", "Price", "number");
  match pos {
    // a required input
    0 => {
      b.push_str(&absent_input("_n", n, ty));
      b.push_str(&price);
      for u in 0..4 {
        b.push_str(&absent_dec(&format!("_u{}", u), &format!("U{}", u), "", &["_n", "_price"], &[], &[], &absent_use(u, n, "Price")));
      }
      (b, n.to_string())
    }
    // a required decision's variable, the decision hands on its own required input
    1 => {
      b.push_str(&absent_input("_src", src, "Any"));
      b.push_str(&price);
      b.push_str(&absent_dec("_n", n, ty, &["_src"], &[], &[], src));
      for u in 0..4 {
        b.push_str(&absent_dec(&format!("_u{}", u), &format!("U{}", u), "", &["_price"], &["_n"], &[], &absent_use(u, n, "Price")));
      }
      (b, src.to_string())
    }
    // an input of a decision service: the service evaluated by name (2), invoked from a decision (3)
    2 | 3 => {
      b.push_str(&absent_input("_n", n, ty));
      b.push_str(&price);
      for u in 0..4 {
        let (dn, sn) = if pos == 2 { (format!("W{}", u), format!("U{}", u)) } else { (format!("W{}", u), format!("S{}", u)) };
        b.push_str(&absent_dec(&format!("_w{}", u), &dn, "", &["_n", "_price"], &[], &[], &absent_use(u, n, "Price")));
        b.push_str(&format!(
          "<decisionService name=\"{0}\" id=\"_s{1}\"><variable name=\"{0}\"/><outputDecision href=\"#_w{1}\"/><inputData href=\"#_n\"/><inputData href=\"#_price\"/></decisionService>",
          sn, u
        ));
        if pos == 3 {
          b.push_str(&absent_dec(&format!("_u{}", u), &format!("U{}", u), "", &["_n", "_price"], &[], &[&format!("_s{}", u)], &format!("S{}({}, Price)", u, n)));
        }
      }
      (b, n.to_string())
    }
    // a required input handed to a knowledge model (4); a parameter of a knowledge model named so (5)
    _ => {
      let (input, param) = if pos == 4 { (n, "p") } else { (src, n) };
      b.push_str(&absent_input("_n", input, ty));
      b.push_str(&price);
      for u in 0..4 {
        b.push_str(&format!(
          "<businessKnowledgeModel name=\"F{0}\" id=\"_f{0}\"><variable name=\"F{0}\"/><encapsulatedLogic><formalParameter name=\"{1}\"/><formalParameter name=\"q\"/>{2}</encapsulatedLogic></businessKnowledgeModel>",
          u,
          param,
          x_lit(&esc(&absent_use(u, param, "q")))
        ));
        b.push_str(&absent_dec(&format!("_u{}", u), &format!("U{}", u), "", &["_n", "_price"], &[], &[&format!("_f{}", u)], &format!("F{}({}, Price)", u, input)));
      }
      (b, input.to_string())
    }
  }
}

fn run_absent(cfg: &Cfg, rep: &mut Report) {
  let mut rng = Rng::new(cfg.seed ^ 0x0ab5_e47);
  let mut model = Model::start(&cfg.driver);
  let names = absent_names(&mut model);
  drop(model);
  // (type reference, a conforming value, a value of another type)
  let types: [(&str, &str, &str); 4] = [("number", "3", "\"a\""), ("string", "\"a\"", "3"), ("boolean", "true", "3"), ("Any", "3", "")];
  for (ni, n) in names.iter().enumerate() {
    for pos in 0..ABSENT_POSITIONS.len() {
      // every name meets every position; the type reference and the name of the feeding input rotate / are drawn
      let (ty, good, wrong) = types[(ni + pos + cfg.seed as usize) % 4];
      let src = loop {
        let c = if rng.chance(1, 2) { rng.pick(&names).clone() } else { "src".to_string() };
        if &c != n && c != "Price" {
          break c;
        }
      };
      let (body, entry) = absent_model(pos, n, ty, &src);
      let xml = format!("{}{}</definitions>", HEAD, body);
      let built = guarded(|| dmntk_model::parse(&xml).map_err(|m| m.to_string()).and_then(|d| ModelEvaluator::new(&d).map_err(|m| m.to_string())));
      let me = match built {
        Ok(Ok(me)) => me,
        other => {
          let obs = match other {
            Ok(Err(m)) => format!("the model does not build: {}", m),
            Err(p) => format!("panic while building: {}", p),
            _ => unreachable!(),
          };
          rep.case(&format!("absent {}", xml), true);
          rep.disagree(Kind::ImplVsSpec, "absent-input", &format!("absent-input: the model does not build ({})", ABSENT_POSITIONS[pos]), &format!("model {}", xml), &obs, "a model that builds");
          continue;
        }
      };
      // the entry of the input context: supplied, supplied as null, absent, of the wrong type
      for state in 0..4 {
        if state == 3 && wrong.is_empty() {
          continue;
        }
        let (input, eff) = match state {
          0 => (format!("{{{}: {}, Price: 7}}", entry, good), good),
          1 => (format!("{{{}: null, Price: 7}}", entry), "null"),
          2 => ("{Price: 7}".to_string(), "null"),
          _ => (format!("{{{}: {}, Price: 7}}", entry, wrong), "null"),
        };
        let ctx = match eval_text(&input) {
          Value::Context(c) => c,
          _ => FeelContext::default(),
        };
        let state_name = ["supplied", "null", "absent", "wrong-type"][state];
        for u in 0..4 {
          let expected = match u {
            0 => (eff == "null").to_string(),
            1 => (if eff == "null" { "7" } else { eff }).to_string(),
            2 => format!("[{}]", eff),
            _ => format!("{{r: {}}}", eff),
          };
          let invocable = format!("U{}", u);
          let obs = match guarded(|| me.evaluate_invocable(&invocable, &ctx)) {
            Ok(v) => format!("{}", strip(&v)),
            Err(p) => format!("panic: {}", p),
          };
          let exp = format!("{}", strip(&eval_text(&expected)));
          rep.case(&format!("absent {} {} {}", xml, invocable, input), true);
          rep.hit(&format!("absent-input:{}:{}", ABSENT_POSITIONS[pos], state_name));
          rep.hit(&format!("absent-input:use:{}", ABSENT_USES[u]));
          rep.hit(if ni + ABSENT_ORDINARY.len() < names.len() { "absent-input:name:built-in" } else { "absent-input:name:ordinary" });
          if obs != exp {
            rep.disagree(
              Kind::ImplVsSpec,
              "absent-input",
              &format!("absent-input: a name bound by a requirement is not the value of its entry / null in the logic ({}, entry {})", ABSENT_POSITIONS[pos], state_name),
              &format!("invocable {} on {} in model {}", invocable, input, xml),
              &obs,
              &exp,
            );
          }
        }
      }
    }
  }
}

pub fn run(cfg: &Cfg) -> Report {
  if cfg.extra.iter().any(|a| a == "c04-child") {
    child_main();
    std::process::exit(0);
  }
  // probe: `vharness C04 c04-probe <model.xml> <invocable> <context text>…` prints the value of the invocable
  // on every context (the real parser, builder and evaluator of the working tree)
  if cfg.extra.first().map_or(false, |a| a == "c04-probe") {
    let xml = std::fs::read_to_string(&cfg.extra[1]).expect("model file");
    match dmntk_model::parse(&xml).map_err(|e| e.to_string()).and_then(|d| ModelEvaluator::new(&d).map_err(|e| e.to_string())) {
      Err(e) => println!("BUILD-ERROR {}", e),
      Ok(me) => {
        for t in &cfg.extra[3..] {
          let ctx = match eval_text(t) {
            Value::Context(c) => c,
            _ => FeelContext::default(),
          };
          println!("{} on {} => {:?}", cfg.extra[2], t, guarded(|| me.evaluate_invocable(&cfg.extra[2], &ctx)));
        }
      }
    }
    std::process::exit(0);
  }
  let mut rep = Report::new(
    "C04",
    "acyclic requirement graphs of 2..8 nodes (decisions, knowledge models, decision services) over 1..3 typed inputs — diamonds, a decision required directly and through a service, knowledge models requiring knowledge models and services, literal / boxed context / boxed invocation / boxed function definition / relation logic, variables named like inputs or other decisions, typed and untyped variables — rendered as DMN XML and loaded by the real parser and builder; every invocable evaluated on generated input contexts (plain, plus entries outside the requirement closure, plus an entry for every variable of a decision / knowledge model / service outside the closure). Non-trivial: the invocable has at least one requirement edge in its closure (closureNames non-empty) or the graph has ≥ 3 nodes; distinct by (graph, invocable, input). Cases whose values the exact-arithmetic model cannot compute are counted as skipped_unsupported.",
  );
  let thorough = cfg.tier == "thorough";
  run_expectations(&mut rep, &expectations());
  run_absent(cfg, &mut rep);
  run_graphs(cfg, &mut rep, if thorough { 12_000 } else { 1_500 }, true, "");
  rep
}

/// The correspondence run over the corpus graphs (those whose name starts with `only`) and `n_graphs` generated
/// ones, into `rep` — also used by C13 for the graphs that push and pop contexts (scope leaks show as wrong values).
pub fn run_graphs(cfg: &Cfg, rep: &mut Report, n_graphs: usize, with_cyclic: bool, only: &str) {
  let mut rng = Rng::new(cfg.seed);
  let ff = 10;
  let mut model = Model::start(&cfg.driver);
  set_bif_pool(&mut model);
  if bif_pool().len() < 20 {
    rep.disagree(Kind::ImplVsModel, "bif-named", "the table of built-in function names is unreadable", "(c10 bifnames)", &format!("{:?}", bif_pool()), "the names Bif::from_str accepts");
  }
  let mut graphs: Vec<(String, Graph)> = corpus().into_iter().filter(|(n, _)| n.starts_with(only)).map(|(n, g)| (n.to_string(), g)).collect();
  for k in 0..n_graphs {
    graphs.push((format!("random-{}", k), gen_graph(&mut rng)));
  }
  // boxed expressions nested in every position of every other kind: against the values written out in the harness,
  // and (below, like every other graph) against the model and the specification
  if only.is_empty() {
    let mut nrng = Rng::new(cfg.seed ^ 0x6e65_7374);
    let nested = nested_graphs(&mut nrng, if cfg.tier == "thorough" { 1200 } else { 120 });
    run_nested(rep, &nested, &mut nrng);
    for (k, (g, _)) in nested.into_iter().enumerate() {
      graphs.push((format!("nested-{}", k), g));
    }
  }
  // graphs with a requirement cycle: the predicate must reject them, and so must
  // `ModelEvaluator::new` (`check_requirements`) and its model `Drg.checkRequirements`
  for (name, g) in cyclic_corpus().into_iter().filter(|_| with_cyclic) {
    if let Some(gs) = graph_sexp(&g) {
      let a = model.ask(&format!("(c04 acyclic {})", gs));
      rep.hit(&format!("cyclic-corpus:{}", a));
      // `check_requirements` resolves identifiers without regard to the kind of element:
      // the last graph has a cycle for it only
      if a != "cyclic" && !name.starts_with("kind-blind") {
        rep.disagree(Kind::ImplVsModel, "acyclic", "Drg.acyclic accepts a graph with a requirement cycle", name, "cyclic", &a);
      }
      let b = model.ask(&format!("(c04 build {})", gs));
      let xml = graph_xml(&g);
      let (build, _, end) = run_child(&xml, &[], 20_000);
      rep.case(&format!("build {}", gs), true);
      rep.hit(&format!("cyclic-corpus:model-{}:implementation-{}", b, if build.is_empty() { end.as_str() } else { build.as_str() }));
      if build != "builderror" {
        rep.disagree(Kind::ImplVsSpec, "build", "ModelEvaluator::new accepts (or dies on) a graph with a requirement cycle", &format!("{} {}", name, xml), &format!("{} {}", build, end), "builderror");
      }
      if b != "cyclic-requirements" {
        rep.disagree(Kind::ImplVsModel, "build", "Drg.checkRequirements accepts a graph with a requirement cycle", name, &build, &b);
      }
    }
  }
  let mut build_errors = 0u64;
  let mut unparsable = 0u64;
  let mut skipped = 0u64;
  let trace = std::env::var("C04_TRACE").is_ok();
  for (shape, g) in &graphs {
    let xml = graph_xml(g);
    if trace {
      eprintln!("{} {}", shape, xml);
    }
    let gs = match graph_sexp(g) {
      Some(s) => s.to_string(),
      None => {
        unparsable += 1;
        if trace {
          eprintln!("UNPARSABLE {}", xml);
        }
        rep.hit("graph:logic-does-not-parse");
        // the builder parses the same text in the same scope: it must refuse the model
        let (build, _, _) = run_child(&xml, &[], 20_000);
        if build != "builderror" {
          rep.disagree(Kind::ImplVsModel, "build", "the builder accepts a literal expression that does not parse in the replicated build-time scope", &xml, &build, "builderror");
        }
        continue;
      }
    };
    let gf = g.decisions.len() + g.bkms.len() + g.services.len() + 1;
    rep.hit(&format!("graph:nodes={}", g.decisions.len() + g.bkms.len() + g.services.len()));
    if !g.services.is_empty() {
      rep.hit("graph:with-service");
    }
    if g.bkm_requires_service() {
      rep.hit("graph:bkm-requires-service");
    }
    {
      let mut kinds = BTreeSet::new();
      for d in &g.decisions {
        logic_kinds(&d.logic, &mut kinds);
      }
      for b in &g.bkms {
        let mut k2 = BTreeSet::new();
        logic_kinds(&b.logic, &mut k2);
        for k in k2 {
          if k != "literal" {
            rep.hit(&format!("bkm-body:{}", k));
          }
        }
      }
      for k in kinds {
        rep.hit(&format!("decision-logic:{}", k));
      }
      if g.inputs.iter().any(|i| i.ty.is_item()) {
        rep.hit("graph:input-typed-by-item-definition");
      }
      if g.decisions.iter().any(|d| d.ty.is_item()) {
        rep.hit("graph:decision-variable-typed-by-item-definition");
      }
      if g.services.iter().any(|s| s.input_decisions.iter().any(|q| g.decision(q).map_or(false, |d| d.ty.is_item()))) {
        rep.hit("graph:input-decision-typed-by-item-definition");
      }
      fn tables<'t>(l: &'t Logic, out: &mut Vec<&'t GTable>) {
        match l {
          Logic::Table(t) => out.push(t),
          Logic::Ctx(es) => es.iter().for_each(|(_, e)| tables(e, out)),
          Logic::Inv(f, bs, _) => {
            tables(f, out);
            bs.iter().for_each(|(_, e)| tables(e, out));
          }
          _ => {}
        }
      }
      let mut ts = vec![];
      g.decisions.iter().for_each(|d| tables(&d.logic, &mut ts));
      g.bkms.iter().for_each(|b| tables(&b.logic, &mut ts));
      for t in ts {
        rep.hit(&format!("table:{}", t.hit_policy.2));
      }
      if g.services.iter().any(|s| g.decisions.iter().any(|d| d.req_knowledge.contains(&s.id) && g.services.iter().any(|s2| s2.id != s.id && (s2.output.contains(&d.id) || s2.encapsulated.contains(&d.id))))) {
        rep.hit("graph:service-inside-service");
      }
      let vn = g.var_names();
      if g.inputs.iter().any(|i| vn.contains(&i.name)) {
        rep.hit("graph:variable-named-like-an-input");
      }
      if g.decisions.iter().any(|d| g.decisions.iter().filter(|e| e.var == d.var).count() > 1) {
        rep.hit("graph:two-decisions-with-one-variable-name");
      }
      if g.decisions.iter().any(|d| d.req_knowledge.iter().any(|k| g.service(k).map_or(false, |s| s.output.iter().chain(s.encapsulated.iter()).any(|o| d.req_decisions.contains(o))))) {
        rep.hit("graph:decision-required-directly-and-through-a-service");
      }
      if g.bkms.iter().any(|b| b.req_knowledge.iter().any(|k| g.bkm(k).is_some())) {
        rep.hit("graph:bkm-requires-bkm");
      }
      for d in &g.decisions {
        let n = d.req_decisions.len();
        if n >= 2 && d.req_decisions.iter().any(|q| g.decision(q).map_or(false, |r| !r.req_decisions.is_empty() || !r.req_inputs.is_empty())) {
          rep.hit("graph:diamond-or-join");
          break;
        }
      }
    }
    let invocables = g.invocable_names();
    // closure names per invocable
    let creqs: Vec<String> = invocables.iter().map(|n| format!("(c04 closure {} {} {})", gf, gs, Sexp::str(n))).collect();
    let cans = model.ask_batch(&creqs);
    let var_names = g.var_names();
    let mut all_names: BTreeSet<String> = var_names.clone();
    for i in &g.inputs {
      all_names.insert(i.name.clone());
    }
    let n_ctx = if shape.starts_with("random") || shape.starts_with("nested") {
      2
    } else if shape == "recursion-by-name" {
      1
    } else {
      6
    };
    let mut pend: Vec<Pending> = vec![];
    let mut reqs: Vec<String> = vec![];
    let mut cases: Vec<(String, Vec<(String, String)>)> = vec![];
    for (inv, cans) in invocables.iter().zip(cans.iter()) {
      let closure = match parse_names(cans) {
        Some(c) => c,
        None => {
          rep.disagree(Kind::ImplVsModel, "closure", "driver-error", &creqs[0], cans, "(names …)");
          continue;
        }
      };
      for _ in 0..n_ctx {
        let mut base = base_entries(g, &mut rng);
        // parameters of knowledge models / services invoked by name are input entries too
        for n in &closure {
          if !base.iter().any(|(m, _)| m == n) && !var_names.contains(n) && rng.chance(3, 4) {
            base.push((n.clone(), value_text(Ty::Number, &mut rng)));
          }
        }
        // entries outside the closure: fresh names, and names of the graph the invocable does not reach
        let mut outside = base.clone();
        outside.push(("zz".into(), "5".into()));
        for n in &all_names {
          if !closure.contains(n) && !base.iter().any(|(m, _)| m == n) && rng.chance(2, 3) {
            outside.push((n.clone(), value_text(Ty::Number, &mut rng)));
          }
        }
        // an entry for every variable of a decision / knowledge model / decision service outside
        // the closure (before the repair of finding F14 such entries replaced the values)
        let mut clash = base.clone();
        for n in &var_names {
          if !closure.contains(n) && !base.iter().any(|(m, _)| m == n) {
            let v = if shape == "f14" { "100".to_string() } else { value_text(Ty::Number, &mut rng) };
            clash.push((n.clone(), v));
          }
        }
        let base_ix = pend.len();
        for (variant, entries) in [("base", &base), ("outside", &outside), ("clash", &clash)] {
          if variant == "clash" && entries.len() == base.len() {
            continue;
          }
          let ctx = ctx_of(entries);
          let implementation = String::new();
          let input = match value_sexp(&Value::Context(ctx.clone())) {
            Some(s) => s,
            None => continue,
          };
          reqs.push(format!("(c04 eval {} {} {} {} {})", ff, gf, gs, Sexp::str(inv), input));
          cases.push((inv.clone(), entries.clone()));
          pend.push(Pending {
            shape: shape.clone(),
            xml: xml.clone(),
            invocable: inv.clone(),
            input_text: ctx_text(entries),
            implementation,
            variant,
            base: if variant == "base" { None } else { Some(base_ix) },
            var_clash: entries.iter().any(|(n, _)| var_names.contains(n)) || (!g.services.is_empty() && g.inputs.iter().any(|i| var_names.contains(&i.name))),
            bkm_svc: g.bkm_requires_service(),
            bif_named: g.bkms.iter().map(|b| &b.var).chain(g.services.iter().map(|x| &x.var)).any(|v| bif_pool().contains(v)),
            nontrivial: !closure.is_empty() || gf > 3,
          });
        }
      }
    }
    let answers = model.ask_batch(&reqs);
    let split = |both: &String| -> (String, String) {
      match Sexp::parse(both).as_ref().and_then(|x| x.as_list()) {
        Some([m, s]) => (m.to_string(), s.to_string()),
        Some([m, s, _]) => (m.to_string(), s.to_string()),
        Some([m, s, _, _]) => (m.to_string(), s.to_string()),
        _ => (both.clone(), both.clone()),
      }
    };
    // the generated graphs are acyclic by construction: the decidable predicate must say so
    if let Some(a) = answers.first() {
      // … and `check_requirements` must accept them (the implementation built the evaluator
      // for these graphs, or the cases below are all build errors)
      if a.ends_with(" cyclic-requirements)") {
        rep.disagree(Kind::ImplVsModel, "build", "Drg.checkRequirements rejects a graph that is acyclic by construction", &xml, "builds", "cyclic-requirements");
      } else if a.ends_with(" builds)") {
        rep.hit("build:accepted");
      }
      if a.contains(" cyclic ") {
        rep.disagree(Kind::ImplVsModel, "acyclic", "Drg.acyclic rejects a graph that is acyclic by construction", &xml, "acyclic", "cyclic");
      } else if a.contains(" acyclic ") {
        rep.hit("acyclic:accepted");
      }
    }
    // the implementation, in child processes: the cases for which the model predicts unbounded
    // recursion each in a child of their own, the others as one batch
    let risky: Vec<bool> = answers.iter().map(|a| split(a).0 == "(diverge)").collect();
    let safe_cases: Vec<(String, Vec<(String, String)>)> = cases.iter().zip(risky.iter()).filter(|(_, r)| !**r).map(|(c, _)| c.clone()).collect();
    let (build, safe_answers) = if safe_cases.is_empty() {
      let (first, _, end) = run_child(&xml, &[], 20_000);
      (if first.is_empty() { format!("buildabort {}", end) } else { first }, vec![])
    } else {
      run_cases(&xml, &safe_cases)
    };
    if build != "built" {
      if build == "builderror" {
        build_errors += 1;
        rep.hit("graph:build-error");
      } else {
        rep.disagree(Kind::ImplVsSpec, "no_panic", "panic or abort while building the model evaluator", &xml, &build, "a model evaluator or an error");
      }
      continue;
    }
    let mut it = safe_answers.into_iter();
    for (ix, p) in pend.iter_mut().enumerate() {
      if risky[ix] {
        let (_, got, end) = run_child(&xml, &cases[ix..ix + 1], 5_000);
        p.implementation = got.into_iter().next().unwrap_or_else(|| format!("(abort {})", end));
      } else {
        p.implementation = it.next().unwrap_or_else(|| "(missing)".to_string());
      }
    }
    for (ix, (p, both)) in pend.iter().zip(answers.iter()).enumerate() {
      let (m, s) = split(both);
      // a stack overflow (the process aborts) is what the model calls `diverge`
      let aborted = p.implementation.starts_with("(abort");
      let (m, s) = if aborted { (m.replace("(diverge)", &p.implementation), s.replace("(diverge)", &p.implementation)) } else { (m, s) };
      let input_desc = format!("invocable {} on {} in model {}", p.invocable, p.input_text, p.xml);
      if m == "(unsupported)" || s == "(unsupported)" {
        skipped += 1;
        rep.hit("skipped:unsupported");
        continue;
      }
      rep.case(&reqs[ix], p.nontrivial);
      if !p.shape.starts_with("random") {
        rep.hit(&format!("corpus:{}", if p.shape.starts_with("nested") { "nested" } else { p.shape.as_str() }));
      }
      rep.hit(&format!("variant:{}", p.variant));
      if p.xml.contains(">1.25<") || p.xml.contains(">0.15<") || p.xml.contains(">2.5<") {
        rep.hit("graph with a decision table over decimals");
      }
      rep.hit(&format!("outcome:{}", p.implementation.split(' ').next().unwrap_or("").trim_matches(|c| c == '(' || c == ')')));
      if p.implementation.starts_with("(panic") {
        rep.disagree(Kind::ImplVsSpec, "no_panic", "panic while evaluating an invocable", &input_desc, &p.implementation, "a value");
        continue;
      }
      if aborted {
        rep.hit("outcome:abort-where-the-model-diverges");
        rep.notes.push(format!("unbounded recursion (process abort) as the model predicts: {}", input_desc.chars().take(600).collect::<String>()));
        rep.notes.truncate(5);
      }
      // ---- the tie: implementation = model
      if p.implementation != m {
        let sig = if m.starts_with("(error") { "driver-error" } else { "evaluate_invocable differs from the model" };
        rep.disagree(Kind::ImplVsModel, "evaluate_invocable", sig, &input_desc, &p.implementation, &m);
      }
      // ---- the property, first sentence: the value prescribed by the specification
      if p.implementation != s && trace {
        eprintln!("MISMATCH-REQUEST {}", reqs[ix]);
      }
      if p.implementation != s {
        let sig = if p.var_clash {
          "an input entry named like the variable of a required decision / knowledge model / decision service replaces its value (overwrite by input data)"
        } else if p.bkm_svc {
          "a decision service required by a knowledge model is evaluated on the input data instead of being bound as a function"
        } else if p.bif_named {
          "the value of the invocable differs from the specification (a knowledge model or decision service of the graph is named like a built-in function)"
        } else {
          "the value of the invocable differs from the specification"
        };
        rep.disagree(Kind::ImplVsSpec, "eval_decision_spec", sig, &input_desc, &p.implementation, &s);
      }
      // ---- the property, last sentence, on the implementation alone: non-interference
      if p.variant == "outside" || p.variant == "clash" {
        if let Some(b) = p.base {
          if pend[b].implementation != p.implementation {
            rep.disagree(
              Kind::ImplVsSpec,
              "irrelevant_inputs",
              if p.variant == "clash" {
                "an input entry named like the variable of a required decision / knowledge model / decision service replaces its value (overwrite by input data)"
              } else {
                "input entries outside the requirement closure change the result"
              },
              &format!("{} versus base {}", input_desc, pend[b].input_text),
              &p.implementation,
              &pend[b].implementation,
            );
          }
        }
      }
      if rep.samples.len() < 10 && p.nontrivial && p.xml.len() < 1400 && !p.implementation.contains("null") && (rep.samples.len() < 4 || p.shape.starts_with("random")) {
        rep.sample(json!({"shape": p.shape, "invocable": p.invocable, "input": p.input_text, "xml": p.xml, "implementation": p.implementation, "model": m, "spec": s}));
      }
    }
  }
  rep.extra.insert("graphs".into(), json!(graphs.len()));
  rep.extra.insert("build_errors".into(), json!(build_errors));
  rep.extra.insert("logic_unparsable".into(), json!(unparsable));
  rep.extra.insert("skipped_unsupported".into(), json!(skipped));
  rep.model_requests += model.requests;
}
