//! C12, XML layer: `dmntk_model::parse(text)` against the Lean model `Dmn.Xml.parse` of
//! `model/src/model/parser.rs` (lean/Dmn/Model/XmlModel.lean).
//!
//! The text is read with roxmltree (the same crate and version parser.rs uses; roxmltree itself is
//! NOT modelled) and the tree below `document.root_element()` is sent to the driver as an
//! S-expression: `(e <name> (<attr>…) <child>…)`, `(t <text>)`, `(c <comment>)`, `(p)`; every string
//! as its list of code points.  The driver answers `(err <kind> …)`, `(panic)` or `(ok <summary>)`
//! where the summary is a canonical rendering of everything parser.rs stores in `Definitions`
//! (except `feel_name`s and `f64`s); the same rendering is computed here from the real
//! `Definitions` through its public accessors.  `uriparse::URIReference::try_from` (third-party,
//! not modelled either) is a parameter of the model: its answers for every `href` value of the
//! tree travel with the request.

use crate::sexp::Sexp;
use crate::util;
use dmntk_model::model::*;
use std::fmt::Write;

fn p_str(out: &mut String, s: &str) {
  out.push_str("(s");
  for c in s.chars() {
    let _ = write!(out, " {}", c as u32);
  }
  out.push(')');
}

fn s_str(s: &str) -> String {
  let mut o = String::new();
  p_str(&mut o, s);
  o
}

fn s_opt(s: &Option<String>) -> String {
  match s {
    Some(s) => s_str(s),
    None => "-".to_string(),
  }
}

fn s_bool(b: bool) -> String {
  if b { "true" } else { "false" }.to_string()
}

fn s_list(tag: &str, xs: Vec<String>) -> String {
  let mut o = String::with_capacity(8 + xs.iter().map(|x| x.len() + 1).sum::<usize>());
  o.push('(');
  o.push_str(tag);
  for x in xs {
    o.push(' ');
    o.push_str(&x);
  }
  o.push(')');
  o
}

// ------------------------------------------------------------------------------------------
// text → abstract tree
// ------------------------------------------------------------------------------------------

fn node_sexp(n: roxmltree::Node, out: &mut String, hrefs: &mut Vec<String>) {
  match n.node_type() {
    roxmltree::NodeType::Element | roxmltree::NodeType::Root => {
      out.push_str("(e ");
      p_str(out, n.tag_name().name());
      out.push_str(" (");
      for (i, a) in n.attributes().iter().enumerate() {
        if i > 0 {
          out.push(' ');
        }
        out.push_str(if a.namespace().is_some() { "(1 " } else { "(0 " });
        p_str(out, a.name());
        out.push(' ');
        p_str(out, a.value());
        out.push(')');
        if a.namespace().is_none() && a.name() == "href" && !hrefs.iter().any(|h| h == a.value()) {
          hrefs.push(a.value().to_string());
        }
      }
      out.push(')');
      for c in n.children() {
        out.push(' ');
        node_sexp(c, out, hrefs);
      }
      out.push(')');
    }
    roxmltree::NodeType::Text => {
      out.push_str("(t ");
      p_str(out, n.text().unwrap_or(""));
      out.push(')');
    }
    roxmltree::NodeType::Comment => {
      out.push_str("(c ");
      p_str(out, n.text().unwrap_or(""));
      out.push(')');
    }
    roxmltree::NodeType::PI => out.push_str("(p)"),
  }
}

/// What `uriparse::URIReference::try_from` answers, as the driver expects it.
fn uri_outcome(v: &str) -> String {
  let r = util::guarded(|| match uriparse::URIReference::try_from(v) {
    Ok(r) => format!("(ok {} {})", if r.is_relative_reference() { 1 } else { 0 }, s_str(&r.to_string())),
    Err(_) => "err".to_string(),
  });
  match r {
    Ok(s) => s,
    Err(_) => "panic".to_string(),
  }
}

/// `Some((uri table, tree))` when roxmltree reads the text.
pub fn tree_of(text: &str) -> Option<(String, String)> {
  let doc = roxmltree::Document::parse(text).ok()?;
  let mut tree = String::with_capacity(text.len() * 5);
  let mut hrefs = vec![];
  node_sexp(doc.root_element(), &mut tree, &mut hrefs);
  let mut table = String::from("(");
  for (i, h) in hrefs.iter().enumerate() {
    if i > 0 {
      table.push(' ');
    }
    table.push('(');
    p_str(&mut table, h);
    table.push(' ');
    table.push_str(&uri_outcome(h));
    table.push(')');
  }
  table.push(')');
  Some((table, tree))
}

// ------------------------------------------------------------------------------------------
// real `Definitions` → canonical summary (mirrors Dmn.Driver.C12Xml.pDefinitions)
// ------------------------------------------------------------------------------------------

fn s_literal(l: &LiteralExpression) -> String {
  s_list("lit", vec![s_opt(l.id()), s_opt(l.description()), s_opt(l.label()), s_opt(l.type_ref()), s_opt(l.text()), s_opt(&l.expression_language())])
}

fn s_hit(h: &HitPolicy) -> String {
  match h {
    HitPolicy::Unique => "unique",
    HitPolicy::Any => "any",
    HitPolicy::Priority => "priority",
    HitPolicy::First => "first",
    HitPolicy::RuleOrder => "rule-order",
    HitPolicy::OutputOrder => "output-order",
    HitPolicy::Collect(BuiltinAggregator::List) => "collect-list",
    HitPolicy::Collect(BuiltinAggregator::Count) => "collect-count",
    HitPolicy::Collect(BuiltinAggregator::Sum) => "collect-sum",
    HitPolicy::Collect(BuiltinAggregator::Min) => "collect-min",
    HitPolicy::Collect(BuiltinAggregator::Max) => "collect-max",
  }
  .to_string()
}

fn s_table(t: &DecisionTable) -> String {
  s_list(
    "dt",
    vec![
      s_list("ins", t.input_clauses.iter().map(|c| s_list("in", vec![s_str(&c.input_expression), s_opt(&c.input_values)])).collect()),
      s_list("outs", t.output_clauses.iter().map(|c| s_list("out", vec![s_opt(&c.type_ref), s_opt(&c.name), s_opt(&c.output_values), s_opt(&c.default_output_entry)])).collect()),
      s_list(
        "rules",
        t.rules
          .iter()
          .map(|r| s_list("rule", vec![s_list("i", r.input_entries.iter().map(|e| s_str(&e.text)).collect()), s_list("o", r.output_entries.iter().map(|e| s_str(&e.text)).collect())]))
          .collect(),
      ),
      s_hit(&t.hit_policy),
      match t.preferred_orientation {
        DecisionTableOrientation::RuleAsRow => "rule-as-row",
        DecisionTableOrientation::RuleAsColumn => "rule-as-column",
        DecisionTableOrientation::CrossTable => "cross-table",
      }
      .to_string(),
      s_opt(&t.output_label),
    ],
  )
}

fn s_opt_expr(e: &Option<ExpressionInstance>) -> String {
  match e {
    Some(e) => s_expr(e),
    None => "-".to_string(),
  }
}

fn s_info(i: &InformationItem) -> String {
  s_list("ii", vec![s_opt(i.id()), s_opt(i.description()), s_opt(i.label()), s_str(i.name()), s_opt_expr(i.value_expression()), s_opt(i.type_ref())])
}

fn s_fundef(f: &FunctionDefinition) -> String {
  s_list(
    "fd",
    vec![
      s_opt(f.id()),
      s_opt(f.description()),
      s_opt(f.label()),
      s_opt(f.type_ref()),
      s_list("params", f.formal_parameters().iter().map(s_info).collect()),
      s_opt_expr(f.body()),
      match f.kind() {
        FunctionKind::Feel => "feel",
        FunctionKind::Java => "java",
        FunctionKind::Pmml => "pmml",
      }
      .to_string(),
    ],
  )
}

fn s_expr(e: &ExpressionInstance) -> String {
  match e {
    ExpressionInstance::Context(c) => s_list(
      "context",
      c.context_entries()
        .iter()
        .map(|ce| {
          s_list(
            "ce",
            vec![
              match &ce.variable {
                Some(i) => s_info(i),
                None => "-".to_string(),
              },
              s_expr(&ce.value),
            ],
          )
        })
        .collect(),
    ),
    ExpressionInstance::DecisionTable(t) => s_table(t),
    ExpressionInstance::FunctionDefinition(f) => s_fundef(f),
    ExpressionInstance::Invocation(i) => {
      let mut v = vec![s_expr(i.called_function())];
      for b in i.bindings() {
        v.push(s_list("b", vec![s_info(b.parameter()), s_opt_expr(b.binding_formula())]));
      }
      s_list("inv", v)
    }
    ExpressionInstance::LiteralExpression(l) => s_literal(l),
    ExpressionInstance::Relation(r) => s_list(
      "rel",
      vec![
        s_opt(r.id()),
        s_opt(r.description()),
        s_opt(r.label()),
        s_opt(r.type_ref()),
        s_list(
          "rows",
          r.rows()
            .iter()
            .map(|row| {
              let mut v = vec![s_opt(row.id()), s_opt(row.description()), s_opt(row.label()), s_opt(row.type_ref())];
              for el in row.elements() {
                v.push(s_expr(el));
              }
              s_list("row", v)
            })
            .collect(),
        ),
        s_list("cols", r.columns().iter().map(s_info).collect()),
      ],
    ),
  }
}

fn s_item(i: &ItemDefinition) -> String {
  s_list(
    "item",
    vec![
      s_str(i.name()),
      s_opt(i.id()),
      s_opt(i.description()),
      s_opt(i.label()),
      s_opt(i.type_ref()),
      s_opt(i.type_language()),
      match i.allowed_values() {
        Some(u) => s_list("ut", vec![s_opt(u.text()), s_opt(u.expression_language())]),
        None => "-".to_string(),
      },
      s_list("comps", i.item_components().iter().map(s_item).collect()),
      s_bool(i.is_collection()),
      match i.function_item() {
        Some(f) => s_list("fi", vec![s_opt(f.output_type_ref())]),
        None => "-".to_string(),
      },
    ],
  )
}

fn s_href(h: &dmntk_common::HRef) -> String {
  let s: &str = h.into();
  s_str(s)
}

fn s_opt_href(h: &Option<dmntk_common::HRef>) -> String {
  match h {
    Some(h) => s_href(h),
    None => "-".to_string(),
  }
}

fn s_know_reqs(rs: &[KnowledgeRequirement]) -> String {
  s_list("kr", rs.iter().map(|r| s_list("r", vec![s_opt(r.id()), s_opt(r.description()), s_opt(r.label()), s_opt_href(r.required_knowledge())])).collect())
}

fn s_drg(e: &DrgElement) -> String {
  match e {
    DrgElement::InputData(x) => s_list("input", vec![s_opt(x.id()), s_opt(x.description()), s_opt(x.label()), s_str(x.name()), s_info(x.variable())]),
    DrgElement::Decision(x) => s_list(
      "decision",
      vec![
        s_str(x.name()),
        s_opt(x.id()),
        s_opt(x.description()),
        s_opt(x.label()),
        s_opt(x.question()),
        s_opt(x.allowed_answers()),
        s_info(x.variable()),
        s_opt_expr(x.decision_logic()),
        s_list(
          "ir",
          x.information_requirements()
            .iter()
            .map(|r| s_list("r", vec![s_opt(r.id()), s_opt(r.description()), s_opt(r.label()), s_opt_href(r.required_decision()), s_opt_href(r.required_input())]))
            .collect(),
        ),
        s_know_reqs(x.knowledge_requirements()),
      ],
    ),
    DrgElement::BusinessKnowledgeModel(x) => s_list(
      "bkm",
      vec![
        s_str(x.name()),
        s_opt(x.id()),
        s_opt(x.description()),
        s_opt(x.label()),
        s_info(x.variable()),
        match x.encapsulated_logic() {
          Some(f) => s_fundef(f),
          None => "-".to_string(),
        },
        s_know_reqs(x.knowledge_requirements()),
      ],
    ),
    DrgElement::DecisionService(x) => s_list(
      "service",
      vec![
        s_str(x.name()),
        s_opt(x.id()),
        s_opt(x.description()),
        s_opt(x.label()),
        s_info(x.variable()),
        s_list("h", x.output_decisions().iter().map(s_href).collect()),
        s_list("h", x.encapsulated_decisions().iter().map(s_href).collect()),
        s_list("h", x.input_decisions().iter().map(s_href).collect()),
        s_list("h", x.input_data().iter().map(s_href).collect()),
      ],
    ),
    DrgElement::KnowledgeSource(x) => s_list("ks", vec![s_opt(x.id()), s_opt(x.description()), s_opt(x.label()), s_str(x.name())]),
  }
}

fn s_color(c: &Option<DcColor>) -> String {
  match c {
    Some(c) => s_list("rgb", vec![c.red.to_string(), c.green.to_string(), c.blue.to_string()]),
    None => "-".to_string(),
  }
}

fn s_align(a: &Option<DcAlignmentKind>) -> String {
  match a {
    None => "-",
    Some(DcAlignmentKind::Start) => "start",
    Some(DcAlignmentKind::End) => "end",
    Some(DcAlignmentKind::Center) => "center",
  }
  .to_string()
}

fn s_style(s: &DmnStyle) -> String {
  s_list(
    "style",
    vec![
      s_opt(&s.id),
      s_color(&s.fill_color),
      s_color(&s.stroke_color),
      s_color(&s.font_color),
      s_str(&s.font_family),
      s_bool(s.font_italic),
      s_bool(s.font_bold),
      s_bool(s.font_underline),
      s_bool(s.font_strike_through),
      s_align(&s.label_horizontal_alignment),
      s_align(&s.label_vertical_alignment),
    ],
  )
}

fn s_opt_style(s: &Option<DmnStyle>) -> String {
  match s {
    Some(s) => s_style(s),
    None => "-".to_string(),
  }
}

fn s_label(l: &Option<DmnLabel>) -> String {
  match l {
    Some(l) => s_list("label", vec![s_bool(l.bounds.is_some()), s_opt(&l.text), s_opt(&l.shared_style)]),
    None => "-".to_string(),
  }
}

fn s_elem(e: &DmnDiagramElement) -> String {
  match e {
    DmnDiagramElement::DmnShape(x) => s_list(
      "shape",
      vec![
        s_opt(&x.id),
        s_opt(&x.dmn_element_ref),
        match &x.decision_service_divider_line {
          Some(d) => s_list("div", vec![s_opt(&d.id), d.way_points.len().to_string(), s_opt(&d.shared_style), s_opt_style(&d.local_style)]),
          None => "-".to_string(),
        },
        s_bool(x.is_collapsed),
        s_opt(&x.shared_style),
        s_opt_style(&x.local_style),
        s_label(&x.label),
      ],
    ),
    DmnDiagramElement::DmnEdge(x) => s_list(
      "edge",
      vec![s_opt(&x.id), x.way_points.len().to_string(), s_opt(&x.dmn_element_ref), s_opt(&x.shared_style), s_opt_style(&x.local_style), s_label(&x.label)],
    ),
  }
}

fn s_dmndi(d: &Option<Dmndi>) -> String {
  match d {
    None => "-".to_string(),
    Some(d) => s_list(
      "dmndi",
      vec![
        s_list("styles", d.styles.iter().map(s_style).collect()),
        s_list(
          "diagrams",
          d.diagrams
            .iter()
            .map(|g| {
              s_list(
                "diagram",
                vec![s_opt(&g.id), s_str(&g.name), s_list("elems", g.diagram_elements.iter().map(s_elem).collect()), s_opt(&g.shared_style), s_opt_style(&g.local_style), s_bool(g.size.is_some())],
              )
            })
            .collect(),
        ),
      ],
    ),
  }
}

pub fn summary(d: &mut Definitions) -> String {
  let drg: Vec<String> = d.drg_elements_mut().iter().map(s_drg).collect();
  s_list(
    "defs",
    vec![
      s_str(d.name()),
      s_opt(d.id()),
      s_opt(d.description()),
      s_opt(d.label()),
      s_str(d.namespace()),
      s_opt(d.expression_language()),
      s_opt(d.type_language()),
      s_opt(d.exporter()),
      s_opt(d.exporter_version()),
      s_list("items", d.item_definitions().iter().map(s_item).collect()),
      s_list("drg", drg),
      s_list(
        "imports",
        d.imports()
          .iter()
          .map(|i| s_list("import", vec![s_opt(i.id()), s_opt(i.description()), s_opt(i.label()), s_str(i.name()), s_str(i.import_type()), s_opt(i.location_uri()), s_str(i.namespace())]))
          .collect(),
      ),
      s_dmndi(d.dmndi()),
    ],
  )
}

// ------------------------------------------------------------------------------------------
// real error → kind
// ------------------------------------------------------------------------------------------

/// `` `name` at [r:c] `` → `name`; anything else unchanged.
fn strip_pos(s: &str) -> &str {
  if let Some(rest) = s.strip_prefix('`') {
    if let Some(p) = rest.find("` at [") {
      return &rest[..p];
    }
  }
  s
}

/// The error kind in the vocabulary of `Dmn.Driver.C12Xml.pErr`; `xml-error` for roxmltree's errors.
pub fn classify(msg: &str) -> String {
  if let Some(m) = msg.strip_prefix("ModelParserError: ") {
    if m.starts_with("parsing model from XML failed with reason: ") {
      return "xml-error".to_string();
    }
    if m.ends_with("is not a valid function kind, accepted values are: `FEEL`, `Java`, `PMML`") {
      return "(err invalid-function-kind)".to_string();
    }
    if m.ends_with("is not a valid hit policy, allowed values are: `UNIQUE`, `FIRST`, `PRIORITY`, `ANY`, `COLLECT`, `RULE ORDER`, `OUTPUT ORDER`") {
      return "(err invalid-hit-policy)".to_string();
    }
    if m.ends_with("is not a valid aggregation, allowed values are: `COUNT`, `SUM`, `MIN`, `MAX`") {
      return "(err invalid-aggregation)".to_string();
    }
    if m.starts_with("conversion to valid color value failed with reason: ") {
      return "(err invalid-color-value)".to_string();
    }
    if m.starts_with("conversion to valid double value failed with reason: ") {
      return "(err invalid-double-value)".to_string();
    }
    if m == "required input expression in decision table's input clause is missing" {
      return "(err required-input-expression-is-missing)".to_string();
    }
    if m == "required expression instance in context entry is missing" {
      return "(err required-expression-instance-is-missing)".to_string();
    }
    if m == "number of elements in a row differs from the number of columns defined in a relation" {
      return "(err row-size)".to_string();
    }
    if let Some(r) = m.strip_prefix("required child node '") {
      if let (Some(p), Some(r2)) = (r.find("' in parent node '"), r.strip_suffix("' is missing")) {
        let child = &r[..p];
        let parent = &r2[p + "' in parent node '".len()..];
        return s_list("err", vec!["required-child-node-is-missing".to_string(), s_str(strip_pos(parent)), s_str(child)]);
      }
    }
    if let Some(r) = m.strip_prefix("unexpected XML node, expected: definitions, actual: ") {
      return s_list("err", vec!["unexpected-node".to_string(), s_str(r)]);
    }
    if let Some(r) = m.strip_prefix("expected value for mandatory attribute `") {
      if let (Some(p), Some(r2)) = (r.find("` in node `"), r.strip_suffix('`')) {
        let attr = &r[..p];
        let node = &r2[p + "` in node `".len()..];
        return s_list("err", vec!["mandatory-attribute".to_string(), s_str(strip_pos(node)), s_str(attr)]);
      }
    }
    if let Some(r) = m.strip_prefix("expected mandatory child node '") {
      if let (Some(p), Some(r2)) = (r.find("' in parent node '"), r.strip_suffix('\'')) {
        let child = &r[..p];
        let parent = &r2[p + "' in parent node '".len()..];
        return s_list("err", vec!["mandatory-child".to_string(), s_str(strip_pos(parent)), s_str(child)]);
      }
    }
    if let Some(r) = m.strip_prefix("expected mandatory text content in node: ") {
      return s_list("err", vec!["mandatory-text".to_string(), s_str(r)]);
    }
  }
  if msg.starts_with("ModelError: invalid decision table orientation: ") {
    return "(err invalid-orientation)".to_string();
  }
  if msg.starts_with("HRefError: invalid reference '") {
    return "(err invalid-reference)".to_string();
  }
  format!("(err unclassified {})", Sexp::str(msg))
}

/// What the implementation does with the text, in the vocabulary of the driver's answer.
pub fn observe(text: &str) -> String {
  match util::guarded(|| dmntk_model::parse(text)) {
    Err(_) => "(panic)".to_string(),
    Ok(Err(e)) => classify(&e.to_string()),
    Ok(Ok(mut d)) => format!("(ok {})", summary(&mut d)),
  }
}

// ------------------------------------------------------------------------------------------
// generated documents over the parser's vocabulary
// ------------------------------------------------------------------------------------------

const EXPR: [&str; 6] = ["context", "decisionTable", "functionDefinition", "invocation", "literalExpression", "relation"];

/// The element names parser.rs looks for below an element of the given name.
fn plausible(parent: &str) -> Vec<&'static str> {
  let mut v: Vec<&'static str> = match parent {
    "definitions" => vec!["itemDefinition", "inputData", "decision", "businessKnowledgeModel", "decisionService", "knowledgeSource", "import", "DMNDI", "description", "decision", "inputData"],
    "itemDefinition" | "itemComponent" => vec!["typeRef", "allowedValues", "itemComponent", "functionItem", "description"],
    "allowedValues" | "inputValues" | "outputValues" | "defaultOutputEntry" | "inputEntry" | "outputEntry" | "inputExpression" => vec!["text", "text"],
    "decision" => vec!["variable", "variable", "informationRequirement", "knowledgeRequirement", "question", "allowedAnswers", "description", "!expr"],
    "variable" | "formalParameter" | "parameter" | "column" => vec!["description", "!expr"],
    "context" => vec!["contextEntry"],
    "contextEntry" => vec!["variable", "!expr", "!expr"],
    "decisionTable" => vec!["input", "output", "rule", "rule"],
    "input" => vec!["inputExpression", "inputValues"],
    "output" => vec!["outputValues", "defaultOutputEntry"],
    "rule" => vec!["inputEntry", "outputEntry"],
    "functionDefinition" | "encapsulatedLogic" => vec!["formalParameter", "!expr"],
    "invocation" => vec!["!expr", "binding"],
    "binding" => vec!["parameter", "!expr"],
    "literalExpression" => vec!["text", "description"],
    "relation" => vec!["column", "row"],
    "row" => vec!["literalExpression", "literalExpression", "description"],
    "businessKnowledgeModel" => vec!["variable", "encapsulatedLogic", "knowledgeRequirement"],
    "decisionService" => vec!["variable", "outputDecision", "encapsulatedDecision", "inputDecision", "inputData"],
    "informationRequirement" => vec!["requiredDecision", "requiredInput"],
    "knowledgeRequirement" => vec!["requiredKnowledge"],
    "DMNDI" => vec!["DMNStyle", "DMNDiagram"],
    "DMNDiagram" => vec!["DMNShape", "DMNEdge", "localStyle", "Size"],
    "DMNShape" => vec!["Bounds", "Bounds", "DMNLabel", "DMNDecisionServiceDividerLine", "localStyle"],
    "DMNEdge" => vec!["waypoint", "DMNLabel", "localStyle"],
    "DMNStyle" | "localStyle" => vec!["fillColor", "strokeColor", "fontColor"],
    "DMNLabel" => vec!["Bounds"],
    "DMNDecisionServiceDividerLine" => vec!["waypoint", "localStyle"],
    _ => vec![],
  };
  if v.is_empty() {
    v.push("description");
  }
  v
}

const ALL_NAMES: [&str; 40] = [
  "definitions", "itemDefinition", "itemComponent", "typeRef", "allowedValues", "functionItem", "inputData", "decision", "variable", "informationRequirement", "requiredDecision",
  "requiredInput", "knowledgeRequirement", "requiredKnowledge", "businessKnowledgeModel", "encapsulatedLogic", "formalParameter", "decisionService", "outputDecision", "encapsulatedDecision",
  "inputDecision", "knowledgeSource", "import", "context", "contextEntry", "decisionTable", "input", "output", "rule", "inputEntry", "outputEntry", "functionDefinition", "invocation", "binding",
  "parameter", "literalExpression", "relation", "column", "row", "text",
];

fn gen_attrs(rng: &mut crate::rng::Rng, name: &str, out: &mut String) {
  let doubles = ["1", "1.5", "1e5", ".5", "1.", "+.5e-3", "inf", "NaN", "-Infinity", "", "e5", "1e", "1e+", ".", "+", "0x10", "1_0", " 1", "-0", "1E-2", "infinit", "+nan", "1.5.2", "٣"];
  let bytes = ["0", "255", "256", "+7", "-1", "", "007", "1.0", "+", "99999999999999999999", "12"];
  let bools = ["true", "false", " true", "TRUE", ""];
  let hrefs = ["#_a", "#_b", "_a", "", ":alfa", "##", "a b", "%", "http://x/y#z", "#a#b", "//host/p#f", "?q#", "./:a", "#", "#%zz", "a:b"];
  let mut attr = |out: &mut String, rng: &mut crate::rng::Rng, n: &str, vals: &[&str]| {
    let v = rng.pick(vals);
    // now and then under a namespace prefix: `node.attribute(n)` must not find it then
    if rng.chance(1, 25) {
      out.push_str(&format!(" xml:{}=\"{}\"", n, v));
    } else {
      out.push_str(&format!(" {}=\"{}\"", n, v));
    }
  };
  let named = !matches!(name, "text" | "typeRef" | "description" | "context" | "contextEntry" | "rule" | "inputEntry" | "outputEntry" | "literalExpression" | "invocation" | "binding" | "relation" | "row");
  if named && rng.chance(29, 30) {
    attr(out, rng, "name", &["a", "b", "Full Name", ""]);
  }
  if rng.chance(1, 3) {
    attr(out, rng, "id", &["_a", "_b", "_c"]);
  }
  if rng.chance(1, 8) {
    attr(out, rng, "label", &["l"]);
  }
  if rng.chance(1, 3) {
    attr(out, rng, "typeRef", &["number", "string", " number ", "tA", "a"]);
  }
  match name {
    "definitions" | "import" => {
      if rng.chance(9, 10) {
        attr(out, rng, "namespace", &["ns"]);
      }
      if name == "import" && rng.chance(8, 10) {
        attr(out, rng, "importType", &["t"]);
      }
      if rng.chance(1, 4) {
        attr(out, rng, "expressionLanguage", &["feel"]);
      }
    }
    "requiredDecision" | "requiredInput" | "requiredKnowledge" | "outputDecision" | "encapsulatedDecision" | "inputDecision" => {
      if rng.chance(9, 10) {
        attr(out, rng, "href", &hrefs);
      }
    }
    "inputData" => {
      if rng.chance(1, 2) {
        attr(out, rng, "href", &hrefs);
      }
    }
    "decisionTable" => {
      if rng.chance(2, 3) {
        attr(out, rng, "hitPolicy", &["UNIQUE", "ANY", "PRIORITY", "FIRST", "RULE ORDER", "OUTPUT ORDER", "COLLECT", " COLLECT ", "COLLECT", "unique", "RULE  ORDER", ""]);
      }
      if rng.chance(1, 2) {
        attr(out, rng, "aggregation", &["COUNT", "SUM", "MIN", "MAX", " SUM", "AVG", ""]);
      }
      if rng.chance(1, 3) {
        attr(out, rng, "preferredOrientation", &["Rule-as-Row", "Rule-as-Column", "CrossTable", " CrossTable ", "crosstable"]);
      }
      if rng.chance(1, 4) {
        attr(out, rng, "outputLabel", &["o"]);
      }
    }
    "functionDefinition" | "encapsulatedLogic" => {
      if rng.chance(1, 2) {
        attr(out, rng, "kind", &["FEEL", "Java", "PMML", " FEEL ", "feel", ""]);
      }
    }
    "itemDefinition" | "itemComponent" => {
      if rng.chance(1, 2) {
        attr(out, rng, "isCollection", &bools);
      }
    }
    "functionItem" => {
      if rng.chance(1, 2) {
        attr(out, rng, "outputTypeRef", &["number"]);
      }
    }
    "Bounds" | "Size" | "waypoint" => {
      for a in ["x", "y", "width", "height"] {
        if rng.chance(9, 10) {
          attr(out, rng, a, &doubles);
        }
      }
    }
    "fillColor" | "strokeColor" | "fontColor" => {
      for a in ["red", "green", "blue"] {
        if rng.chance(9, 10) {
          attr(out, rng, a, &bytes);
        }
      }
    }
    "DMNStyle" | "localStyle" => {
      if rng.chance(1, 2) {
        attr(out, rng, "fontBold", &bools);
      }
      if rng.chance(1, 3) {
        attr(out, rng, "fontFamily", &["Helvetica"]);
      }
      if rng.chance(1, 3) {
        attr(out, rng, "labelHorizontalAlignment", &["start", "end", "center", "Center"]);
      }
      if rng.chance(1, 3) {
        attr(out, rng, "fontSize", &doubles);
      }
    }
    "DMNShape" | "DMNEdge" | "DMNLabel" | "DMNDiagram" => {
      if rng.chance(1, 2) {
        attr(out, rng, "dmnElementRef", &["_a"]);
      }
      if rng.chance(1, 3) {
        attr(out, rng, "sharedStyle", &["s1"]);
      }
      if rng.chance(1, 3) {
        attr(out, rng, "isCollapsed", &bools);
      }
      if rng.chance(1, 3) {
        attr(out, rng, "text", &["t"]);
      }
      if rng.chance(1, 4) {
        attr(out, rng, "resolution", &doubles);
      }
    }
    _ => {}
  }
}

fn gen_elem(rng: &mut crate::rng::Rng, name: &str, depth: usize, out: &mut String) {
  out.push('<');
  out.push_str(name);
  gen_attrs(rng, name, out);
  let leaf_text = matches!(name, "text" | "typeRef" | "description" | "question" | "allowedAnswers");
  let n_children = if depth >= 7 { 0 } else { rng.below(5) as usize };
  if n_children == 0 && !leaf_text && rng.chance(1, 2) {
    out.push_str("/>");
    return;
  }
  out.push('>');
  if leaf_text {
    // what `optional_content(node)` sees: the text children, concatenated
    match rng.below(10) {
      0 => {}
      1 => out.push_str("<!-- c -->1"),
      8 => out.push_str("1 <!-- c --> + 2"),
      9 => out.push_str("a<?p?>b<!-- c --><![CDATA[c]]>"),
      2 => out.push_str("<![CDATA[a < b]]>"),
      3 => out.push_str(" 1 <x/> 2 "),
      4 => out.push_str("<x/>tail"),
      _ => out.push_str(*rng.pick(&["1", "x", "&lt;5", "\"a\"", " number ", "-"])),
    }
  } else {
    let options = plausible(name);
    // most DRG elements get their mandatory variable, so that the parser goes on into their logic
    if matches!(name, "decision" | "businessKnowledgeModel" | "decisionService" | "inputData") && depth < 7 && rng.chance(9, 10) {
      gen_elem(rng, "variable", 6, out);
    }
    for _ in 0..n_children {
      match rng.below(12) {
        0 => out.push_str("\n  "),
        1 => out.push_str("<!-- comment -->"),
        2 => out.push_str("stray text"),
        _ => {}
      }
      let pick = if rng.chance(1, 12) { *rng.pick(&ALL_NAMES) } else { *rng.pick(&options) };
      let child = if pick == "!expr" { *rng.pick(&EXPR) } else { pick };
      gen_elem(rng, child, depth + 1, out);
    }
  }
  out.push_str("</");
  out.push_str(name);
  out.push('>');
}

/// A random document over the vocabulary of parser.rs: repeated and missing children, children in any
/// order, text / comment / CDATA nodes between them, attribute values at the edges of what the
/// conversions accept, attributes under a namespace prefix.
pub fn gen_document(rng: &mut crate::rng::Rng) -> String {
  let mut out = String::from("<?xml version=\"1.0\" encoding=\"UTF-8\"?>");
  let root = if rng.chance(1, 40) { "decision" } else { "definitions" };
  // a namespace prefix on the element names now and then: `tag_name().name()` is the local name
  gen_elem(rng, root, 0, &mut out);
  if rng.chance(1, 10) {
    out = out.replacen("<definitions", "<dmn:definitions xmlns:dmn=\"https://www.omg.org/spec/DMN/20191111/MODEL/\"", 1);
    if let Some(p) = out.rfind("</definitions>") {
      out.replace_range(p..p + "</definitions>".len(), "</dmn:definitions>");
    }
  }
  out
}
